"""Logging engine (DESIGN 2.F): shared by C22 and C23.

* a JSON-able *spec* describes one workload: shares, logs (rule, loggees,
  field selections), logger keywords and a list of ticks, each tick being
  ``{"pre": [ops], "ctl": "START"|"RUN"|"STOP"|None, "post": [ops]}``; the
  writer ops in ``pre`` run before the logger step of the tick, those in
  ``post`` after it (same virtual store time);
* ``build`` makes a real House/Store/Logger/Log set, ``run_spec`` drives
  ``logger.runner.send(control)`` tick by tick under virtual store time;
* ``parse_file`` / ``log_file_paths`` read what the logger produced;
* the crash child used by C23 runs a spec, reports through its stdout pipe
  (unbuffered ``os.write``) every record written, every completed
  ``Log.flush`` and every ``Log.cycle`` begin/end.  At each requested crash
  point (start of a tick, or the n-th execution of a source line of the
  anchored functions, detected by a ``sys.monitoring`` LINE callback) it forks
  and the twin kills itself with ``os._exit(137)``; the survivor snapshots the
  log tree (= what the killed process left) and continues to the next crash
  point (see ``child_run``).  ``python -m vf.logx serve BATCH.json`` is a
  launcher, started with ``subprocess.run(timeout=)``, that imports ioflo once
  and gives every job (a crash-point run, or a process resuming on a
  snapshot) a forked process of its own with a pipe and a watchdog;
  ``python -m vf.logx child JOB.json`` runs one job in a fresh interpreter
  (used under strace).

Nothing in here decides a property; the oracles live in the checks.
"""
import collections.abc  # noqa: F401
import collections
import json
import os
import re
import subprocess
import sys

RULES = ("never", "once", "always", "update", "change", "streak", "deck")
# header words as documented for the text log format (own copy, not ioflo's table)
RULE_TITLE = {"never": "Never", "once": "Once", "always": "Always", "update": "Update",
              "change": "Change", "streak": "Streak", "deck": "Deck"}
MARK = "@R "

# functions whose source lines are crash points (thorough tier of C23)
LINE_TARGETS = ("Log.cycle", "Log.reopen", "Log.flush", "Log.close", "Logger.log",
                "Logger.cycle", "ocfn")


def quiet():
    from ioflo.aid.consoling import getConsole
    getConsole().reinit(verbosity=0)


# ------------------------------------------------------------------ building

class Rig(object):
    def __init__(self):
        self.house = self.store = self.logger = None
        self.logs = collections.OrderedDict()
        self.shares = collections.OrderedDict()
        self.statuses = []


def _mkseq(kind):
    if kind == "deque":
        return collections.deque()
    if kind == "dict":
        return {}
    return []


def build(spec, prefix):
    """Real objects for ``spec`` (same construction as the repo's test_logging)."""
    from ioflo.base import housing, logging, globaling
    from ioflo.aid.odicting import odict
    rulemap = {"never": globaling.NEVER, "once": globaling.ONCE, "always": globaling.ALWAYS,
               "update": globaling.UPDATE, "change": globaling.CHANGE,
               "streak": globaling.STREAK, "deck": globaling.DECK}
    rig = Rig()
    rig.house = housing.House(name=spec["house"])
    rig.store = rig.house.store
    rig.house.assignRegistries()
    rig.logger = logging.Logger(name=spec.get("logger", "lgr"), store=rig.store,
                                schedule=globaling.ACTIVE, prefix=prefix, **spec.get("lkw", {}))
    for sh in spec["shares"]:
        share = rig.store.create(sh["path"])
        kind = sh.get("kind", "data")
        if kind == "streak":
            share.create(odict([(sh["field"], _mkseq(sh.get("seq", "list")))]))
        elif kind == "data":
            share.create(odict([(k, v) for k, v in sh["init"]]))
        rig.shares[sh["path"]] = share
    for lg in spec["logs"]:
        log = logging.Log(name=lg["name"], store=rig.store, kind="text", rule=rulemap[lg["rule"]])
        for le in lg["loggees"]:
            log.addLoggee(tag=le["tag"], loggee=le["share"],
                          fields=list(le["fields"]) if le.get("fields") else None)
        rig.logger.addLog(log)
        rig.logs[lg["name"]] = log
    rig.logger.resolve()
    rig.store.changeStamp(spec.get("t0", 0.0))
    return rig


def apply_op(rig, op):
    from ioflo.aid.odicting import odict
    kind, path = op[0], op[1]
    if kind == "unlink":
        # file-system fault by an outside actor (operator, cleaner): rotate copy op[2] of log `path` disappears
        paths = rig.logs[path].paths
        if len(paths) > op[2] and os.path.exists(paths[op[2]]):
            with open(paths[op[2]], "rb") as f:      # what is lost with it: the record ids the copy held
                held = sorted(set(int(x) for x in re.findall(rb"\tr(\d{6})", f.read())))
            os.remove(paths[op[2]])
            _emit("U %s %d %s" % (path, op[2], ",".join(str(i) for i in held) or "-"))
        return
    share = rig.shares[path]
    if kind == "update":
        share.update(odict([(k, v) for k, v in op[2]]))
    elif kind == "change":
        share.change(odict([(k, v) for k, v in op[2]]))
    elif kind == "create":
        if op[2] == "dict":
            share.create(odict([(k, v) for k, v in op[3]]))
        elif op[2] == "pairs":
            share.create([(k, v) for k, v in op[3]])
        else:
            share.create(**dict((k, v) for k, v in op[3]))
    elif kind == "del":
        if op[2] in share:
            del share[op[2]]
    elif kind == "value":
        share.value = op[2]
    elif kind == "stamp":
        share.stampNow()
    elif kind == "append":
        seq = share[op[2]]
        if isinstance(seq, dict):
            seq[op[3][0]] = op[3][1]
        else:
            seq.append(op[3])
    elif kind == "push":
        share.push(odict([(k, v) for k, v in op[2]]))
    elif kind == "pushraw":
        share.push(op[2])
    else:
        raise ValueError("unknown op %r" % (op,))


def run_spec(spec, rig, on_step=None):
    """Drive the logger's runner.  ``on_step(phase, tick)`` is called with phase
    'tick' (start of a tick, before its writer steps), 'ran' (right after the
    logger step) and 'end'."""
    from ioflo.base import globaling
    ctl = {"START": globaling.START, "RUN": globaling.RUN, "STOP": globaling.STOP}
    dt = spec["dt"]
    for i, tick in enumerate(spec["ticks"]):
        if i > 0:
            rig.store.advanceStamp(dt)
        if on_step:
            on_step("tick", i)
        for op in tick.get("pre", ()):
            apply_op(rig, op)
        if tick.get("ctl"):
            status = rig.logger.runner.send(ctl[tick["ctl"]])
            rig.statuses.append((i, tick["ctl"], status))
            if on_step:
                on_step("ran", i)
        for op in tick.get("post", ()):
            apply_op(rig, op)
    if on_step:
        on_step("end", len(spec["ticks"]))


def stamps(spec):
    """Virtual stamp of every tick, accumulated the way the store does it."""
    out, t = [], float(spec.get("t0", 0.0))
    for i in range(len(spec["ticks"])):
        if i > 0:
            t += spec["dt"]
        out.append(t)
    return out


# ------------------------------------------------------------------ parsing

def log_file_paths(dirpath, base, keep):
    """[main, 01, 02, ...] newest first."""
    out = [os.path.join(dirpath, base + ".txt")]
    for k in range(1, keep + 1):
        out.append(os.path.join(dirpath, "%s%02d.txt" % (base, k)))
    return out


def parse_file(path):
    """None if missing, else size / complete lines / torn tail / header / records."""
    try:
        with open(path, "rb") as f:
            data = f.read()
    except FileNotFoundError:
        return None
    text = data.decode("utf-8", "replace")
    lines = text.split("\n")
    tail = lines.pop()
    return {"size": len(data), "lines": lines, "tail": tail,
            "header": lines[:2], "records": [l.split("\t") for l in lines[2:]]}


def find_logger_dirs(prefix, house, logger):
    """Directories the logger created under prefix/house (reuse: one fixed
    name, otherwise time stamped names starting with the logger name)."""
    root = os.path.join(prefix, house)
    try:
        names = sorted(os.listdir(root))
    except FileNotFoundError:
        return []
    return [os.path.join(root, n) for n in names if n == logger or n.startswith(logger + "_")]


def expected_header(name, rule, tagfields):
    """tagfields: [(tag, [field, ...])] in loggee order, after defaulting."""
    cols = ["_time"]
    for tag, fields in tagfields:
        if len(fields) > 1:
            cols.extend("%s.%s" % (tag, f) for f in fields)
        else:
            cols.append(tag)
    return ["text\t%s\t%s" % (RULE_TITLE[rule], name), "\t".join(cols)]


# ------------------------------------------------------------------ crash child (C23)

def record_value(rid, pad):
    return "r%06d%s" % (rid, "x" * pad)


def record_id(text):
    if len(text) >= 7 and text[0] == "r" and text[1:7].isdigit():
        return int(text[1:7])
    return None


def _emit(line):
    os.write(1, (MARK + line + "\n").encode())


def _line_targets():
    from ioflo.base import logging
    from ioflo.aid import filing
    fns = {"Log.cycle": logging.Log.cycle, "Log.reopen": logging.Log.reopen,
           "Log.flush": logging.Log.flush, "Log.close": logging.Log.close,
           "Logger.log": logging.Logger.log, "Logger.cycle": logging.Logger.cycle,
           "ocfn": filing.ocfn}
    return {name: fn.__code__ for name, fn in fns.items()}


def child_main(jobfile):
    with open(jobfile) as f:
        job = json.load(f)
    child_run(job)


def child_run(job):
    """Run one workload in *this* process and never return (os._exit: 0 after a
    normal end, 3 on an exception), so nothing buffered in user space is ever
    written out by interpreter shutdown.

    Crash points: ``job['crashes']`` = [{'id', 'kind': 'tick', 'tick': K} |
    {'id', 'kind': 'line', 'func', 'rel', 'nth'}, ... , each with 'snap': dir].
    At a crash point the workload process forks; the twin -- same memory, same
    unflushed file buffers, same descriptors -- kills itself at once with
    ``os._exit(137)``; the surviving process reaps it, reports its exit status
    and copies the log tree to ``snap``: exactly the files a process killed at
    that point leaves behind (a dying process writes nothing more).  The
    survivor then goes on to the next crash point, so one interpreter serves
    every crash point of a configuration (process creation is by far the most
    expensive step here).  Without ``snap`` (``job['kill']``) the process
    itself dies at the crash point."""
    import shutil
    spec, prefix = job["spec"], job["prefix"]
    crashes = list(job.get("crashes") or [])
    if job.get("kill"):
        crashes.append(dict(job["kill"], id="self", snap=None))
    tick_crash = {c["tick"]: c for c in crashes if c["kind"] == "tick"}
    line_crash = {(c["func"], c["rel"], c["nth"]): c for c in crashes if c["kind"] == "line"}
    census = job.get("census", False)
    quiet()
    import ioflo
    _emit("TREE %s" % os.path.dirname(os.path.realpath(ioflo.__file__)))
    rig = build(spec, prefix)
    cur = {"id": None}
    written = {}

    def crash(c):
        _emit("KILL %s" % c["id"])
        if not c.get("snap"):
            os._exit(137)
        pid = os.fork()
        if pid == 0:
            os._exit(137)                       # the twin dies here, buffers unflushed
        _, status = os.waitpid(pid, 0)
        _emit("DEAD %s %d" % (c["id"], os.waitstatus_to_exitcode(status)))
        shutil.copytree(prefix, c["snap"])
        _emit("SNAP %s" % c["id"])

    # observation wrappers on the instances (API boundary; the real methods run)
    def instrument(name, log):
        real_log, real_flush, real_cycle = log.log, log.flush, log.cycle
        written[name] = -1

        def w_log():
            real_log()
            written[name] = cur["id"]
            _emit("W %s %d" % (name, cur["id"]))

        def w_flush():
            isopen = bool(log.file and not log.file.closed)
            if isopen:
                _emit("FB %s %d" % (name, written[name]))
            real_flush()
            if isopen:
                _emit("F %s %d" % (name, written[name]))

        def w_cycle(size=0):
            _emit("CB %s" % name)
            ret = real_cycle(size=size)
            _emit("CE %s %d" % (name, 1 if (ret and log.paths) else 0))
            return ret

        log.log, log.flush, log.cycle = w_log, w_flush, w_cycle
        real_deck = log.logDeck

        def w_deck():                    # the deck rule writes through logDeck, not through log
            n = len(log.loggees.items()[0][1].deck) if log.loggees else 0
            real_deck()
            if n:
                written[name] = cur["id"]
                _emit("W %s %d" % (name, cur["id"]))
        log.logDeck = w_deck

    for name, log in rig.logs.items():
        instrument(name, log)

    if census or line_crash:
        mon = sys.monitoring
        tool = 4
        mon.use_tool_id(tool, "vf-logx")
        codes = _line_targets()
        names = {code: name for name, code in codes.items()}
        counts = {}

        def on_line(code, line):
            name = names.get(code)
            if name is None:
                return
            rel = line - code.co_firstlineno
            k = (name, rel)
            counts[k] = n = counts.get(k, 0) + 1
            if census:
                _emit("L %s %d" % (name, rel))
            c = line_crash.get((name, rel, n))
            if c is not None:
                crash(c)

        mon.register_callback(tool, mon.events.LINE, on_line)
        for code in codes.values():
            mon.set_local_events(tool, code, mon.events.LINE)
        _emit("MON %d" % len(codes))

    ids = job["ids"]          # record id of each tick's logger step (None where no step)

    lf = {"stamp": None}

    def on_step(phase, i):
        if phase == "tick":
            lf["stamp"] = rig.logger.flushStamp
        if phase == "ran":
            # the logger's periodic flush, observed at its public time stamp: when a logger step whose flush period had
            # elapsed moved .flushStamp, the logger has "flushed" -- every record of every log written so far is covered
            was, now = lf["stamp"], rig.logger.flushStamp
            try:
                due = was is not None and now != was and (rig.store.stamp - was) >= rig.logger.flushPeriod
            except TypeError:
                due = False
            if due and spec["ticks"][i]["ctl"] == "RUN":
                for name in rig.logs:
                    _emit("F %s %d" % (name, written[name]))
                _emit("LF %d" % i)
        if phase == "tick":
            cur["id"] = ids[i] if i < len(ids) else None
            _emit("T %d" % i)
            if i in tick_crash:
                crash(tick_crash[i])
        elif phase == "ran":
            _emit("S %d %s" % (i, rig.statuses[-1][2]))
            if i == 0 or spec["ticks"][i]["ctl"] == "START":
                _emit("P %s" % rig.logger.path)

    try:
        run_spec(spec, rig, on_step)
    except BaseException as ex:  # reported, the parent decides
        import traceback
        from vf.core import exc_key
        _emit("X %s" % json.dumps({"key": exc_key(ex), "tb": traceback.format_exc()[-1500:]}))
        os._exit(3)
    _emit("END")
    os._exit(0)


def run_child(job, workdir, tag, timeout=60, strace_out=None):
    """Run the crash child in its own interpreter.  Returns (rc, report, stderr)
    where report is the list of token lists it wrote; rc None on timeout."""
    from vf.core import PY, VERIF, child_env
    jf = os.path.join(workdir, "job-%s.json" % tag)
    with open(jf, "w") as f:
        json.dump(job, f)
    env = child_env()
    cmd = [PY, "-B", "-S", "-m", "vf.logx", "child", jf]     # -S: ioflo comes from PYTHONPATH only
    if strace_out:
        cmd = ["strace", "-f", "-s", "64", "-e", "trace=write,fsync,rename,openat,close",
               "-o", strace_out] + cmd
    try:
        p = subprocess.run(cmd, cwd=VERIF, env=env, capture_output=True, timeout=timeout)
    except subprocess.TimeoutExpired:
        return None, [], "timeout"
    return p.returncode, parse_report(p.stdout.decode("utf-8", "replace")), p.stderr.decode("utf-8", "replace")[-800:]


def parse_report(text):
    return [l[len(MARK):].split(" ") for l in text.split("\n") if l.startswith(MARK)]


def _fork_run(job, timeout):
    """Fork a victim that runs ``job``; collect what it wrote to its pipe."""
    import select
    import signal
    import time
    r, w = os.pipe()
    pid = os.fork()
    if pid == 0:
        try:
            os.close(r)
            os.dup2(w, 1)
            os.close(w)
            child_run(job)
        finally:
            os._exit(4)
    os.close(w)
    chunks, deadline, timed_out = [], time.monotonic() + timeout, False
    while True:
        left = deadline - time.monotonic()
        if left <= 0:
            timed_out = True
            os.kill(pid, signal.SIGKILL)
            break
        ready, _, _ = select.select([r], [], [], min(left, 5.0))
        if ready:
            data = os.read(r, 65536)
            if not data:
                break
            chunks.append(data)
    os.close(r)
    _, status = os.waitpid(pid, 0)
    rc = None if timed_out else os.waitstatus_to_exitcode(status)
    return rc, b"".join(chunks).decode("utf-8", "replace")


def serve_main(batchfile):
    """Launcher: imports ioflo once, then runs every job of the batch in a
    forked process of its own (pipe + watchdog).  A job may say
    ``copy_from``: that tree is copied to the job's prefix first (a resuming
    process works on a copy of the state a killed process left, so that state
    itself stays available to the judge)."""
    import shutil
    with open(batchfile) as f:
        batch = json.load(f)
    quiet()
    from ioflo.base import housing, logging, globaling  # noqa: F401  (imported once, before any fork)
    results = {}
    for job in batch["jobs"]:
        src = job.get("copy_from")
        if src:
            if not os.path.isdir(src):
                results[job["tag"]] = {"rc": None, "out": "", "skipped": "no snapshot %s" % src}
                continue
            shutil.copytree(src, job["prefix"])
        rc, out = _fork_run(job, batch.get("victim_timeout", 240))
        results[job["tag"]] = {"rc": rc, "out": out}
    with open(batch["out"] + ".tmp", "w") as f:
        json.dump(results, f)
    os.replace(batch["out"] + ".tmp", batch["out"])
    os._exit(0)


def run_batch(jobs, workdir, tag, timeout=300):
    """jobs: crash-child jobs, each with a unique 'tag', run in order by one
    launcher.  Returns ({tag: (rc, report)}, '') or (None, reason)."""
    from vf.core import PY, VERIF, child_env
    bf = os.path.join(workdir, "batch-%s.json" % tag)
    of = os.path.join(workdir, "batch-%s.out.json" % tag)
    with open(bf, "w") as f:
        json.dump({"jobs": jobs, "out": of, "victim_timeout": 240}, f)
    try:
        p = subprocess.run([PY, "-B", "-S", "-m", "vf.logx", "serve", bf], cwd=VERIF, env=child_env(),
                           capture_output=True, timeout=timeout)
    except subprocess.TimeoutExpired:
        return None, "launcher timeout"
    if p.returncode != 0 or not os.path.exists(of):
        return None, "launcher rc=%s: %s" % (p.returncode, p.stderr.decode("utf-8", "replace")[-400:])
    with open(of) as f:
        res = json.load(f)
    return {t: (x["rc"], parse_report(x["out"])) for t, x in res.items()}, ""


if __name__ == "__main__":
    if len(sys.argv) == 3 and sys.argv[1] == "child":
        child_main(sys.argv[2])
    if len(sys.argv) == 3 and sys.argv[1] == "serve":
        serve_main(sys.argv[2])
    sys.exit(2)
