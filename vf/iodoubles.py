"""Engine D helpers: socket / context / wire-log / serial / udp doubles,
fault-script enumeration, and a loopback scheduler with virtual time.

Doubles are handed to the real ioflo classes through constructor parameters
(``cs=``, ``context=``, ``wlog=``, ``server=``, ``handler=``, ``servant=``) or
by assigning the documented socket attribute (``.cs`` / ``.ss``).  Nothing in
ioflo is edited or monkeypatched.

Script items (one is consumed per call of the scripted operation):

    FULL                      send/sendto accepts everything
    PARTIAL(k)                send accepts min(k, len(data)) bytes
    ZERO                      send returns 0
    ERR(errno)                raise OSError(errno, strerror)
    SSLE(kind)                raise the ssl.SSLError subclass for kind
    DATA(bytes)               recv returns these bytes
    GRAM(bytes, addr)         recvfrom returns (bytes, addr)
    EOF                       recv returns b''
    RET(value)                plain return value (connect_ex, do_handshake ...)
    CONN(sock, addr)          accept returns (sock, addr)
"""
import collections.abc  # noqa: F401
import errno
import os
import socket
import ssl
from collections import deque

FULL = ("full",)
ZERO = ("zero",)
EOF = ("eof",)


def PARTIAL(k):
    return ("partial", int(k))


def ERR(code):
    return ("errno", int(code))


def SSLE(kind):
    return ("ssl", kind)


def DATA(b):
    return ("data", bytes(b))


def GRAM(b, addr):
    return ("gram", bytes(b), addr)


def RET(v):
    return ("ret", v)


def CONN(sock, addr):
    return ("conn", sock, addr)


WOULDBLOCK = ERR(errno.EAGAIN)
WANT_READ = SSLE("want_read")
WANT_WRITE = SSLE("want_write")

#: the connection-loss set named by the property statement of C25
LOSS_ERRNOS = (errno.ECONNRESET, errno.ENETRESET, errno.ENETUNREACH, errno.EHOSTUNREACH,
               errno.ENETDOWN, errno.EHOSTDOWN, errno.ETIMEDOUT, errno.ECONNREFUSED)
#: errors that are neither loss nor would-block
OTHER_ERRNOS = (errno.EPIPE, errno.EBADF, errno.ENOTCONN, errno.EINVAL, errno.ENOBUFS)

_SSL_KINDS = {
    "want_read": (ssl.SSLWantReadError, ssl.SSL_ERROR_WANT_READ, "The operation did not complete (read)"),
    "want_write": (ssl.SSLWantWriteError, ssl.SSL_ERROR_WANT_WRITE, "The operation did not complete (write)"),
    "eof": (ssl.SSLEOFError, ssl.SSL_ERROR_EOF, "EOF occurred in violation of protocol"),
    "zero_return": (ssl.SSLZeroReturnError, ssl.SSL_ERROR_ZERO_RETURN, "TLS/SSL connection has been closed (EOF)"),
    "syscall": (ssl.SSLSyscallError, ssl.SSL_ERROR_SYSCALL, "Some I/O error occurred"),
    "ssl": (ssl.SSLError, ssl.SSL_ERROR_SSL, "[SSL: WRONG_VERSION_NUMBER] wrong version number"),
}


def errname(code):
    return errno.errorcode.get(code, str(code))


def item_name(item):
    """Short stable text for a script item (used in case keys / mechanism keys)."""
    k = item[0]
    if k == "errno":
        return errname(item[1])
    if k == "errno1":
        return errname(item[1]) + "(bare)"
    if k == "ssl":
        return "SSL_" + item[1].upper()
    if k == "partial":
        return "partial%d" % item[1]
    if k == "data":
        return "data%d" % len(item[1])
    if k == "gram":
        return "gram%d" % len(item[1])
    if k == "ret":
        return "ret(%r)" % (item[1],)
    if k == "conn":
        return "conn%r" % (item[2],)
    return k


def ERR1(code):
    """a socket.error built from the number alone (as wrapping or emulating handlers do): args[0] is the number, .errno is None"""
    return ("errno1", int(code))


def make_exc(item):
    if item[0] == "errno":
        return OSError(item[1], os.strerror(item[1]))
    if item[0] == "errno1":
        return OSError(item[1])
    if item[0] == "ssl":
        cls, code, text = _SSL_KINDS[item[1]]
        return cls(code, text)
    raise ValueError(item)


def is_exc(item):
    return item[0] in ("errno", "errno1", "ssl")


class Scripted(object):
    """Per-operation script queues with a default when a queue is empty."""

    DEFAULTS = {}

    def __init__(self, scripts=None, defaults=None):
        self.scripts = {}
        self.defaults = dict(self.DEFAULTS)
        if defaults:
            self.defaults.update(defaults)
        for op, items in (scripts or {}).items():
            self.scripts[op] = deque(items)
        self.log = []          # [(op, detail, outcome)]
        self.calls = {}        # op -> count
        self.raised = []       # exception objects raised by the double, in order

    def script(self, op, items):
        self.scripts.setdefault(op, deque()).extend(items)

    def pending(self, op):
        return len(self.scripts.get(op, ()))

    def _next(self, op):
        self.calls[op] = self.calls.get(op, 0) + 1
        q = self.scripts.get(op)
        if q:
            return q.popleft()
        return self.defaults[op]

    def _record(self, op, detail, outcome):
        self.log.append((op, detail, outcome))

    def ops(self, op):
        return [e for e in self.log if e[0] == op]

    def _finish(self, op, detail, item):
        """Raise or return for items that are not operation specific."""
        if is_exc(item):
            exc = make_exc(item)
            self._record(op, detail, item_name(item))
            self.raised.append(exc)
            raise exc
        if item[0] == "ret":
            self._record(op, detail, item[1])
            return item[1]
        raise ValueError("script item %r not valid for %s" % (item, op))


class FakeSocket(Scripted):
    """Stands in for socket.socket / ssl.SSLSocket of one connection,
    a listening socket (accept) or a datagram socket (sendto / recvfrom)."""

    DEFAULTS = {"send": FULL, "recv": WOULDBLOCK, "sendto": FULL, "recvfrom": WOULDBLOCK,
                "connect_ex": RET(0), "accept": WOULDBLOCK, "do_handshake": RET(None),
                "shutdown": RET(None), "close": RET(None)}

    def __init__(self, name="", sockname=("127.0.0.1", 5000), peername=("127.0.0.1", 6000),
                 scripts=None, defaults=None):
        super(FakeSocket, self).__init__(scripts, defaults)
        self.name = name
        self.sockname = sockname
        self.peername = peername
        self.closed = False
        self.shutdowns = []
        self.blocking = None
        self.wrapped = None     # kwargs of FakeContext.wrap_socket
        self.options = {}
        self.decide_sendto = None

    def __repr__(self):
        return "<FakeSocket %s %s<-%s>" % (self.name, self.sockname, self.peername)

    # --- plumbing the real classes call while opening / accepting
    def setblocking(self, flag):
        self.blocking = flag

    def setsockopt(self, level, opt, value):
        self.options[(level, opt)] = value

    def getsockopt(self, level, opt):
        return self.options.get((level, opt), 1 << 20)

    def getsockname(self):
        return self.sockname

    def getpeername(self):
        return self.peername

    def bind(self, ha):
        self.sockname = ha

    def listen(self, n):
        pass

    def fileno(self):
        return -1

    # --- scripted operations
    def send(self, data):
        data = bytes(data)
        if self.closed:
            self._record("send", data, "EBADF(closed)")
            raise OSError(errno.EBADF, "send on closed double")
        item = self._next("send")
        k = item[0]
        if k == "full":
            res = len(data)
        elif k == "partial":
            res = min(item[1], len(data))
        elif k == "zero":
            res = 0
        else:
            return self._finish("send", data, item)
        self._record("send", data, res)
        return res

    def recv(self, bufsize):
        if self.closed:
            self._record("recv", bufsize, "EBADF(closed)")
            raise OSError(errno.EBADF, "recv on closed double")
        item = self._next("recv")
        if item[0] == "data":
            if len(item[1]) > bufsize:
                raise ValueError("scripted chunk larger than bufsize")
            self._record("recv", bufsize, item[1])
            return item[1]
        if item[0] == "eof":
            self._record("recv", bufsize, b"")
            return b""
        return self._finish("recv", bufsize, item)

    def sendto(self, data, da):
        data = bytes(data)
        if self.decide_sendto is not None:      # callable(data, da) -> script item, instead of the script
            self.calls["sendto"] = self.calls.get("sendto", 0) + 1
            item = self.decide_sendto(data, da)
        else:
            item = self._next("sendto")
        if item[0] == "full":
            self._record("sendto", (data, da), len(data))
            return len(data)
        return self._finish("sendto", (data, da), item)

    def recvfrom(self, bufsize):
        item = self._next("recvfrom")
        if item[0] == "gram":
            self._record("recvfrom", bufsize, (item[1], item[2]))
            return (item[1], item[2])
        return self._finish("recvfrom", bufsize, item)

    def connect_ex(self, ha):
        item = self._next("connect_ex")
        return self._finish("connect_ex", ha, item)

    def accept(self):
        item = self._next("accept")
        if item[0] == "conn":
            self._record("accept", None, item[2])
            return (item[1], item[2])
        return self._finish("accept", None, item)

    def do_handshake(self):
        item = self._next("do_handshake")
        return self._finish("do_handshake", None, item)

    def shutdown(self, how):
        self.shutdowns.append(how)
        item = self._next("shutdown")
        return self._finish("shutdown", how, item)

    def close(self):
        item = self._next("close")
        self.closed = True
        return self._finish("close", None, item)

    # --- what the oracle reads
    @property
    def accepted(self):
        """bytes the 'kernel' took: data[:result] of every send, in call order"""
        return b"".join(d[:r] for (op, d, r) in self.log if op == "send" and isinstance(r, int))

    @property
    def delivered(self):
        """bytes handed out by recv so far"""
        return b"".join(r for (op, d, r) in self.log if op == "recv" and isinstance(r, bytes))


class FakeContext(object):
    """Stands in for ssl.SSLContext: wrap_socket hands the double back so the
    TLS classes run unmodified on scripted do_handshake / send / recv."""

    def __init__(self):
        self.verify_mode = ssl.CERT_NONE
        self.check_hostname = False
        self.options = 0
        self.wraps = []

    def wrap_socket(self, sock, server_side=False, do_handshake_on_connect=True,
                    suppress_ragged_eofs=True, server_hostname=None, session=None):
        kw = {"server_side": server_side, "do_handshake_on_connect": do_handshake_on_connect,
              "server_hostname": server_hostname}
        self.wraps.append((sock, kw))
        sock.wrapped = kw
        return sock

    def load_verify_locations(self, cafile=None, capath=None, cadata=None):
        pass

    def load_default_certs(self, purpose=None):
        pass

    def load_cert_chain(self, certfile=None, keyfile=None, password=None):
        pass

    def set_ciphers(self, spec):
        pass


class RecWireLog(object):
    """Recording double with WireLog's writeTx / writeRx interface."""

    def __init__(self, clock=None):
        self.tx = []   # [(da, bytes)]
        self.rx = []
        self.clock = clock
        self.stamps = []   # [(kind, addr, stamp)] when a clock (store) is given

    def writeTx(self, da, data):
        self.tx.append((da, bytes(data)))
        if self.clock is not None:
            self.stamps.append(("tx", da, self.clock.stamp))

    def writeRx(self, sa, data):
        self.rx.append((sa, bytes(data)))
        if self.clock is not None:
            self.stamps.append(("rx", sa, self.clock.stamp))

    def reopen(self, **kwa):
        return True

    def close(self):
        pass

    @property
    def txbytes(self):
        return b"".join(d for _, d in self.tx)

    @property
    def rxbytes(self):
        return b"".join(d for _, d in self.rx)


def parse_wirelog(buf, tag):
    """Parse the real WireLog buffer ``TX addr\\n<data>\\n`` records back.
    Payloads used by the checks never contain a newline, so the framing is
    unambiguous.  Returns [(addr_text, data)] or None when malformed."""
    if buf is None:
        return None
    out = []
    lines = bytes(buf).split(b"\n")
    if lines and lines[-1] == b"":
        lines.pop()
    if len(lines) % 2:
        return None
    for i in range(0, len(lines), 2):
        head, data = lines[i], lines[i + 1]
        if not head.startswith(tag + b" "):
            return None
        out.append((head[len(tag) + 1:].decode(), data))
    return out


class FakeSerialServer(Scripted):
    """Stands in for DeviceNb / SerialNb (``Driver(server=...)``)."""

    DEFAULTS = {"send": FULL, "receive": DATA(b"")}

    def __init__(self, scripts=None, defaults=None, opened=True):
        super(FakeSerialServer, self).__init__(scripts, defaults)
        self.opened = opened
        self.port = "/dev/fake"

    def open(self, **kwa):
        self.opened = True

    def reopen(self):
        self.opened = True
        return True

    def close(self):
        self.opened = False

    def send(self, data=b"\n"):
        data = bytes(data)
        item = self._next("send")
        k = item[0]
        if k == "full":
            res = len(data)
        elif k == "partial":
            res = min(item[1], len(data))
        elif k == "zero":
            res = 0
        else:
            return self._finish("send", data, item)
        self._record("send", data, res)
        return res

    def receive(self):
        item = self._next("receive")
        if item[0] == "data":
            self._record("receive", None, item[1])
            return item[1]
        return self._finish("receive", None, item)

    @property
    def accepted(self):
        return b"".join(d[:r] for (op, d, r) in self.log if op == "send" and isinstance(r, int))

    @property
    def delivered(self):
        return b"".join(r for (op, d, r) in self.log if op == "receive" and isinstance(r, bytes))


class FakeUdpHandler(Scripted):
    """Stands in for udping.SocketUdpNb (``GramStack(handler=...)``):
    ``send(data, da)`` and ``receive() -> (data, sa)``."""

    DEFAULTS = {"send": FULL, "receive": GRAM(b"", None)}

    def __init__(self, ha=("127.0.0.1", 7000), scripts=None, defaults=None, decide=None):
        super(FakeUdpHandler, self).__init__(scripts, defaults)
        self.ha = ha
        self.opened = False
        self.decide = decide     # optional callable(data, da) -> script item (overrides the script)

    def reopen(self):
        self.opened = True
        return True

    def open(self):
        self.opened = True
        return True

    def close(self):
        self.opened = False

    def send(self, data, da):
        data = bytes(data)
        if self.decide:
            self.calls["send"] = self.calls.get("send", 0) + 1
            item = self.decide(data, da)
        else:
            item = self._next("send")
        if item[0] == "full":
            self._record("send", (data, da), len(data))
            return len(data)
        return self._finish("send", (data, da), item)

    def receive(self):
        item = self._next("receive")
        if item[0] == "gram":
            self._record("receive", None, (item[1], item[2]))
            return (item[1], item[2])
        return self._finish("receive", None, item)


# --------------------------------------------------------------------------
# the real transport classes standing on doubles

NEAR = ("127.0.0.1", 5000)
PEER = ("127.0.0.1", 6000)


def clock(stamp=0.0):
    """virtual time source with the Store ``.stamp`` protocol (ioflo's own Stamper)"""
    from ioflo.aid.timing import Stamper
    return Stamper(stamp=stamp)


def client_on_double(tls=False, wlog=None, store=None, fake=None, connect=True, **kw):
    """A real Client / ClientTls whose ``.cs`` is a FakeSocket.  Returns (client, fake)."""
    from ioflo.aio.tcp import clienting
    blocks = WANT_READ if tls else WOULDBLOCK
    if fake is None:
        fake = FakeSocket(sockname=NEAR, peername=PEER, defaults={"recv": blocks})
    args = dict(ha=fake.peername, wlog=wlog, store=store if store is not None else clock())
    args.update(kw)
    if tls:
        obj = clienting.ClientTls(context=FakeContext(), **args)
    else:
        obj = clienting.Client(**args)
    obj.cs = fake                      # documented attribute: the connection socket
    if connect and not obj.connect():
        raise RuntimeError("double did not connect")
    return obj, fake


def incomer_on_double(tls=False, wlog=None, store=None, fake=None, handshake=True, **kw):
    """A real Incomer / IncomerTls constructed with ``cs=`` FakeSocket.  Returns (incomer, fake)."""
    from ioflo.aio.tcp import serving
    blocks = WANT_READ if tls else WOULDBLOCK
    if fake is None:
        fake = FakeSocket(sockname=NEAR, peername=PEER, defaults={"recv": blocks})
    args = dict(ha=fake.sockname, bs=8096, ca=fake.peername, cs=fake, wlog=wlog,
                store=store if store is not None else clock())
    args.update(kw)
    if tls:
        obj = serving.IncomerTls(context=FakeContext(), **args)
        if handshake and not obj.serviceHandshake():
            raise RuntimeError("double did not handshake")
    else:
        obj = serving.Incomer(**args)
    return obj, fake


# --------------------------------------------------------------------------
# fault-script enumeration


def enum_send_scripts(lens, depth, blocks):
    """All scripted result sequences for the *send* operation up to ``depth``
    calls, for a transmit queue whose messages have the lengths ``lens``.

    The alphabet at each call depends on the number of bytes the call is
    expected to offer (``n``): FULL, PARTIAL(k) for every 0 < k < n, ZERO and
    each would-block item in ``blocks``.  A tiny model of the expected queue
    (pop on full, shorten on partial) supplies ``n``; it is used only to know
    which partial lengths are meaningful, never as the oracle.  A sequence
    ends early when the queue is drained.  Yields lists of items."""
    blocks = list(blocks)

    def rec(rem, left, prefix):
        if not rem or left == 0:
            yield list(prefix)
            return
        n = rem[0]
        prefix.append(FULL)
        for s in rec(rem[1:], left - 1, prefix):
            yield s
        prefix.pop()
        for k in range(1, n):
            prefix.append(PARTIAL(k))
            for s in rec([n - k] + rem[1:], left - 1, prefix):
                yield s
            prefix.pop()
        for it in [ZERO] + blocks:
            prefix.append(it)
            for s in rec(rem, left - 1, prefix):
                yield s
            prefix.pop()

    return rec(list(lens), depth, [])


def enum_recv_scripts(nchunks, maxlen, depth, blocks):
    """All recv result sequences of exactly ``depth`` items over {data chunk of
    1..maxlen bytes, each would-block item} with at most ``nchunks`` chunks.
    Chunk contents are filled in by the caller (unique bytes); here a chunk is
    ('chunk', length)."""
    blocks = list(blocks)

    def rec(left, chunks, prefix):
        if left == 0:
            yield list(prefix)
            return
        if chunks < nchunks:
            for n in range(1, maxlen + 1):
                prefix.append(("chunk", n))
                for s in rec(left - 1, chunks + 1, prefix):
                    yield s
                prefix.pop()
        for it in blocks:
            prefix.append(it)
            for s in rec(left - 1, chunks, prefix):
                yield s
            prefix.pop()

    return rec(depth, 0, [])


class UniqueBytes(object):
    """Source of payload bytes that are pairwise different and never a
    newline (so that the real WireLog framing parses back unambiguously)."""

    def __init__(self, rng=None):
        self.pool = [b for b in range(1, 256) if b != 0x0A]
        if rng is not None:
            rng.shuffle(self.pool)
        self.i = 0

    def take(self, n):
        if self.i + n > len(self.pool):
            raise ValueError("unique byte pool exhausted")
        out = bytes(self.pool[self.i:self.i + n])
        self.i += n
        return out

    def left(self):
        return len(self.pool) - self.i


# --------------------------------------------------------------------------
# loopback scheduler with virtual time


class RecDeque(deque):
    """A deque that remembers everything ever appended (``rxPkts=`` / ``rxMsgs=``
    constructor parameters of the stacks): the stack may consume its queue in the
    same service call, the history stays."""

    def __init__(self, *pa):
        super(RecDeque, self).__init__(*pa)
        self.seen = []

    def append(self, item):
        self.seen.append(item)
        super(RecDeque, self).append(item)


class Loop(object):
    """Service-call scheduler for real loopback sockets (or doubles).

    * operations are registered as (label, callable, weight); ``run`` executes a
      seeded random interleaving, ``until`` repeats a fixed round of operations
      until a condition holds or a bound on the number of rounds is reached;
    * time is virtual: ``clock`` has the Store ``.stamp`` protocol (Stamper) and
      only ``advance`` moves it;
    * wall-clock is used for one thing only: a generous watchdog that turns the
      case *inconclusive* (never a verdict);
    * ``pace`` optionally sleeps a few hundred microseconds per round so that the
      kernel can move loopback bytes; verdicts are counted in rounds."""

    def __init__(self, clk=None, wall_limit=20.0, pace=0.0):
        import time as _time
        self._time = _time
        self.clock = clk if clk is not None else clock()
        self.ops = []
        self.trace = []
        self.calls = 0
        self.wall_limit = wall_limit
        self.pace = pace
        self.t0 = _time.monotonic()

    def add(self, label, fn, weight=1):
        self.ops.append((label, fn, weight))

    def remove(self, prefix):
        self.ops = [o for o in self.ops if not o[0].startswith(prefix)]

    def watchdog(self):
        if self._time.monotonic() - self.t0 > self.wall_limit:
            from vf.core import Inconclusive
            raise Inconclusive("wall-clock watchdog (%.0fs) in loopback scheduler after %d service calls"
                               % (self.wall_limit, self.calls))

    def call(self, label, fn):
        self.trace.append(label)
        self.calls += 1
        return fn()

    def step(self, rng):
        total = sum(w for _, _, w in self.ops)
        x = rng.random() * total
        for label, fn, w in self.ops:
            x -= w
            if x < 0:
                break
        self.call(label, fn)
        return label

    def run(self, rng, n):
        for _ in range(n):
            self.step(rng)
        self.watchdog()

    def advance(self, dt):
        self.clock.stamp = self.clock.stamp + dt
        self.trace.append("t+%g" % dt)

    def until(self, cond, round_ops, max_rounds, dt=0.0):
        """-> number of rounds used (0 if cond already holds) or None when the bound is hit"""
        if cond():
            return 0
        for r in range(1, max_rounds + 1):
            if dt:
                self.advance(dt)
            for label, fn in round_ops:
                self.call(label, fn)
            if cond():
                return r
            if self.pace:
                self._time.sleep(self.pace)
            self.watchdog()
        return None

    def tail(self, n=40):
        return self.trace[-n:]
