"""Engine E helpers (DESIGN 2.E): HTTP message generator, splitters, mutators,
SSE generator + independent SSE reference, WSGI application zoo, an
independent wire-level reference parser, in-memory socket doubles and the
loopback / in-memory Patron <-> Valet harness.

Nothing in here imports a model from ioflo; ioflo classes are only
*instantiated* by the harness functions at the bottom (lazily imported).
"""
from vf import net
import collections.abc  # noqa: F401
import errno
import itertools
import json
import random
import socket
from collections import deque
from urllib.parse import quote as _quote

CRLF = b"\r\n"

TOKEN_CHARS = "abcdefghijklmnopqrstuvwxyzABCDEFGHIJKLMNOPQRSTUVWXYZ0123456789-"
METHODS = ("GET", "HEAD", "PUT", "PATCH", "POST", "DELETE", "OPTIONS", "TRACE", "CONNECT")
REASONS = {200: "OK", 201: "Created", 202: "Accepted", 203: "Non-Authoritative Information",
           206: "Partial Content", 400: "Bad Request", 401: "Unauthorized", 403: "Forbidden",
           404: "Not Found", 409: "Conflict", 410: "Gone", 418: "I'm a teapot",
           422: "Unprocessable Entity", 500: "Internal Server Error", 501: "Not Implemented",
           503: "Service Unavailable"}


# ---------------------------------------------------------------------------
# small generators

def token(rng, lo=1, hi=8, chars=TOKEN_CHARS):
    n = rng.randint(lo, hi)
    s = "".join(rng.choice(chars) for _ in range(n))
    if s[0] == "-":
        s = "x" + s[1:]
    if s[-1] == "-":
        s = s[:-1] + "x"
    return s


def header_value(rng, maxlen=16, latin=True):
    """field-content: VCHAR / obs-text with inner SP / HTAB, no leading or
    trailing white space, no CR / LF."""
    n = rng.randint(0, maxlen)
    if n == 0:
        return ""
    pool = "abcdefghijklmnopqrstuvwxyzABCXYZ0123456789:;=,/()<>@[]{}?\"'*+-._~!#$%&^`|\\"
    out = []
    for i in range(n):
        r = rng.random()
        if 0 < i < n - 1 and r < 0.12:
            out.append(rng.choice(" \t") if rng.random() < 0.8 else ": ")
        elif latin and r < 0.18:
            out.append(chr(rng.randint(0xA1, 0xFF)))
        else:
            out.append(rng.choice(pool))
    s = "".join(out).strip(" \t")
    return s


def body_bytes(rng, maxlen=40):
    """Arbitrary octets; biased towards bytes that matter to a line parser."""
    n = rng.choice([0, 1, 2, 3, 5, 8, 13, 21, maxlen]) if rng.random() < 0.7 else rng.randint(0, maxlen)
    n = min(n, maxlen)
    specials = [b"\r\n", b"\n", b"\r", b"0\r\n\r\n", b": ", b";", b"\r\n\r\n", b"HTTP/1.1 200 OK\r\n", b"\x00", b"\xff"]
    out = bytearray()
    while len(out) < n:
        if rng.random() < 0.3:
            out += rng.choice(specials)
        else:
            out.append(rng.randrange(256))
    return bytes(out[:n])


COLON_SEPS = (": ", ": ", ":", ":  ", ":\t", ": \t ")


def _pct(s):
    return _quote(s, safe="/")


def request_target(rng):
    """origin-form (mostly), absolute-form, asterisk-form.  Returns
    (target text, expected dict(path, query, hostname, port, scheme))."""
    r = rng.random()
    if r < 0.05:
        return "*", {"path": "*", "query": "", "hostname": None, "port": None, "scheme": ""}
    segs = []
    for _ in range(rng.randint(0, 3)):
        k = rng.random()
        if k < 0.6:
            segs.append(token(rng, 1, 6, "abcdefgh0123456789-._~"))
        elif k < 0.8:
            segs.append(rng.choice(["café", "日本", "a b", "100%", "x+y", "q€", "\U0001F600"]))
        else:
            segs.append(rng.choice(["a;b", "k=v", "a,b", "@me", "a:b", "(x)"]))
    if segs and not segs[0]:
        segs[0] = "r"
    path = "/" + "/".join(segs)
    if segs and rng.random() < 0.2:
        path += "/"
    raw_path = _pct(path)
    query = ""
    if rng.random() < 0.5:
        parts = []
        for _ in range(rng.randint(1, 3)):
            k = token(rng, 1, 4, "abcdefgh")
            v = rng.choice(["1", "", "a%20b", "x+y", "%26", "v", "caf%C3%A9"])
            parts.append(k + "=" + v if rng.random() < 0.85 else k)
        query = "&".join(parts)
    exp = {"path": path, "query": query, "hostname": None, "port": None, "scheme": ""}
    target = raw_path + ("?" + query if query else "")
    if r < 0.15:
        host = rng.choice(["example.com", "h.test", "127.0.0.1"])
        port = rng.choice([None, 80, 8080])
        target = "http://" + host + (":%d" % port if port else "") + target
        exp.update(hostname=host, port=port, scheme="http")
    return target, exp


def gen_headers(rng, nmax=4, avoid=(), seps=COLON_SEPS, latin=True):
    """Returns list of (name, sep, value); names unique case-insensitively."""
    out, seen = [], set(a.lower() for a in avoid)
    for _ in range(rng.randint(0, nmax)):
        name = ("X-" if rng.random() < 0.5 else "") + token(rng, 1, 7)
        if rng.random() < 0.3:
            name = name.upper() if rng.random() < 0.5 else name.lower()
        if name.lower() in seen:
            continue
        seen.add(name.lower())
        out.append((name, rng.choice(seps), header_value(rng, latin=latin)))
    return out


def render_headers(hdrs):
    return b"".join(n.encode("ascii") + s.encode("ascii") + v.encode("iso-8859-1") + CRLF for n, s, v in hdrs)


def gen_chunks(rng, body, maxchunks=4, seps=COLON_SEPS):
    """Cut body into chunks; each with extensions.  Returns (wire bytes,
    list of chunk descriptions, trailers list)."""
    cuts = sorted(rng.sample(range(1, len(body)), min(len(body) - 1, rng.randint(0, maxchunks - 1)))) if len(body) > 1 else []
    pieces = [body[a:b] for a, b in zip([0] + cuts, cuts + [len(body)])] if body else []
    wire = bytearray()
    desc = []

    def exts():
        es = []
        for _ in range(rng.choice([0, 0, 0, 1, 1, 2])):
            n = token(rng, 1, 5, "abcdefghijklmnop")
            k = rng.random()
            if k < 0.35:
                v = None
            elif k < 0.75:
                v = token(rng, 1, 5)
            else:
                v = '"' + rng.choice(["q s", "a;b", "x=y", "\\\"", "z"]) + '"'
            es.append((n, v))
        return es

    def render_ext(es):
        return "".join(";" + n + ("=" + v if v is not None else "") for n, v in es)

    for p in pieces:
        size = "%x" % len(p)
        if rng.random() < 0.3:
            size = size.upper()
        if rng.random() < 0.2:
            size = "0" * rng.randint(1, 2) + size
        es = exts()
        wire += size.encode() + render_ext(es).encode() + CRLF + p + CRLF
        desc.append({"size": len(p), "exts": es})
    es = exts()
    wire += ("0" * rng.choice([1, 1, 1, 2, 3])).encode() + render_ext(es).encode() + CRLF
    desc.append({"size": 0, "exts": es})
    trailers = gen_headers(rng, 2, avoid=("content-length", "transfer-encoding", "trailer"), seps=seps) if rng.random() < 0.4 else []
    wire += render_headers(trailers) + CRLF
    return bytes(wire), desc, trailers


SEP_POLICIES = {"sp": (": ",), "nosp": (": ", ":", ":"), "ows": (": ", ":  ", ":\t", ": \t ")}


def gen_message(rng, kind=None, framing=None, maxbody=40, seps=None, tail=None, interim=None, lf=None):
    """One well-formed HTTP/1.x message (RFC 7230 grammar).

    Returns dict with raw bytes, the trailing bytes appended after the message
    (next pipelined message or its beginning) and the generator's own content
    under 'exp'."""
    kind = kind or rng.choice(["request", "response"])
    if seps is None:        # half of the messages use the canonical ': ' only
        seps = SEP_POLICIES[rng.choice(["sp", "sp", "nosp", "ows"])]
    if framing is None:
        framing = rng.choice(["length", "chunked", "none"] if kind == "request"
                             else ["length", "chunked", "close", "nobody"])
    version = "HTTP/1.1" if rng.random() < 0.8 else "HTTP/1.0"
    if framing == "chunked":
        version = "HTTP/1.1"
    exp = {"kind": kind, "framing": framing, "version": (1, 1) if version == "HTTP/1.1" else (1, 0)}
    # tolerated form (RFC 7230 3.5): head lines end in a bare LF.  Recognising LF is optional robustness, not
    # grammar, so these messages carry no CR / LF bytes in body or tail and no interim response.
    use_lf = lf if lf is not None else (framing in ("length", "none", "nobody") and rng.random() < 0.12)
    if use_lf:
        interim = False
    m = {"kind": kind, "framing": framing, "reqmethod": "GET"}
    head = bytearray()
    if kind == "request":
        method = rng.choice(METHODS[:8])
        target, texp = request_target(rng)
        if target == "*":
            method = "OPTIONS"
        head += ("%s %s %s" % (method, target, version)).encode("ascii") + CRLF
        exp.update(method=method, url=target, **texp)
    else:
        if framing == "nobody":
            status = rng.choice([204, 304, 204, 304, 200])
            if status == 200:
                m["reqmethod"] = "HEAD"
            reason = {204: "No Content", 304: "Not Modified", 200: "OK"}[status]
        else:
            status = rng.choice(sorted(REASONS))
            reason = REASONS[status]
            if rng.random() < 0.15:
                reason = rng.choice(["", "Fine", "all good here", "Not-Quite (yet)"])
        head += ("%s %d %s" % (version, status, reason)).encode("ascii") + CRLF
        exp.update(status=status, reason=reason)

    hdrs = gen_headers(rng, 4, avoid=("content-length", "transfer-encoding", "content-type", "connection",
                                      "keep-alive", "proxy-connection", "trailer"), seps=seps)
    body = b""
    trailers = []
    chunks = None
    payload = b""
    if framing == "length":
        body = body_bytes(rng, maxbody)
        if use_lf:
            body = body.replace(b"\r", b"r").replace(b"\n", b"n")
        cl = str(len(body))
        if rng.random() < 0.1:
            cl = "0" + cl
        hdrs.insert(rng.randint(0, len(hdrs)), (rng.choice(["Content-Length", "content-length", "CONTENT-LENGTH"]),
                                               rng.choice(seps), cl))
        payload = body
    elif framing == "chunked":
        body = body_bytes(rng, maxbody)
        payload, chunks, trailers = gen_chunks(rng, body, seps=seps)
        hdrs.insert(rng.randint(0, len(hdrs)), (rng.choice(["Transfer-Encoding", "transfer-encoding"]),
                                               rng.choice(seps), rng.choice(["chunked", "chunked", "Chunked", "CHUNKED"])))
    elif framing == "close":
        body = body_bytes(rng, maxbody)
        payload = body
        if rng.random() < 0.5:
            hdrs.append(("Connection", rng.choice(seps), "close"))
    elif framing == "nobody":
        if exp["status"] != 204 and rng.random() < 0.6:
            hdrs.append(("Content-Length", rng.choice(seps), str(rng.randint(1, 50))))  # describes the absent body
    if rng.random() < 0.3 and framing != "nobody":
        hdrs.append(("Content-Type", rng.choice(seps), rng.choice(["text/plain", "application/octet-stream",
                                                                   "text/html; charset=utf-8"])))
    head += render_headers(hdrs) + CRLF
    pre = b""
    if kind == "response" and (interim if interim is not None else rng.random() < 0.06):
        ih = gen_headers(rng, 1, seps=seps)
        pre = b"HTTP/1.1 100 Continue\r\n" + render_headers(ih) + CRLF
        m["interim"] = True
    if tail is None and use_lf:
        tail = rng.choice([b"", b"G", b"GET /nex", b"HTTP/1."])
    if tail is None:
        tail = b""
        if framing != "close" and rng.random() < 0.6:
            tail = rng.choice([b"GET /next HTTP/1.1\r\nHost: n\r\n\r\n", b"HTTP/1.1 200 OK\r\nContent-Length: 0\r\n\r\n",
                               b"G", b"\r\n", b"POST /p HTTP/1.1\r\nContent-Le", b"0\r\n\r\n", body_bytes(rng, 6) or b"x"])
    raw = pre + bytes(head) + payload
    exp["headers"] = {n.lower(): v for n, s, v in hdrs}
    exp["body"] = body
    exp["trails"] = {n.lower(): v for n, s, v in trailers}
    if use_lf:
        raw = bytes(head).replace(b"\r\n", b"\n") + payload
        m["lf"] = True
    m.update(raw=raw, tail=tail, exp=exp, hdrs=hdrs, chunks=chunks, trailers=trailers,
             seps=sorted(set(s for n, s, v in hdrs + trailers)))
    return m


# ---------------------------------------------------------------------------
# splits

def all_splits(n, maxpieces=3):
    """Every way to cut n bytes into 1..maxpieces non-empty pieces (cut index
    tuples, strictly increasing, each in 1..n-1)."""
    yield ()
    for k in range(1, maxpieces):
        for cuts in itertools.combinations(range(1, n), k):
            yield cuts


def count_splits(n, maxpieces=3):
    from math import comb
    return sum(comb(n - 1, k) for k in range(0, maxpieces))


def random_split(rng, n, maxpieces=None):
    if n <= 1:
        return ()
    k = rng.randint(1, min(n - 1, maxpieces or rng.choice([1, 2, 3, 5, 9, 17])))
    if rng.random() < 0.1:
        return tuple(range(1, n))          # byte at a time
    return tuple(sorted(rng.sample(range(1, n), k)))


def cut(data, cuts):
    edges = (0,) + tuple(cuts) + (len(data),)
    return [data[a:b] for a, b in zip(edges, edges[1:])]


# ---------------------------------------------------------------------------
# byte-level mutators (C32)

def mutate(rng, data, msg=None):
    """Returns (mutated bytes, mutation name)."""
    data = bytearray(data)
    ops = ["flip", "delete", "insert", "truncate", "dup", "startline", "headerline", "chunksize", "chunkend",
           "length", "random", "bigline", "nocolon", "barelf", "nul"]
    op = rng.choice(ops)
    n = len(data)
    if op == "flip" and n:
        for _ in range(rng.randint(1, 3)):
            data[rng.randrange(n)] = rng.randrange(256)
    elif op == "delete" and n:
        i = rng.randrange(n)
        del data[i:i + rng.randint(1, 4)]
    elif op == "insert":
        i = rng.randint(0, n)
        data[i:i] = bytes(rng.randrange(256) for _ in range(rng.randint(1, 4)))
    elif op == "truncate" and n:
        del data[rng.randrange(n):]
    elif op == "dup" and n:
        i = rng.randrange(n)
        j = min(n, i + rng.randint(1, 12))
        data[i:i] = data[i:j]
    elif op == "startline":
        eol = data.find(b"\r\n")
        line = rng.choice([b"", b"GET", b"GET /", b"FOO / HTTP/1.1", b"GET / HTTP/2.0", b"GET / FTP/1.1", b"HTTP/1.1",
                           b"HTTP/1.1 abc OK", b"HTTP/1.1 99 Low", b"HTTP/1.1 1000 High", b"HTTP/3 200 OK", b"ICY 200 OK",
                           b"GET http://[::1 HTTP/1.1", b"GET //[/ HTTP/1.1", b"GET http://h:port/ HTTP/1.1",
                           b"\xff\xfe / HTTP/1.1", b"GET / HTTP/1.1 extra words", b" ", b"GET\t/\tHTTP/1.1"])
        data[:max(eol, 0)] = line
    elif op == "headerline":
        eol = data.find(b"\r\n")
        line = rng.choice([b"NoColonHere", b":", b": ", b"A:1", b"A :1", b" folded", b"A: 1\rB: 2", b"\x00: \x00",
                           b"Content-Length: -5", b"Content-Length: abc", b"Content-Length: 1e3",
                           b"Content-Length: 99999999999999999999", b"Transfer-Encoding: chunked",
                           b"Transfer-Encoding: gzip", b"Content-Length", b"A: " + b"v" * 300])
        if eol >= 0:
            data[eol + 2:eol + 2] = line + b"\r\n"
    elif op == "chunksize":
        line = rng.choice([b"zz", b"-1", b"", b"0x10", b"1g", b" ", b";ext", b"ffffffffffffffffffff", b"1 2", b"\xff"])
        i = data.find(b"\r\n\r\n")
        if i >= 0:
            j = data.find(b"\r\n", i + 4)
            if j >= 0:
                data[i + 4:j] = line
            else:
                data += line + b"\r\n"
    elif op == "chunkend":
        i = data.rfind(b"\r\n0")
        if i > 0:
            data[i:i + 2] = rng.choice([b"XX", b"\n\n", b"\rX", b"", b"abc\r\n"])
    elif op == "length":
        i = data.lower().find(b"content-length:")
        if i >= 0:
            j = data.find(b"\r\n", i)
            data[i + 15:j] = rng.choice([b" -1", b" x", b" 1 2", b"", b" 999", b" +5", b" 0x5"])
    elif op == "random":
        data = bytearray(rng.randrange(256) for _ in range(rng.randint(1, 80)))
        if rng.random() < 0.5:
            data += b"\r\n\r\n"
    elif op == "bigline":
        data[0:0] = b"A" * 70000
    elif op == "nocolon":
        i = data.find(b": ")
        if i >= 0:
            del data[i:i + 2]
    elif op == "barelf":
        data = bytearray(bytes(data).replace(b"\r\n", rng.choice([b"\n", b"\r", b"\n\r"]), rng.randint(1, 3)))
    elif op == "nul":
        i = rng.randint(0, n)
        data[i:i] = b"\x00"
    return bytes(data), op


# ---------------------------------------------------------------------------
# server-sent events: stream generator and an independent reference parser
# (https://html.spec.whatwg.org/multipage/server-sent-events.html, "event
# stream interpretation")

SSE_EOLS = {"lf": ("\n",), "crlf": ("\r\n",), "cr": ("\r",), "mixed": ("\n", "\r\n", "\r")}


def sse_text(rng, maxlen=8):
    pool = ["a", "b", "c", "x", "y", "z", "0", "1", " ", ":", ": ", "é", "日", "{", "}", "\"", "=", "\t", "\U0001F600"]
    return "".join(rng.choice(pool) for _ in range(rng.randint(0, maxlen)))


def gen_sse(rng, nevents=None, policy=None, maxlen=8, empty_data=None):
    """Returns dict(raw=bytes, lines=[(text, eol)], policy=..).  The stream ends
    with the beginning of a comment line that never completes, so that the
    last complete line's terminator is determined for every correct
    incremental parser (a final lone CR could still become CRLF otherwise)."""
    policy = policy or rng.choice(["lf", "crlf", "cr", "mixed", "mixed"])
    eols = SSE_EOLS[policy]
    lines = []
    nevents = nevents if nevents is not None else rng.randint(1, 4)
    has_empty = False
    for _ in range(nevents):
        block = []
        kind = rng.random()
        if empty_data if empty_data is not None else kind < 0.04:
            block.append("data:" + rng.choice(["", " "]))      # one empty data line: an event with data ''
            has_empty = True
        elif kind < 0.12:
            block.append("event: " + token(rng, 1, 5))         # no data: nothing dispatched, name forgotten
        elif kind < 0.18:
            block.append(":" + sse_text(rng, maxlen))          # comment only
        else:
            nd = rng.choice([1, 1, 2, 2, 3])
            for i in range(nd):
                style = rng.random()
                txt = sse_text(rng, maxlen)
                if i == 0 and nd == 1 and not txt.strip(" "):
                    txt = "v" + txt                            # keep single data lines non-empty (see above)
                if style < 0.7:
                    block.append("data: " + txt)
                elif style < 0.85:
                    block.append("data:" + txt)
                elif nd > 1:
                    block.append("data")                       # field without colon: empty value
                else:
                    block.append("data:  " + txt)              # only one blank is removed
        extras = []
        if rng.random() < 0.4:
            extras.append("event: " + rng.choice([token(rng, 1, 6), "é" + token(rng, 1, 3), "a b", ""]))
        if rng.random() < 0.4:
            extras.append("id: " + rng.choice([token(rng, 1, 4), "", "1", "é:1", str(rng.randint(0, 999))]))
        if rng.random() < 0.25:
            extras.append("retry: " + rng.choice([str(rng.randint(0, 99999)), "soon", "12ms", "", "1.5"]))
        if rng.random() < 0.25:
            extras.append(":" + sse_text(rng, maxlen))
        if rng.random() < 0.15:
            extras.append(rng.choice(["foo: bar", "datax: 1", "Data: upper", " data: leading blank", "ID: 9"]))
        for e in extras:
            block.insert(rng.randint(0, len(block)), e)
        block.append("")                                        # dispatch
        if rng.random() < 0.15:
            block.append("")
        lines.extend(block)
    out = [(ln, rng.choice(eols)) for ln in lines]
    raw = "".join(ln + e for ln, e in out).encode("utf-8") + b":k"
    return {"raw": raw, "lines": out, "policy": policy, "has_empty_data_event": has_empty}


def sse_reference(raw):
    """Independent interpretation of a complete byte stream.  Returns
    (events [(id, name, data)], last event id, retry or None)."""
    import re
    text = raw.decode("utf-8")
    if text.startswith("﻿"):
        text = text[1:]
    lines = re.split("\r\n|\n|\r", text)
    lines = lines[:-1]                      # the final fragment is not terminated
    events = []
    last_id = ""
    retry = None
    name = ""
    data = ""
    for line in lines:
        if line == "":
            if data == "":
                name = ""
                continue
            if data.endswith("\n"):
                data = data[:-1]
            events.append((last_id, name, data))
            name = ""
            data = ""
            continue
        if line.startswith(":"):
            continue
        if ":" in line:
            field, value = line.split(":", 1)
            if value.startswith(" "):
                value = value[1:]
        else:
            field, value = line, ""
        if field == "event":
            name = value
        elif field == "data":
            data += value + "\n"
        elif field == "id":
            if "\x00" not in value:
                last_id = value
        elif field == "retry":
            if value and all(c in "0123456789" for c in value):
                retry = int(value)
    return events, last_id, retry


# ---------------------------------------------------------------------------
# independent wire-level reference parser (complete byte strings only)

class WireError(Exception):
    pass


def ref_parse_one(data, kind="response", reqmethod="GET", eof=False):
    """Parse one message from the front of ``data`` (bytes).  Returns
    (message dict, number of bytes used) or None when the message is not
    complete.  Raises WireError when the bytes cannot be a message or when the
    message has no self-delimiting frame (read-until-close) and eof is False:
    then it returns None too but sets nothing -- callers test 'framing'."""
    end = data.find(b"\r\n\r\n")
    if end < 0:
        return None
    lines = data[:end].split(b"\r\n")
    start = lines[0].decode("latin-1")
    headers = {}
    for ln in lines[1:]:
        name, colon, value = ln.decode("latin-1").partition(":")
        if not colon or not name or name != name.strip():
            raise WireError("bad header line %r" % ln)
        headers[name.lower()] = value.strip(" \t")
    pos = end + 4
    m = {"start": start, "headers": headers}
    if kind == "response":
        parts = start.split(" ", 2)
        if len(parts) < 2 or not parts[0].startswith("HTTP/1.") or not parts[1].isdigit():
            raise WireError("bad status line %r" % start)
        m["status"] = int(parts[1])
        m["reason"] = parts[2] if len(parts) > 2 else ""
        nobody = m["status"] in (204, 304) or 100 <= m["status"] < 200 or reqmethod == "HEAD"
    else:
        parts = start.split(" ")
        if len(parts) != 3:
            raise WireError("bad request line %r" % start)
        m["method"], m["target"], m["version"] = parts
        nobody = False
    te = headers.get("transfer-encoding", "").lower()
    if nobody:
        m["framing"] = "nobody"
        m["body"] = b""
        if te == "chunked":
            # ioflo's server ends a bodiless response that has no Content-Length with the last-chunk `0 CRLF CRLF` and its
            # client consumes it (RFC 7230 would send no Transfer-Encoding here); the pair agrees, so the reference accepts
            # the terminator, when it is there, as part of this response
            term = b"0\r\n\r\n"
            got = data[pos:pos + len(term)]
            if got and term.startswith(got) and got != term:
                return None            # the terminator is still arriving
            if got == term:
                pos += len(term)
                m["framing"] = "nobody+last-chunk"
    elif te == "chunked":
        m["framing"] = "chunked"
        body = bytearray()
        while True:
            eol = data.find(b"\r\n", pos)
            if eol < 0:
                return None
            sizetxt = data[pos:eol].split(b";")[0].strip()
            try:
                size = int(sizetxt, 16)
            except ValueError:
                raise WireError("bad chunk size %r" % data[pos:eol])
            pos = eol + 2
            if size == 0:
                while True:           # trailers
                    eol = data.find(b"\r\n", pos)
                    if eol < 0:
                        return None
                    line = data[pos:eol]
                    pos = eol + 2
                    if not line:
                        break
                break
            if len(data) < pos + size + 2:
                return None
            body += data[pos:pos + size]
            if data[pos + size:pos + size + 2] != b"\r\n":
                raise WireError("chunk not terminated by CRLF")
            pos += size + 2
        m["body"] = bytes(body)
    elif "content-length" in headers:
        m["framing"] = "length"
        try:
            n = int(headers["content-length"])
        except ValueError:
            raise WireError("bad content-length")
        if len(data) < pos + n:
            return None
        m["body"] = data[pos:pos + n]
        pos += n
    elif kind == "request":
        m["framing"] = "none"
        m["body"] = b""
    else:
        m["framing"] = "close"
        if not eof:
            m["body"] = data[pos:]
            m["undelimited"] = True
            return m, len(data)
        m["body"] = data[pos:]
        pos = len(data)
    return m, pos


def ref_parse_stream(data, kind="response", reqmethods=None, eof=False):
    """All complete messages at the front of data.  Returns (messages, rest)."""
    out = []
    data = bytes(data)
    i = 0
    while data:
        meth = (reqmethods[i] if reqmethods and i < len(reqmethods) else "GET")
        r = ref_parse_one(data, kind, meth, eof)
        if r is None:
            break
        m, used = r
        out.append(m)
        data = data[used:]
        i += 1
        if m.get("undelimited"):
            break
    return out, data


# ---------------------------------------------------------------------------
# in-memory socket doubles (own minimal set; vf/iodoubles.py belongs to engine D)

class Pipe(object):
    """One direction of a connection: sender -> inflight -> readable."""

    def __init__(self):
        self.inflight = bytearray()
        self.buf = bytearray()
        self.closed = False        # sender has shut down / closed
        self.total = bytearray()   # everything ever sent (wire record)

    def deliver(self, k=None):
        k = len(self.inflight) if k is None else min(k, len(self.inflight))
        if k:
            self.buf += self.inflight[:k]
            del self.inflight[:k]
        return k


class PipeSock(object):
    """Non-blocking stream socket double over two Pipes."""

    def __init__(self, rx, tx, laddr, raddr, allow=None):
        self.rx, self.tx = rx, tx
        self.laddr, self.raddr = laddr, raddr
        self.allow = allow            # callable(len) -> how many bytes this send() may take (0 = EAGAIN)
        self.closed = False
        self.sends = 0
        self.partial = 0

    def setblocking(self, flag):
        pass

    def setsockopt(self, *a):
        pass

    def getsockopt(self, *a):
        return 1 << 20

    def getsockname(self):
        return self.laddr

    def getpeername(self):
        return self.raddr

    def connect_ex(self, addr):
        return 0

    def fileno(self):
        return -1

    def recv(self, n):
        if self.closed:
            raise OSError(errno.EBADF, "closed double")
        if self.rx.buf:
            data = bytes(self.rx.buf[:n])
            del self.rx.buf[:n]
            return data
        if self.rx.closed and not self.rx.inflight:
            return b""
        raise BlockingIOError(errno.EAGAIN, "would block")

    def send(self, data):
        if self.closed:
            raise OSError(errno.EBADF, "closed double")
        if self.tx.closed:
            raise ConnectionResetError(errno.ECONNRESET, "peer gone")
        if not data:
            return 0
        self.sends += 1
        k = len(data) if self.allow is None else min(len(data), self.allow(len(data)))
        if k <= 0:
            raise BlockingIOError(errno.EAGAIN, "would block")
        if k < len(data):
            self.partial += 1
        self.tx.inflight += data[:k]
        self.tx.total += data[:k]
        return k

    def shutdown(self, how):
        if how in (socket.SHUT_WR, socket.SHUT_RDWR):
            self.tx.closed = True

    def close(self):
        self.closed = True
        self.tx.closed = True


class FakeListener(object):
    def __init__(self, addr):
        self.addr = addr
        self.pending = deque()

    def accept(self):
        if not self.pending:
            raise BlockingIOError(errno.EAGAIN, "would block")
        return self.pending.popleft()

    def getsockname(self):
        return self.addr

    def setblocking(self, flag):
        pass

    def shutdown(self, how):
        pass

    def close(self):
        pass


class MemNet(object):
    """A listening address plus any number of in-memory connections to it."""

    def __init__(self, rng=None, port=18080, choppy=False):
        self.rng = rng or random.Random(0)
        self.addr = ("127.0.0.1", port)
        self.listener = FakeListener(self.addr)
        self.conns = []          # (client sock, server sock, c2s pipe, s2c pipe)
        self.nextport = 40000
        self.choppy = choppy     # partial sends and trickling delivery

    def _allow(self, n):
        r = self.rng.random()
        if r < 0.15:
            return 0
        if r < 0.5:
            return self.rng.randint(1, n)
        return n

    def connect(self):
        self.nextport += 1
        ca = ("127.0.0.1", self.nextport)
        c2s, s2c = Pipe(), Pipe()
        allow = self._allow if self.choppy else None
        cs = PipeSock(rx=s2c, tx=c2s, laddr=ca, raddr=self.addr, allow=allow)
        ss = PipeSock(rx=c2s, tx=s2c, laddr=self.addr, raddr=ca, allow=allow)
        self.listener.pending.append((ss, ca))
        self.conns.append((cs, ss, c2s, s2c))
        return cs

    def deliver(self):
        """Move bytes in flight to the readable side (all of them, or a random
        prefix when choppy).  Returns number of bytes moved."""
        moved = 0
        for cs, ss, c2s, s2c in self.conns:
            for p in (c2s, s2c):
                if p.inflight:
                    if self.choppy:
                        moved += p.deliver(self.rng.choice([0, 1, 2, 3, 7, 20, 100, None]))
                    else:
                        moved += p.deliver()
        return moved

    def idle(self):
        return not any(p.inflight for c in self.conns for p in c[2:])


def mem_server(net, store, timeout=None):
    """A real tcp Server whose listen socket is the double (never bound)."""
    from ioflo.aio.tcp import Server
    srv = Server(ha=net.addr, store=store, timeout=timeout)
    srv.ss = net.listener
    srv.opened = True
    return srv


def mem_client(net, store, **kwa):
    """A real tcp Client whose connection socket is the double."""
    from ioflo.aio.tcp import Client
    conn = Client(ha=net.addr, store=store, **kwa)
    conn.cs = net.connect()
    conn.opened = True
    return conn


def loop_server(store, timeout=None):
    """A real tcp Server on an ephemeral loopback port, opened."""
    from ioflo.aio.tcp import Server
    srv = Server(ha=(net.host(), 0), store=store, timeout=timeout)      # see vf/net.py
    if not srv.reopen():
        raise RuntimeError("cannot open loopback server")
    srv.eha = srv.ha          # eha was computed from port 0 before bind
    # no Nagle / delayed-ACK stalls (40 ms of real time per small write would turn service-call bounds into wall-clock bounds)
    srv.ss.setsockopt(socket.IPPROTO_TCP, socket.TCP_NODELAY, 1)
    return srv


# ---------------------------------------------------------------------------
# client request generator (inputs of Requester / Patron.request) -- C30

URL_TOKEN = "abcdefghijklmnopqrstuvwxyzABCDEFGHIJKLMNOPQRSTUVWXYZ0123456789-._~"
PATH_POOL = ["a", "b", "seg", "x1", "é", "日本", "ü-ber", " ", "a b", "%", "%41", "+", "&", "=", ";", ",", ":", "@", "!",
             "$", "'", "(", ")", "*", "~", ".", "..", "\U0001F600", "\"", "<", ">", "[", "]", "{", "}", "|", "\\", "^", "`"]
VALUE_POOL = ["a", "b", "1", "", " ", "&", "=", "+", "%", "%26", "a&b=c", "x=y", "é", "日本", "\U0001F600", "#", "?", "/", ";",
              ":", "\"", "'", "<>", "a b", "  ", "\t", "\n", "\r\n", "100%", "c++", "k=v&k2=v2", "%%", "\\", "{}", "[]", "~", "|"]


def arb_text(rng, pool=VALUE_POOL, lo=0, hi=4):
    return "".join(rng.choice(pool) for _ in range(rng.randint(lo, hi)))


def gen_path(rng):
    segs = [arb_text(rng, PATH_POOL, 1, 3) for _ in range(rng.randint(0, 3))]
    path = "/" + "/".join(segs)
    if rng.random() < 0.15:
        path += "/"
    while path.startswith("//"):
        path = path[1:]
    return path


def gen_json(rng, depth=0):
    r = rng.random()
    if depth > 2 or r < 0.35:
        return rng.choice([None, True, False, 0, -1, 3.5, 10 ** 12, "", "a", arb_text(rng), "é ", "\U0001F600"])
    if r < 0.65:
        return [gen_json(rng, depth + 1) for _ in range(rng.randint(0, 3))]
    return {arb_text(rng, lo=1) + str(i): gen_json(rng, depth + 1) for i in range(rng.randint(0, 3))}


def gen_request(rng, rid, methods=METHODS):
    """Inputs for Patron.request / Requester.  Returns dict; 'kind' says which
    of body / data / fargs carries the payload."""
    method = rng.choice(methods)
    req = {"id": rid, "method": method, "path": gen_path(rng)}
    qargs = []
    seen = set()
    for _ in range(rng.choice([0, 0, 1, 2, 3])):
        k = token(rng, 1, 5, URL_TOKEN)
        if k in seen:
            continue
        seen.add(k)
        qargs.append((k, arb_text(rng)))
    req["qargs"] = qargs
    hdrs = [("X-Vf-Id", rid)]
    seen = {"x-vf-id"}
    for _ in range(rng.choice([0, 1, 2, 3])):
        name = "X-" + token(rng, 1, 6, "abcdefghijklmnopqrstuvwxyzABCDEFGHIJKLMNOPQRSTUVWXYZ0123456789")
        if name.lower() in seen:
            continue
        seen.add(name.lower())
        v = header_value(rng) if rng.random() < 0.85 else rng.randint(0, 10 ** 6)
        hdrs.append((name, v))
    req["headers"] = hdrs
    kind = "none" if method == "GET" else rng.choice(["none", "body", "body", "json", "json", "form", "form", "multipart"])
    req["kind"] = kind
    if kind == "body":
        req["body"] = body_bytes(rng, 60) or b"\x00"
    elif kind == "json":
        req["data"] = (gen_json(rng) or {}) if rng.random() < 0.3 else {arb_text(rng, lo=1): gen_json(rng) for _ in range(rng.randint(0, 3))}
    elif kind in ("form", "multipart"):
        f, seen = [], set()
        for _ in range(rng.randint(1, 3)):
            k = token(rng, 1, 5, URL_TOKEN)
            if k in seen:
                continue
            seen.add(k)
            pool = VALUE_POOL if kind == "form" else [v for v in VALUE_POOL if "\r" not in v and "\n" not in v]
            f.append((k, arb_text(rng, pool)))
        req["fargs"] = f
        if kind == "multipart":
            req["headers"].append(("Content-Type", "multipart/form-data"))
    return req


def parse_multipart(body, ctype):
    """Independent reading of the multipart body Requester.build writes."""
    if "boundary=" not in ctype:
        raise ValueError("no boundary in %r" % ctype)
    boundary = ctype.split("boundary=", 1)[1]
    text = body.decode("utf-8")
    delim = "\r\n--" + boundary
    parts = text.split(delim)
    if parts[0] != "" or parts[-1] != "--":
        raise ValueError("bad multipart framing")
    out = []
    for p in parts[1:-1]:
        head, sep, value = p.partition("\r\n\r\n")
        if not sep:
            raise ValueError("part without blank line")
        name = None
        for ln in head.split("\r\n"):
            if ln.lower().startswith("content-disposition:") and 'name="' in ln:
                name = ln.split('name="', 1)[1].rsplit('"', 1)[0]
        out.append((name, value))
    return out


# ---------------------------------------------------------------------------
# WSGI application zoo

APP_SHAPES = ("fixed", "fixed-pieces", "stream", "stream-gaps", "empty", "empty-cl0", "genreturn", "write",
              "error-before", "error-lazy", "error-after")
ERR_REASONS = {400: "Bad Request", 401: "Unauthorized", 403: "Forbidden", 404: "Not Found", 409: "Conflict",
               500: "Internal Server Error", 503: "Service Unavailable"}


def gen_appspec(rng, rid, shapes=APP_SHAPES, statuses=None, maxbody=60, bodiless=None):
    """bodiless: "HEAD" when the spec answers a HEAD request, True for a status without a body: such a response may
    still carry the Content-Length of the entity it stands for"""
    import zlib
    shape = rng.choice(shapes)
    spec = {"shape": shape, "id": rid}
    variant = zlib.crc32(("%s/%s" % (rid, shape)).encode())       # decides the variants added later (no draw from rng)
    hdrs = [("X-Vf-Id", rid)]
    seen = {"x-vf-id"}
    for _ in range(rng.choice([0, 1, 2])):
        name = "X-" + token(rng, 1, 6, "abcdefghijklmnopqrstuvwxyz0123456789")
        if name.lower() in seen:
            continue
        seen.add(name.lower())
        hdrs.append((name, header_value(rng)))
    if rng.random() < 0.5:
        hdrs.append(("Content-Type", rng.choice(["text/plain", "application/octet-stream", "text/html; charset=utf-8"])))
    spec["headers"] = hdrs
    body = body_bytes(rng, maxbody)
    ncut = rng.randint(0, 3)
    cuts = sorted(rng.sample(range(1, len(body)), min(ncut, len(body) - 1))) if len(body) > 1 else []
    pieces = cut(body, cuts) if body else []
    if shape.startswith("error"):
        status = rng.choice(sorted(ERR_REASONS) + [418, 422, 599])
        reason = ERR_REASONS.get(status) if rng.random() < 0.6 else rng.choice(["Nope", "Custom Reason", "Bad Thing Happened"])
        if reason is None:
            reason = "Odd"
        explicit = not (status in ERR_REASONS and reason == ERR_REASONS[status] and rng.random() < 0.5)
        spec.update(err_status=status, err_reason=reason, err_reason_explicit=explicit,
                    err_title=rng.choice(["", "Validation Error", "té"]), err_detail=rng.choice(["", "Bad mojo", "x\ny"]),
                    err_fault=rng.choice([None, 0, 50]),
                    err_headers=[("X-Err", header_value(rng) or "e")] if rng.random() < 0.5 else [])
        if variant % 3 == 0:
            # the error brings its own content type, spelled the usual way (capitals)
            spec["err_headers"] = spec["err_headers"] + [(["Content-Type", "content-type", "CONTENT-TYPE"][variant // 3 % 3],
                                                          "application/problem+text")]
        if shape == "error-after" and variant % 2 == 1:
            spec["crash"] = True            # the body generator fails with an ordinary exception, not an HTTPError
    if shape in ("empty", "empty-cl0"):
        body, pieces = b"", []
    if shape == "error-after" and not pieces:
        body, pieces = b"first", [b"first"]
    if shape == "error-after":
        pieces = pieces[:max(1, len(pieces) - 1)]      # what is written before the raise
        body = b"".join(pieces)
    tail = b""
    if shape == "genreturn":
        tail = body_bytes(rng, 10) or b"T"
    status = rng.choice(statuses or sorted(REASONS))
    reason = REASONS.get(status, "Status")
    if rng.random() < 0.15:
        reason = rng.choice(["Fine", "all good here", "Not-Quite (yet)"])
    spec.update(status=status, reason=reason, pieces=pieces, tail=tail)
    if shape == "empty-cl0" and (bodiless == "HEAD" or (bodiless and status == 304)) and variant % 2 == 0:
        spec["declared_length"] = 1 + variant // 2 % 40      # the length of the entity the bodiless response stands for
    # ---- what the client must see
    if shape in ("error-before", "error-lazy"):
        rendered = "{} {}\n{}\n{}\n{}".format(spec["err_status"], spec["err_reason"], spec["err_title"], spec["err_detail"],
                                              spec["err_fault"] if spec["err_fault"] is not None else "").encode("iso-8859-1")
        exp_headers = dict((k.lower(), v) for k, v in spec["err_headers"])
        exp_headers.setdefault("content-type", "text/plain")
        exp_headers["content-length"] = str(len(rendered))
        spec["expect"] = {"status": spec["err_status"], "reason": spec["err_reason"], "headers": exp_headers, "body": rendered}
    else:
        exp_headers = dict((k.lower(), v) for k, v in hdrs)
        if shape in ("fixed", "fixed-pieces", "empty-cl0"):
            exp_headers["content-length"] = str(spec.get("declared_length", len(body)))
        spec["expect"] = {"status": status, "reason": reason, "headers": exp_headers, "body": body + tail}
    return spec


def make_app(specfor, seen):
    """WSGI callable.  ``specfor(environ)`` returns the appspec for the request;
    every call appends a snapshot of the environ (wsgi.input read) to seen."""
    def app(environ, start_response):
        snap = dict((k, v) for k, v in environ.items() if k not in ("wsgi.input", "wsgi.errors"))
        try:
            snap["wsgi.input.read"] = environ["wsgi.input"].read()
        except Exception as ex:                      # noqa
            snap["wsgi.input.read"] = ex
        seen.append(snap)
        spec = specfor(environ)
        snap["vf.spec.id"] = spec["id"]
        shape = spec["shape"]
        status = "%d %s" % (spec["status"], spec["reason"])
        hdrs = list(spec["headers"])

        def error():
            from ioflo.aio.http import httping
            kw = {}
            if spec["err_reason_explicit"]:
                kw["reason"] = spec["err_reason"]
            return httping.HTTPError(spec["err_status"], title=spec["err_title"], detail=spec["err_detail"],
                                     fault=spec["err_fault"], headers=dict(spec["err_headers"]), **kw)

        if shape == "error-before":
            raise error()
        if shape in ("fixed", "fixed-pieces", "empty-cl0"):
            hdrs.append(("Content-Length", str(spec.get("declared_length", sum(len(p) for p in spec["pieces"])))))
            start_response(status, hdrs)
            if shape == "fixed":
                return [b"".join(spec["pieces"])]
            return list(spec["pieces"])
        if shape == "empty":
            start_response(status, hdrs)
            return []
        if shape == "write":
            write = start_response(status, hdrs)
            for p in spec["pieces"]:
                write(p)
            return []

        def gen():
            if shape == "error-lazy":
                start_response(status, hdrs)
                yield b""
                raise error()
            start_response(status, hdrs)
            for p in spec["pieces"]:
                if shape == "stream-gaps":
                    yield b""
                yield p
            if spec.get("crash_end"):
                raise RuntimeError("application failed at the end of its stream")
            if shape == "error-after":
                if spec.get("crash"):
                    raise RuntimeError("application failed while streaming")
                raise error()
            if shape == "genreturn":
                return spec["tail"]
        return gen()
    return app


# ---------------------------------------------------------------------------
# Patron <-> Valet harness (in memory or loopback), virtual time

class Pair(object):
    """One Valet and any number of Patrons sharing a Store (virtual time)."""

    def __init__(self, app, rng=None, mem=True, choppy=False, timeout=30.0):
        from ioflo.base import storing
        from ioflo.aio.http import serving
        self.rng = rng or random.Random(0)
        self.mem = mem
        self.store = storing.Store(stamp=0.0)
        self.net = MemNet(self.rng, choppy=choppy) if mem else None
        self.servant = mem_server(self.net, self.store, timeout) if mem else loop_server(self.store, timeout)
        self.valet = serving.Valet(servant=self.servant, app=app, store=self.store)
        self.port = self.servant.ha[1]
        self.host = self.servant.ha[0]      # 127.0.0.1 in memory, this process's loopback address on real sockets
        self.patrons = []
        self.rounds = 0

    def patron(self, **kwa):
        from ioflo.aio.http import clienting
        from ioflo.aio.tcp import Client
        if self.mem:
            conn = mem_client(self.net, self.store)
        else:
            conn = Client(ha=(net.host(), self.port), store=self.store)
            conn.reopen()
            conn.cs.setsockopt(socket.IPPROTO_TCP, socket.TCP_NODELAY, 1)
        p = clienting.Patron(connector=conn, store=self.store, hostname=self.host, port=self.port, **kwa)
        self.patrons.append(p)
        return p

    def deliver(self):
        if self.mem:
            self.net.deliver()

    def round(self):
        """One fixed-order service round: every patron, then the valet."""
        for p in self.patrons:
            p.serviceAll()
        self.deliver()
        self.valet.serviceAll()
        self.deliver()
        self.store.advanceStamp(0.01)
        self.rounds += 1

    def pump(self, until, cap=300):
        for i in range(cap):
            if until():
                return True
            self.round()
        return bool(until())

    def close(self):
        for p in self.patrons:
            try:
                p.connector.close()
            except Exception:      # noqa
                pass
        try:
            self.valet.close()
        except Exception:          # noqa
            pass
        try:
            self.servant.closeAll()
        except Exception:          # noqa
            pass


def tolerate_socket_errors(ctx, errs, n):
    """Errors of the harness's own real sockets: a handful is reported and
    tolerated, more than 1 % of the cases makes the run inconclusive."""
    if errs:
        ctx.hit("harness_socket_errors", len(errs))
        ctx.extra.setdefault("harness_socket_errors", []).extend(errs[:5])
    if len(errs) > max(2, n // 100):
        ctx.inconclusive_case("%d harness socket errors, e.g. %s" % (len(errs), errs[0]))
