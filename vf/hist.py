"""History engine (DESIGN 2.B): run an operation sequence on the real object
and on a small sequential model, compare after every step.

A *spec* describes one system under test:

    class Spec:
        name = "odict"            # used in mechanism keys and evidence
        tag  = "od"               # <= 3 chars, prefix of compact case keys
        def new(self):            # -> Run (fresh real object + fresh model)
        def key(self, div):       # -> mechanism key of a Divergence (optional)
        def quarantined(self, op) # -> True if the op is known to hit an open finding (optional)

    class Run:
        def model(self, op):      # apply to the model, return the expectation
        def real(self, op):       # apply to the real object, return a JSON-able value (or raise)
        def real_state(self):     # full observable state of the real object (JSON-able)
        def model_state(self):    # what real_state() has to be
        def resync(self):         # model adopts the real state (after an UNJUDGED step)
        def same_state(self, r, m)# optional, default ==

Expectations returned by ``Run.model``:

    RET(v)        the operation succeeds and returns v (compared after norm())
    OK            the operation succeeds, return value not judged
    EITHER(v)     the operation may return v or be rejected; state unchanged either way
    REJECT        the operation has to be rejected: any exception, state unchanged
    RAISES(a, b)  as REJECT but the exception class name has to be one of a, b
    UNJUDGED      the statement makes no promise; nothing is compared for this
                  step, the model adopts whatever the real object did

An op is a JSON-able list ``[name, arg, ...]``.
"""
import contextlib
import itertools
import signal
import threading
import traceback

from vf.core import canon, digest, Watchdog

HANG_S = 3.0          # per sequence (a 40 step sequence normally needs milliseconds)


@contextlib.contextmanager
def deadline(seconds):
    """Raise core.Watchdog (a BaseException) in the main thread after ``seconds`` of process CPU time."""
    if threading.current_thread() is not threading.main_thread() or not hasattr(signal, "setitimer"):
        yield
        return

    # the budget is CPU time of this process (ITIMER_PROF), not wall-clock time: a code path that does not return burns
    # CPU and trips it, while a worker that is merely starved or swapped out on a loaded machine does not (a hang verdict
    # must not depend on the load); the wall-clock backstop is the shard timeout of the worker, which is inconclusive
    def onalarm(signum, frame):
        raise Watchdog("deadline %.1fs of cpu time" % seconds)
    old = signal.signal(signal.SIGPROF, onalarm)
    signal.setitimer(signal.ITIMER_PROF, seconds)
    try:
        yield
    finally:
        signal.setitimer(signal.ITIMER_PROF, 0)
        signal.signal(signal.SIGPROF, old)

_B62 = "0123456789ABCDEFGHIJKLMNOPQRSTUVWXYZabcdefghijklmnopqrstuvwxyz"


def RET(v):
    return ("ret", v)


def EITHER(v):
    """the operation may succeed returning v or be rejected; the state is unchanged either way"""
    return ("either", v)


OK = ("ok",)
REJECT = ("reject", ())
UNJUDGED = ("unjudged",)


def RAISES(*names):
    return ("reject", tuple(names))


def norm(v):
    """tuples -> lists, recursively, so that JSON round trips compare equal."""
    if isinstance(v, (list, tuple)):
        return [norm(x) for x in v]
    if isinstance(v, dict):
        return {k: norm(x) for k, x in v.items()}
    return v


class Divergence(dict):
    """kind: return | raised | accepted | exc-type | state | reject-state | observe | hang | invariant | harness"""


class Stats(object):
    __slots__ = ("steps", "judged", "changed", "rejected", "unjudged", "outcome_evals", "state_evals", "ops")

    def __init__(self):
        self.steps = self.judged = self.changed = self.rejected = self.unjudged = 0
        self.outcome_evals = self.state_evals = 0
        self.ops = {}

    def opcount(self, name, what):
        k = name + ":" + what
        self.ops[k] = self.ops.get(k, 0) + 1


class _ObserveError(Exception):
    pass


def _obs(run):
    """the real object's observable state; an exception while reading it is a
    finding about the object (broken internal consistency), not a harness error"""
    try:
        return norm(run.real_state())
    except Exception as e:
        raise _ObserveError("%s: %s" % (type(e).__name__, str(e)[:160])) from e


def _delta(want, got):
    """only the differing entries of two (nested) dict states (keeps witnesses readable)"""
    if isinstance(want, dict) and isinstance(got, dict):
        ks = [k for k in list(want) + [k for k in got if k not in want]
              if want.get(k, "<absent>") != got.get(k, "<absent>")]
        if ks:
            w, g = {}, {}
            for k in ks:
                w[k], g[k] = _delta(want.get(k, "<absent>"), got.get(k, "<absent>"))
            return w, g
    return want, got


def _same(run, a, b):
    f = getattr(run, "same_state", None)
    return f(a, b) if f else a == b


def run_sequence(spec, ops, judge_from=0, stats=None, want_trace=False):
    st = stats or Stats()
    trace = [] if want_trace else None
    step = [0]
    note = [None]
    try:
        with deadline(HANG_S):
            div = _run_sequence(spec, ops, judge_from, st, trace, step, note)
    except Watchdog:
        # non-termination is only reported after a confirming re-run with a doubled budget (cf. C14)
        i = step[0]
        confirmed = False
        step2 = [0]
        try:
            with deadline(2 * HANG_S):
                _run_sequence(spec, ops[:i + 1], i, Stats(), None, step2)
        except Watchdog:
            confirmed = True
        except Exception:
            pass
        div = Divergence(kind="hang", step=i, op=ops[i], expected="the operation terminates",
                         observed="no return within %.0f s, again none within %.0f s on a re-run" % (HANG_S, 2 * HANG_S)
                         if confirmed else "no return within %.0f s, but the re-run finished" % HANG_S,
                         confirmed=confirmed)
    except _ObserveError as e:
        i = step[0]
        div = Divergence(kind="observe", step=i, op=ops[i], expected="a readable, self-consistent object",
                         observed="reading the state raises " + str(e), exc=e.__cause__)
    if div is not None:
        div["ops"] = list(ops[:div["step"] + 1])
        div["note"] = note[0]              # whatever the model said about the failing step (Run.note)
    return div, st, trace


def _run_sequence(spec, ops, judge_from, st, trace, step, note=None):
    """Execute ``ops``.  Steps before ``judge_from`` are executed on both sides
    but not compared (the exhaustive enumerator judged them already as shorter
    sequences).  Returns the first divergence or None."""
    note = note if note is not None else [None]
    want_trace = trace is not None
    run = spec.new()
    prev_model_state = None
    for i, op in enumerate(ops):
        step[0] = i
        judged = i >= judge_from
        st.steps += 1
        try:
            if judged and prev_model_state is None:
                prev_model_state = norm(run.model_state())
            run.note = None
            exp = run.model(op)
            note[0] = run.note
        except Exception:
            return Divergence(kind="harness", step=i, op=op, expected=None,
                              observed="model raised: " + traceback.format_exc()[-600:])
        before = None
        if judged and exp[0] in ("reject", "either"):
            before = _obs(run)
        exc = None
        out = None
        try:
            out = norm(run.real(op))
        except Exception as e:        # the real object's answer, not a harness error
            exc = e
        if exp[0] == "unjudged":
            st.unjudged += 1
            problem = run.resync()        # may name an invariant that has to hold even for unjudged steps
            if judged:
                st.outcome_evals += 1     # resync() evaluated the step's invariants
            if problem and judged:
                return Divergence(kind="invariant", step=i, op=op, expected="invariant holds after an unjudged step",
                                  observed=problem)
            if judged:
                ms = norm(run.model_state())
                if ms != prev_model_state:
                    st.changed += 1
                    st.opcount(op[0], "changed")
                prev_model_state = ms
            else:
                prev_model_state = None
            if want_trace:
                trace.append({"op": op, "unjudged": True})
            continue
        if not judged:
            continue
        st.judged += 1
        st.outcome_evals += 1
        name = op[0]
        if exp[0] == "either":
            exp = ("reject", ()) if exc is not None else ("ret", exp[1])
        if exp[0] == "reject":
            st.rejected += 1
            st.opcount(name, "rejected")
            if exc is None:
                return Divergence(kind="accepted", step=i, op=op, expected="rejected (exception, state unchanged)",
                                  observed={"returned": _short(out)}, state_real=_short(_obs(run)),
                                  state_before=_short(before))
            if exp[1] and type(exc).__name__ not in exp[1]:
                return Divergence(kind="exc-type", step=i, op=op, expected=list(exp[1]),
                                  observed=type(exc).__name__ + ": " + str(exc)[:120])
            st.state_evals += 1
            after = _obs(run)
            if not _same(run, after, before):
                return Divergence(kind="reject-state", step=i, op=op,
                                  expected={"state unchanged": _short(before)},
                                  observed={"exception": type(exc).__name__ + ": " + str(exc)[:120],
                                            "state": _short(after)})
            if want_trace:
                trace.append({"op": op, "rejected": type(exc).__name__})
            continue
        # expected success
        if exc is not None:
            return Divergence(kind="raised", step=i, op=op,
                              expected=("returns %s" % _short(norm(exp[1]))) if exp[0] == "ret" else "succeeds",
                              observed=type(exc).__name__ + ": " + str(exc)[:160], exc=exc,
                              state_before=_short(prev_model_state))
        if exp[0] == "ret":
            want = norm(exp[1])
            if out != want:
                want, out = _delta(want, out)
                return Divergence(kind="return", step=i, op=op, expected=_short(want), observed=_short(out),
                                  state_before=_short(prev_model_state))
        st.state_evals += 1
        rs = _obs(run)
        ms = norm(run.model_state())
        if not _same(run, rs, ms):
            dm, dr = _delta(ms, rs)
            return Divergence(kind="state", step=i, op=op, expected=_short(dm), observed=_short(dr),
                              state_before=_short(prev_model_state))
        if ms != prev_model_state:
            st.changed += 1
            st.opcount(name, "changed")
        else:
            st.opcount(name, "same")
        prev_model_state = ms
        if want_trace:
            trace.append({"op": op, "returned": _short(out)})
    return None


def _short(v, n=700):
    s = canon(v) if not isinstance(v, str) else v
    if len(s) <= n:
        return v
    return s[:n] + "...(%d chars)" % len(s)


def default_key(spec, div):
    return "%s/%s/%s" % (spec.name, div["op"][0], div["kind"])


def key_of(spec, div):
    if div["kind"] == "harness":
        return "%s/harness-error" % spec.name
    f = getattr(spec, "key", None)
    k = f(div) if f else None
    return k or default_key(spec, div)


def shrink(spec, ops, key, budget=400):
    """Greedy delta debugging: drop chunks, then single operations, as long as
    the first divergence keeps the same mechanism key."""
    ops = list(ops)

    def fails(cand):
        d, _, _ = run_sequence(spec, cand)
        return d is not None and key_of(spec, d) == key

    d, _, _ = run_sequence(spec, ops)
    if d is not None:
        ops = ops[:d["step"] + 1]         # nothing after the divergence matters
    n = 2
    tries = 0
    while len(ops) >= 2 and tries < budget:
        chunk = max(1, len(ops) // n)
        removed = False
        i = 0
        while i < len(ops) and tries < budget:
            cand = ops[:i] + ops[i + chunk:]
            tries += 1
            if cand and fails(cand):
                ops = cand
                removed = True
            else:
                i += chunk
        if not removed:
            if chunk == 1:
                break
            n = min(len(ops), n * 2)
    return ops


def witness(spec, ops, div, shrunk_from=None):
    d, _, trace = run_sequence(spec, ops, want_trace=True)
    d = d or div
    w = {"spec": spec.name, "ops": ops, "length": len(ops), "step": d.get("step"),
         "failing_op": d.get("op"), "kind": d.get("kind"), "expected": d.get("expected"),
         "observed": d.get("observed"), "history": trace}
    for k in ("state_before", "state_real"):
        if d.get(k) is not None:
            w[k] = d[k]
    if shrunk_from is not None:
        w["shrunk_from_length"] = shrunk_from
    e = d.get("exc")
    if e is not None:
        w["traceback"] = "".join(traceback.format_exception(type(e), e, e.__traceback__))[-1200:]
    return w


def what_of(spec, ops, div):
    return "%s: after %s the operation %s %s; expected %s, observed %s" % (
        spec.name, canon(ops[:div["step"]])[:160] if div["step"] else "construction",
        canon(div["op"])[:120],
        {"return": "returns a different value", "raised": "raises", "accepted": "is accepted",
         "exc-type": "raises another exception class", "state": "leaves a different state",
         "reject-state": "is rejected but changes the state", "harness": "broke the harness",
         "observe": "leaves an object whose state cannot be read", "hang": "does not terminate",
         "invariant": "breaks an invariant"}[div["kind"]],
        str(div.get("expected"))[:160], str(div.get("observed"))[:160])


class Reporter(object):
    """Feeds divergences and bulk counters into the Ctx."""

    def __init__(self, ctx):
        self.ctx = ctx
        self.seen = {}
        self.opstats = {}
        self.hangs = 0
        self.abort = False

    def absorb(self, spec, st):
        c = self.ctx
        c.oracle_evaluations += st.outcome_evals + st.state_evals
        c.events += st.steps
        c.hit("steps_judged", st.judged)
        c.hit("steps_rejected", st.rejected)
        c.hit("steps_state_changed", st.changed)
        if st.unjudged:
            c.hit("steps_unjudged", st.unjudged)
        d = self.opstats.setdefault(spec.name, {})
        for k, v in st.ops.items():
            d[k] = d.get(k, 0) + v

    def report(self, spec, ops, div, do_shrink=True):
        if div["kind"] == "hang":
            self.hangs += 1
            if self.hangs >= 4:
                self.abort = True          # every further hanging case costs seconds
            if not div.get("confirmed"):
                self.ctx.inconclusive_case("%s: %s ran into the %.0f s deadline once (not reproduced)" % (
                    spec.name, canon(div["ops"])[:200], HANG_S))
                return None
            do_shrink = False
            key = key_of(spec, div)
            self.seen[key] = self.seen.get(key, 0) + 1
            self.ctx.fail(key, what_of(spec, div["ops"], div),
                          {"spec": spec.name, "ops": div["ops"], "kind": "hang", "failing_op": div["op"],
                           "observed": div["observed"]})
            return key
        key = key_of(spec, div)
        n = self.seen.get(key, 0)
        self.seen[key] = n + 1
        if n >= 3:                       # Ctx keeps three witnesses per key
            self.ctx.fail(key)
            return key
        small = list(ops[:div["step"] + 1])
        if do_shrink and len(small) > 1:
            try:
                small = shrink(spec, small, key)
            except Exception:
                pass
        d2, _, _ = run_sequence(spec, small)
        if d2 is None or key_of(spec, d2) != key:
            small, d2 = list(ops[:div["step"] + 1]), div
        self.ctx.fail(key, what_of(spec, small, d2), witness(spec, small, d2, shrunk_from=div["step"] + 1))
        return key

    def flush(self):
        ex = self.ctx.extra.setdefault("op_outcomes", {})
        for spec, d in self.opstats.items():
            for k, v in d.items():
                kk = spec + "." + k
                ex[kk] = ex.get(kk, 0) + v


def seqkey(tag, idxs):
    """<= 16 chars, used as is by Ctx.case (distinct by construction)."""
    return tag + "".join(_B62[i // 62] + _B62[i % 62] for i in idxs)


def exhaustive(ctx, rep, spec, alphabet, maxlen, firsts=None, cap=None):
    """Depth-first enumeration of every sequence over ``alphabet`` of length
    1..maxlen whose first operation index is in ``firsts`` (all when None).
    Each sequence is run from a fresh object; only its last step is judged
    (its prefixes are shorter sequences of the same enumeration); a sequence
    whose last step diverged is reported and not extended.
    Returns the number of sequences run."""
    count = [0]
    tag = spec.tag
    n = len(alphabet)

    def rec(idxs, changed_before):
        if (cap is not None and count[0] >= cap) or rep.abort:
            return
        ops = [alphabet[i] for i in idxs]
        st = Stats()
        div, st, _ = run_sequence(spec, ops, judge_from=len(ops) - 1, stats=st)
        count[0] += 1
        rep.absorb(spec, st)
        changed = changed_before or st.changed > 0
        ctx.case(seqkey(tag, idxs), nontrivial=(len(idxs) >= 2 and changed))
        if div is not None:
            rep.report(spec, ops, div)
            return
        if len(idxs) < maxlen:
            for j in range(n):
                rec(idxs + [j], changed)

    for i in (firsts if firsts is not None else range(n)):
        rec([i], False)
    return count[0]


def random_runs(ctx, rep, spec, nseq, maxlen, rng, minlen=4, avoid_fraction=0.5):
    """``nseq`` seeded random sequences of ``spec.random_op(rng)``; a fraction
    of them leaves out operations the spec quarantines (known open findings)
    so that the rest of the space is still explored in depth."""
    q = getattr(spec, "quarantined", None)
    for s in range(nseq):
        if rep.abort:
            ctx.inconclusive_case("%s: random runs stopped after repeated hangs" % spec.name)
            break
        length = rng.randint(minlen, maxlen)
        avoid = q is not None and rng.random() < avoid_fraction
        ops = []
        guard = 0
        pro = getattr(spec, "prologue", None)
        if pro is not None:
            ops = [norm(o) for o in pro(rng) if not (avoid and q(o))]
        while len(ops) < length and guard < 20 * length:
            guard += 1
            op = norm(spec.random_op(rng))
            if avoid and q(op):
                continue
            ops.append(op)
        div, st, _ = run_sequence(spec, ops)
        rep.absorb(spec, st)
        ctx.case(spec.tag + digest(ops)[:12], nontrivial=st.changed > 0 and len(ops) >= 2,
                 sample={"spec": spec.name, "random_sequence": ops[:12], "length": len(ops)} if s == 0 else None)
        if div is not None:
            rep.report(spec, ops, div)


def split(n, parts):
    """index lists for sharding the first operation of an exhaustive run"""
    parts = max(1, min(parts, n))
    return [list(range(i, n, parts)) for i in range(parts)]
