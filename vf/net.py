"""Loopback addressing for the checks that open real sockets.

Every worker process listens on a loopback address of its own (127.a.b.c derived from its pid; all of
127/8 is local on Linux) instead of 127.0.0.1.  Reasons, all observed in a thorough sweep that ran beside
other socket-heavy jobs (see DESIGN.md 7.1):

* `bind((ip, 0))` looks for a port that is free *for that ip*: tens of thousands of TIME_WAIT entries left on
  127.0.0.1 by other workers / other checks / the repository's own tests no longer exhaust the listener ports
  (EADDRINUSE in the harness, INCONCLUSIVE runs);
* a port a scenario has just stopped listening on ("server down") cannot be handed to another worker's
  listener, so a client under test that retries it is really refused and not connected to a stranger;
* connecting sockets get the source address 127.0.0.1, which differs from the destination address, so the
  kernel can never produce a TCP self-connection (source port == destination port) to a dead port in the
  ephemeral range.
"""
import os
import socket


def _probe(ip):
    try:
        s = socket.socket(socket.AF_INET, socket.SOCK_STREAM)
        try:
            s.bind((ip, 0))
        finally:
            s.close()
        return True
    except OSError:
        return False


def _host():
    pid = os.getpid()
    ip = "127.%d.%d.%d" % (1 + (pid >> 16) % 200, (pid >> 8) & 255, 1 + (pid & 255) % 254)
    return ip if _probe(ip) else "127.0.0.1"


_HOST = {}


def host():
    """the loopback address of this process (stable for the life of the process, re-derived after fork)"""
    pid = os.getpid()
    if pid not in _HOST:
        _HOST.clear()
        _HOST[pid] = _host()
    return _HOST[pid]


def host_alt():
    """a second loopback address of this process, different from host(): for two servers that share a port number"""
    pid = os.getpid()
    ip = "127.%d.%d.%d" % (201 + (pid >> 16) % 50, (pid >> 8) & 255, 1 + (pid & 255) % 254)
    return ip if ip != host() and _probe(ip) else None


def listen_ports(n=40):
    """candidate listen ports for a server that has to sit on 127.0.0.1 itself (TLS certificates issued for
    localhost): below the kernel's ephemeral range, so neither a connecting socket nor another worker's
    `bind((ip, 0))` can hold them, and spread by pid so concurrent workers rarely meet; the caller takes the
    first one on which the server opens"""
    import random
    lo, hi = 20000, 32000
    try:
        with open("/proc/sys/net/ipv4/ip_local_port_range") as f:
            a, b = [int(x) for x in f.read().split()[:2]]
        if a > lo + 2000:
            hi = min(hi, a - 1)
        elif b < 60000:
            lo, hi = b + 1, 65000
    except (OSError, ValueError):
        pass
    rng = random.Random(os.getpid() * 7919 + len(_HOST))
    return [rng.randrange(lo, hi) for _ in range(n)]
