"""C16 script layout does not change what is built (engine A)."""
import json
import os
import random
import re

from vf import core
from vf.flo import gen, prog as P

LEVEL = "exploration"
RULE = ("generated programs (dump + full run trace) and the example plans shipped in ioflo/app/plan (dump only), each under random "
        "compositions of layout transformations: leading indentation (spaces, tabs, none), backslash continuation at any token "
        "boundary, continuation lines beginning with a connective or comparison token, blank and comment lines between commands and "
        "before connective continuation lines, trailing ` # comment` (with quotes, #, verbs, connectives in the text) on lines not "
        "ending in a backslash, a stretch of whole commands moved into a file of its own and replaced by `load`; distinct = distinct (program, transformed text); non-trivial = the transformed text differs from the "
        "canonical text in at least 3 lines and the canonical program built")
META = {"engine": "A floscript", "technique": "metamorphic runtime check: dump and run-trace equality under layout transformations",
        "level_text": "The canonical and every re-laid-out script are really built (and, for generated programs, run); the structural dumps "
                      "and the complete recorder traces / tick snapshots must be identical.",
        "level_note": "Not applied because the property does not promise them: lines inserted inside a backslash group, tabs between tokens, "
                      "splits inside quoted strings."}

RESERVED = ['to', 'by', 'with', 'from', 'per', 'for', 'cum', 'qua', 'via', 'as', 'at', 'in', 'of', 'on', 're', 'is',
            'if', 'be', 'into', 'and', 'not', '+-', '==', '<', '<=', '>=', '>', '!=']
TOKEN = re.compile(r""""[^"]*"|'[^']*'|[^ ]+""")
COMMENTS = ["# plain comment", "#", "# go next if x == 1", "# \"quoted\" text 'single'", "# ## with # hashes", "#frame foo in bar",
            "# and not if into", "#\tTabbed"]
FEATS = [dict(p_let=0.3, p_pokes=0.4, p_inactive=0.1, order=True, p_period=0.2, p_bids=0.15),
         dict(p_let=0.2, p_pokes=0.3, p_aux=0.4, naux=(1, 3), p_condaux=0.3, p_done_need=0.3, nslaves=(0, 1), p_fiat=0.3)]


def indent(rng):
    return rng.choice(["", " ", "  ", "    ", "\t", "\t\t", "  \t ", "        "])


def relayout(text, rng, rate=0.5):
    out = []
    in_group = False
    changed = 0
    for L in text.split("\n"):
        body = L.strip()
        if in_group:                       # inside a backslash group: leave untouched
            out.append(L)
            in_group = body.endswith("\\")
            continue
        if body == "" or body.startswith("#"):
            out.append(L)
            continue
        if body.endswith("\\"):
            out.append(L)
            in_group = True
            continue
        if rng.random() < 0.25 * rate:     # blank / comment lines before the command (or before a connective continuation)
            for _ in range(rng.randint(1, 2)):
                out.append(indent(rng) + rng.choice(["", "", rng.choice(COMMENTS)]))
            changed += 1
        if "#" in body:                    # has a trailing comment already (or a # in quotes): only re-indent
            out.append(indent(rng) + body)
            changed += 1
            continue
        toks = TOKEN.findall(body)
        parts = [toks]
        if len(toks) > 1 and rng.random() < rate:
            k = rng.randint(1, len(toks) - 1)
            conn = [i for i in range(1, len(toks)) if toks[i] in RESERVED]
            if conn and rng.random() < 0.5:
                k = rng.choice(conn)
                parts = [toks[:k], None, toks[k:]]          # None: connective continuation (plain newline)
            else:
                parts = [toks[:k], "\\", toks[k:]]
            if len(parts[-1]) > 1 and rng.random() < 0.3:    # split once more
                t2 = parts[-1]
                k2 = rng.randint(1, len(t2) - 1)
                if t2[k2] in RESERVED and rng.random() < 0.5:
                    parts = parts[:-1] + [t2[:k2], None, t2[k2:]]
                else:
                    parts = parts[:-1] + [t2[:k2], "\\", t2[k2:]]
            changed += 1
        i = 0
        while i < len(parts):
            seg = parts[i]
            sep = parts[i + 1] if i + 1 < len(parts) else "end"
            line = indent(rng) + " ".join(seg)
            if sep == "\\":
                line += rng.choice([" \\", "\\", "  \\"]) if not seg[-1].endswith(("'", '"')) or True else " \\"
                if not line.endswith(" \\") and not line.endswith("\t\\"):
                    # a backslash glued to a token would join it with nothing: always keep a space before it
                    line = line[:-1].rstrip() + " \\"
                out.append(line)
            else:
                if rng.random() < 0.3 * rate:
                    line += rng.choice([" ", "  ", "   "]) + rng.choice(COMMENTS)      # a space, not a tab, before the #
                    changed += 1
                out.append(line)
                if sep is None and rng.random() < 0.3:       # blank/comment lines before a connective continuation line
                    out.append(indent(rng) + rng.choice(["", rng.choice(COMMENTS)]))
            i += 2
    return "\n".join(out), changed


def split_load(text, rng, dirpath, n):
    """move one stretch of whole commands (each with its continuation lines) into a file of its own and put a `load` of
    that file in its place: the builder reads the loaded file at that point and then goes on with the parent.  Half of the
    time the loaded file ends right with the last (continuation) line of its last command."""
    lines = text.split("\n")
    starts = []
    in_group = False
    for i, L in enumerate(lines):
        body = L.strip()
        if in_group:
            in_group = body.endswith("\\")
            continue
        if body.endswith("\\"):
            in_group = True
        if not body or body.startswith("#"):
            continue
        toks = TOKEN.findall(body)
        if toks and toks[0] not in RESERVED:
            starts.append(i)
    if len(starts) < 4:
        return text, 0
    a = rng.choice(starts[1:-1])
    later = [x for x in starts if x > a]
    b = rng.choice(later[:6])
    chunk = lines[a:b]
    keep = []
    if rng.random() < 0.5:           # blank / comment lines at the end of the stretch stay in the parent
        while chunk and (not chunk[-1].strip() or chunk[-1].strip().startswith("#")):
            keep.insert(0, chunk.pop())
    if not chunk:
        return text, 0
    path = os.path.join(dirpath, "part%d.flo" % n)
    with open(path, "w") as f:
        f.write("\n".join(chunk) + ("\n" if rng.random() < 0.5 else ""))
    out = lines[:a] + [indent(rng) + "load " + path] + keep + lines[b:]
    return "\n".join(out), 1


def obs_run(res):
    ev = [(e["tick"], e["framer"], e["frame"], e["ctx"], e["tag"], json.dumps(e["snap"], sort_keys=True)) for e in res.trace]
    ticks = [(t["tick"], json.dumps({n: (f["status"], f["actives"]) for n, f in t["framers"].items()}, sort_keys=True),
              json.dumps(t["shares"], sort_keys=True)) for t in res.ticks[1:]]
    return ev, ticks


def first_diff(a, b):
    n = min(len(a), len(b))
    for i in range(n):
        if a[i] != b[i]:
            return {"at": i, "canonical": a[max(0, i - 60):i + 100], "relaid": b[max(0, i - 60):i + 100]}
    return {"canonical_len": len(a), "relaid_len": len(b)}


def worker(ctx, job):
    from vf.flo import dump, runner
    partdir = core.scratch_dir("c16parts")
    for item in job["items"]:
        rng = random.Random(item["seed"])
        if item["kind"] == "gen":
            prog = gen.gen_program(rng, gen.feat(**FEATS[item["fi"]]))
            canon = P.render(prog)
            # quoted strings containing comment characters, in both quote styles
            canon = canon.replace("house h\n", "house h\n  init .q0 with \"has # hash\"\n  init .q1 with 'single # and \" inside'\n", 1)
            cap = prog["ticks"] + 12
        else:
            canon = open(item["path"]).read()
            cap = None
        o0, det0, houses0 = dump.build_text(canon)
        if o0 != "built":
            ctx.hit("canonical_not_built")
            if item["kind"] == "gen":
                ctx.inconclusive_case("generated program did not build (%s %r)" % (o0, det0))
            continue
        dh0 = dump.dump_house(houses0[0])
        d0 = json.dumps(dh0, sort_keys=True, default=repr)
        if item["kind"] == "gen":      # comment characters inside quotes are data, in any layout
            got = (dh0["shares"].get("q0", {}).get("value"), dh0["shares"].get("q1", {}).get("value"))
            ctx.check(got == ("has # hash", 'single # and " inside'), "comment-character-inside-quotes-not-data",
                      "quoted strings containing # were built as %r" % (got,), lambda: {"built": got})
        r0 = None
        if item["kind"] == "gen":
            r0 = obs_run(runner.run_text(canon, maxticks=cap, watch=gen.WATCH))
        for v in range(job["variants"]):
            text, changed = relayout(canon, rng, rate=rng.choice([0.3, 0.6, 0.9]))
            if rng.random() < 0.35:
                text, nl = split_load(text, rng, partdir, v)
                if nl:
                    changed += 3
                    ctx.hit("variants_with_load")
            o1, det1, houses1 = dump.build_text(text)
            ctx.event()
            ctx.hit("variants_" + item["kind"])
            ctx.case([item.get("path", item["seed"]), text], nontrivial=changed >= 3,
                     sample={"kind": item["kind"], "relaid_excerpt": text[:700]} if changed >= 3 and v == 0 else None)
            if o1 != "built":
                key = "layout-changes-build/" + (core.exc_key(det1) if o1 == "exception" else o1)
                ctx.fail(key, "re-laid-out script no longer builds: %s %s" % (o1, str(det1)[:200]),
                         {"canonical": canon[:3000], "relaid": text[:4000], "outcome": o1, "detail": str(det1)[:500]})
                continue
            d1 = json.dumps(dump.dump_house(houses1[0]), sort_keys=True, default=repr)
            if not ctx.check(d0 == d1, "layout-changes-built-house", "re-laid-out script builds a different house",
                             lambda: {"relaid": text[:4000], "difference": first_diff(d0, d1)}):
                continue
            if r0 is not None:
                r1 = obs_run(runner.run_text(text, maxticks=cap, watch=gen.WATCH))
                ctx.hit("runs_compared")
                ctx.check(r0 == r1, "layout-changes-run", "re-laid-out script runs differently",
                          lambda: {"relaid": text[:4000]})


def plans():
    d = os.path.join(core.REPO, "ioflo", "app", "plan")
    out = []
    for fn in sorted(os.listdir(d)):
        if fn.endswith(".flo"):
            p = os.path.join(d, fn)
            txt = open(p).read()
            if re.search(r"^\s*load\s", txt, re.M):
                continue
            out.append(p)
    return out


def run(ctx):
    items = [{"kind": "gen", "seed": ctx.rng.randrange(1 << 30), "fi": i % len(FEATS)} for i in range(ctx.pick(80, 900))]
    pl = plans()
    ctx.extra["example_plans"] = len(pl)
    for p in pl:
        items.append({"kind": "plan", "path": p, "seed": ctx.rng.randrange(1 << 30)})
    n = 16
    ctx.shard([{"items": items[i::n], "variants": ctx.pick(6, 25)} for i in range(n)], timeout=ctx.pick(300, 1500))
    ctx.floor("variants_gen", 200)
    ctx.floor("variants_plan", 50)
    ctx.floor("runs_compared", 200)
    ctx.floor("variants_with_load", 60)
