"""C21 comparison conditions evaluate exactly the written comparison (engine A).

Batches of single-purpose framers, each `go b if <condition>`; a driver framer
in front rewrites the state shares at a planned tick.  Observed: the tick at
which frame b is entered (recorder) or never.  Oracle: direct Python
evaluation of the written comparison on the values in force at each tick.
"""
import itertools
from fractions import Fraction

import random
from vf.flo import prog as P

LEVEL = "exploration"
RULE = ("conditions = operator x (state value on the goal boundary, one step either side, at goal+-tol and one step beyond) "
        "x goal kind (direct literal / indirect share / framer clock) x negation x conjunctions up to 3 x tolerance incl 0 "
        "and negative x value types (int, float, negative, zero, string, boolean); grid enumerated exhaustively, "
        "conjunctions sampled; conditions with clock clauses inside two clones of one moot framer entered at different ticks; distinct = distinct rendered condition + state values; non-trivial = the condition was "
        "evaluated at least once by a running framer (framer reached tick 1)")
RULE = __import__("vf.core", fromlist=["rule_add"]).rule_add(RULE, 'also two clones of one moot entered `delay` ticks apart, each with its own elapsed / recurred; states read from a named field beside indirect goals written without one')
META = {"engine": "A floscript", "technique": "runtime monitor of transition tick vs direct evaluation of the written comparison",
        "level_text": "Each generated condition guards a transition in a real framer run; the tick of the transition (or its absence) "
                      "is compared with Python evaluation of the comparison as the property words it.",
        "level_note": "Assumes share writes by the front driver are visible to later framers in the same tick (C04/C07 cover that)."}

K = 6          # ticks observed
CH = 3         # tick at which the driver rewrites state shares
TICK = Fraction(1, 8)
OPS = ["==", "!=", "<", "<=", ">=", ">"]


def isnum(x):
    return isinstance(x, (int, float)) and not isinstance(x, str)


def ref_cmp(state, op, goal, tol):
    tol = 0 if tol is None else tol
    if op in ("==", "!="):
        if isnum(state) and isnum(goal):
            r = (goal - abs(tol)) <= state <= (goal + abs(tol))
        else:
            r = (state == goal)
        return r if op == "==" else (not r)
    if op == "<":
        return state < goal
    if op == "<=":
        return state <= goal
    if op == ">=":
        return state >= goal
    return state > goal


def ref_clause(cl, i, k, vals, since=0):
    """cl: clause dict; k: tick; vals(k) -> current state value of framer i; since: tick at which the framer was entered"""
    kind = cl["kind"]
    if kind == "bool":
        r = bool(vals(k))
    else:
        if kind == "elapsed":
            st = float((k - since) * TICK)
        elif kind == "recurred":
            st = k - since
        else:
            st = vals(k)
        r = ref_cmp(st, cl["op"], cl["goal"], cl.get("tol"))
    return (not r) if cl.get("neg") else r


def clause_need(cl, i, sfield=None):
    if cl["kind"] == "bool":
        return {"n": "bool", "state": ".s%d" % i, "neg": cl.get("neg", False), "field": sfield}
    state = {"elapsed": "elapsed", "recurred": "recurred"}.get(cl["kind"], ".s%d" % i)
    goal = {"path": ".g%d" % i} if cl.get("indirect") else ({"raw": cl["goal_raw"]} if cl.get("goal_raw") else cl["goal"])
    return P.cmp(state, cl["op"], goal, tol=cl.get("tol"), neg=cl.get("neg", False),
                 field=sfield if cl["kind"] == "val" else None)


def orderable(a, b):
    if isinstance(a, str) or isinstance(b, str):
        return isinstance(a, str) and isinstance(b, str)
    return True


def gen_grid():
    """exhaustive boundary grid of single-clause conditions"""
    cases = []
    # small exact values, decimal values whose boundary sums are not exact, and large magnitudes (counters, epoch stamps)
    num_goals = [0, 3, -2, 2.5, -0.75, 10, -9.1, 0.1, 1.1, 2000000000, 1700000000.0, -3000000000]
    tols = [None, 0, 0.5, -0.5, 1, 0.3, 0.1, 1.5]
    for g in num_goals:
        for tol in tols:
            t = abs(tol or 0)
            states = sorted(set([g - t - 1, g - t - 0.25, g - t, g - t + 0.25, g, g + t - 0.25, g + t, g + t + 0.25, g + t + 1]))
            if abs(g) > 1e6:       # next representable neighbours and small offsets far below 1e-9 * |g|
                states = sorted(set(states + [g + 1, g - 1, g + 2, g - 2, g + t + 0.5, g - t - 0.5]))
            for op in OPS:
                if tol is not None and op not in ("==", "!="):
                    continue
                for s in states:
                    for neg in (False, True):
                        for ind in (False, True):
                            cases.append({"v0": s, "v1": None, "g": g,
                                          "clauses": [{"kind": "val", "op": op, "goal": g, "tol": tol, "neg": neg, "indirect": ind}]})
    strs = ["abc", "abd", "", "Abc", "zz"]
    for g in strs:
        for s in strs:
            for op in OPS:
                for neg in (False, True):
                    cases.append({"v0": s, "v1": None, "g": g,
                                  "clauses": [{"kind": "val", "op": op, "goal": g, "neg": neg, "indirect": neg}]})
    for g in (True, False):
        for s in (True, False, 0, 1, 2, "true", ""):
            for op in ("==", "!="):
                cases.append({"v0": s, "v1": None, "g": g, "clauses": [{"kind": "val", "op": op, "goal": g, "neg": False}]})
                # the boolean literals in their other spellings (yes / no, any capitalisation)
                for raw in (("True", "TRUE", "yes", "Yes") if g else ("False", "FALSE", "no", "No")):
                    cases.append({"v0": s, "v1": None, "g": g,
                                  "clauses": [{"kind": "val", "op": op, "goal": g, "goal_raw": raw, "neg": s == 2}]})
    # cross-type equality (equality otherwise)
    for s, g in (("abc", 3), (3, "abc"), ("3", 3), (3.0, 3), (0, False), ("", 0), (None, 0) if False else ("x", True)):
        for op in ("==", "!="):
            cases.append({"v0": s, "v1": None, "g": g, "clauses": [{"kind": "val", "op": op, "goal": g, "neg": False}]})
    # bare boolean need
    for s in (0, 1, -1, 0.0, 0.5, "", "a", True, False):
        for neg in (False, True):
            cases.append({"v0": s, "v1": None, "g": 0, "clauses": [{"kind": "bool", "neg": neg}]})
    # framer clocks
    for kind, goals in (("elapsed", [0.0, 0.125, 0.25, 0.3, 0.375, 0.5, 1.0]), ("recurred", [0, 1, 2, 3, 5, 9])):
        for g in goals:
            for op in OPS:
                for tol in (None, 0.125 if kind == "elapsed" else 1):
                    if tol is not None and op not in ("==", "!="):
                        continue
                    for neg in (False, True):
                        cases.append({"v0": 0, "v1": None, "g": g,
                                      "clauses": [{"kind": kind, "op": op, "goal": g, "tol": tol, "neg": neg,
                                                   "indirect": (neg and kind == "recurred")}]})
    return cases


def gen_random(rng, n):
    vals = [0, 1, 2, 3, -1, -2, 2.5, -0.75, 10, 0.125, 0.25]
    cases = []
    for _ in range(n):
        g = rng.choice(vals)
        v0, v1 = rng.choice(vals), rng.choice(vals + [None, None])
        clauses = []
        for j in range(rng.randint(1, 3)):
            kind = rng.choice(["val", "val", "val", "elapsed", "recurred", "bool"])
            if kind == "bool":
                clauses.append({"kind": "bool", "neg": rng.random() < 0.3})
                continue
            op = rng.choice(OPS)
            tol = rng.choice([None, None, 0, 0.5, -1, 2]) if op in ("==", "!=") else None
            goal = g if kind == "val" else (rng.choice([0.0, 0.125, 0.25, 0.5, 0.625]) if kind == "elapsed" else rng.randint(0, 6))
            # only one indirect goal share per framer, reserved for the 'val' clause whose goal is g
            clauses.append({"kind": kind, "op": op, "goal": goal, "tol": tol, "neg": rng.random() < 0.3,
                            "indirect": kind == "val" and rng.random() < 0.4})
        c = {"v0": v0, "v1": v1, "g": g, "clauses": clauses}
        # the state kept in a named field of its share (`depth in .s0 >= .g0`): an indirect goal written without a field
        # is still the goal share's value
        if random.Random(repr(c)).random() < 0.3:
            c["sfield"] = "depth"
        cases.append(c)
    return cases


def build_batch(batch):
    inits, framers = [], []
    chg = []
    for i, c in enumerate(batch):
        inits.append([".s%d" % i, {c.get("sfield") or "value": c["v0"]}])
        inits.append([".g%d" % i, {"value": c["g"]}])
        if c["v1"] is not None:
            chg.append({"v": "put", "data": {c.get("sfield") or "value": c["v1"]}, "dst": ".s%d" % i, "ctx": None})
        needs = [clause_need(cl, i, c.get("sfield")) for cl in c["clauses"]]
        mode = c.get("mode", "go")
        if mode.endswith("let"):
            # the same condition as an entry condition of frame b: the unconditional `go b` is attempted at every
            # evaluation and admitted the first time the condition holds
            frames = [P.frame("a", [P.rec("q%d.a" % i, "precur"), P.go("b", [])]),
                      P.frame("b", [{"v": "let", "needs": needs}, P.rec("q%d.b" % i, "enter")])]
        else:
            frames = [P.frame("a", [P.rec("q%d.a" % i, "precur"), P.go("b", needs)]),
                      P.frame("b", [P.rec("q%d.b" % i, "enter")])]
        if mode == "twin-go":
            # two clones of one moot framer, the second one entered `delay` ticks later: each evaluates the condition on
            # its own clocks (and the shares they both see)
            framers.append(P.framer("mq%d" % i, frames, sched="moot"))
            framers.append(P.framer("q%d" % i, [P.frame("h", [{"v": "aux", "aux": "mq%d" % i, "as": "k"}])]))
            framers.append(P.framer("q%dw" % i, [P.frame("w0", [P.go("h", [P.cmp("recurred", ">=", c["delay"])])]),
                                                  P.frame("h", [{"v": "aux", "aux": "mq%d" % i, "as": "k"}])]))
        elif mode.startswith("clone"):
            # ... and the same frames in a moot framer that runs as a named clone under a host framer
            framers.append(P.framer("mq%d" % i, frames, sched="moot"))
            framers.append(P.framer("q%d" % i, [P.frame("h", [{"v": "aux", "aux": "mq%d" % i, "as": "k"}])]))
        else:
            framers.append(P.framer("q%d" % i, frames))
    drv = P.framer("drv", [P.frame("w", [{"v": "repeat", "n": CH}]),
                           P.frame("ch", chg + [{"v": "repeat", "n": K - CH + 1}]),
                           P.frame("fin", [{"v": "bid", "ctl": "stop", "who": ["all"], "ctx": None}])], order="front")
    return P.program([P.house("h", [drv] + framers, inits=inits)], period="0.125")


def expected_tick(c, i, since=0):
    def vals(k):
        return c["v1"] if (c["v1"] is not None and k >= CH) else c["v0"]
    for k in range(since + 1, K + 1):
        if all(ref_clause(cl, i, k, vals, since) for cl in c["clauses"]):
            return k
    return None


def worker(ctx, job):
    from vf.flo import runner
    for batch in job["batches"]:
        prog = build_batch(batch)
        text = P.render(prog)
        res = runner.run_text(text, period=0.125, maxticks=K + 8)
        if not res.built:
            ctx.inconclusive_case("batch did not build: %r" % (res.build_error,))
            ctx.sample({"unbuilt": text[:2000]})
            continue
        if res.exc is not None or res.capped:
            ctx.fail("run-raised", "run raised %r / capped=%s" % (res.exc, res.capped),
                     {"program": text[:3000], "exc": repr(res.exc)})
            continue
        entered = {}
        evaluated = set()
        byframer = {}
        for e in res.trace:
            ctx.event()
            if e["tag"].endswith(".b") and e["ctx"] == "enter":
                entered.setdefault(e["tag"][:-2], e["tick"])
                byframer.setdefault(e["framer"], e["tick"])
            if e["tag"].endswith(".a"):
                evaluated.add(e["tag"][:-2])
        for i, c in enumerate(batch):
            name = "q%d" % i
            if c.get("mode") == "twin-go":
                cond = P.render_needs([clause_need(cl, i, c.get("sfield")) for cl in c["clauses"]])
                ctx.case([cond, c["v0"], c["v1"], c["g"], "twin", c["delay"]], nontrivial=name in evaluated)
                ctx.hit("mode_twin-go")
                for who, since in (("q%d_k" % i, 0), ("q%dw_k" % i, c["delay"])):
                    exp, got = expected_tick(c, i, since), byframer.get(who)
                    if since and exp is not None:
                        ctx.hit("later_twin_expected_true")
                    ctx.check(got == exp, "comparison-outcome/twin-clone/%s" % ("taken-but-false" if (got is not None and (exp is None or got < exp))
                                                                                 else "not-taken-but-true"),
                              "`go b if %s` in clone %s (entered at tick %d) with state %r (%r from tick %d): transition at tick %s, "
                              "written comparison on its own clocks says %s" % (cond, who, since, c["v0"], c["v1"], CH, got, exp),
                              {"condition": cond, "case": c, "clone": who, "entered_at": since, "observed_tick": got, "expected_tick": exp})
                continue
            cond = P.render_needs([clause_need(cl, i, c.get("sfield")) for cl in c["clauses"]])
            exp = expected_tick(c, i)
            got = entered.get(name)
            ctx.case([cond, c["v0"], c["v1"], c["g"]], nontrivial=name in evaluated,
                     sample={"condition": cond, "state": c["v0"], "state_from_tick_3": c["v1"], "goal_share": c["g"],
                             "expected_tick": exp, "observed_tick": got} if i == 0 else None)
            for cl in c["clauses"]:
                ctx.hit("op_" + cl.get("op", "bool"))
                if cl.get("neg"):
                    ctx.hit("negated")
                if cl.get("tol") is not None:
                    ctx.hit("with_tolerance")
                if cl.get("indirect"):
                    ctx.hit("indirect_goal")
                    if c.get("sfield"):
                        ctx.hit("indirect_goal_without_field_beside_a_state_field")
            if len(c["clauses"]) > 1:
                ctx.hit("conjunctions")
            ctx.hit("mode_" + c.get("mode", "go"))
            if exp is not None:
                ctx.hit("expected_true")
            else:
                ctx.hit("expected_never")
            ops = sorted(set(cl.get("op", "bool") for cl in c["clauses"]))
            ctx.check(got == exp, "comparison-outcome/%s" % ("taken-but-false" if (got is not None and (exp is None or got < exp))
                                                              else "not-taken-but-true"),
                      "`go b if %s` with state %r (%r from tick %d), goal share %r: transition at tick %s, written comparison says %s"
                      % (cond, c["v0"], c["v1"], CH, c["g"], got, exp) + (" [used as %s]" % c["mode"] if c.get("mode") else ""),
                      {"condition": cond, "case": c, "observed_tick": got, "expected_tick": exp, "ops": ops})


def run(ctx):
    grid = gen_grid()
    ctx.extra["grid_conditions"] = len(grid)
    ctx.exhaustive = False
    rnd = gen_random(ctx.rng, ctx.pick(1500, 120000))
    allc = grid + rnd
    # where the condition is used: transition need / entry condition, in an ordinary framer / in a clone of a moot framer
    modes = ["go", "go", "let", "clone-go", "clone-let"]
    for j, c in enumerate(allc):
        c["mode"] = modes[j % len(modes)] if not ctx.quick else modes[(j + ctx.seed) % len(modes)]
    if not ctx.quick:       # thorough: every grid condition in every mode
        allc = [dict(c, mode=m) for c in grid for m in ("go", "let", "clone-go", "clone-let")] + rnd
    # the condition inside two clones of one moot framer entered at different ticks (conditions with a clock clause)
    import random as _random
    r2 = _random.Random(ctx.seed * 7919 + 17)
    tw = [c for c in gen_random(r2, ctx.pick(1500, 30000)) if any(cl["kind"] in ("elapsed", "recurred") for cl in c["clauses"])]
    allc = allc + [dict(c, mode="twin-go", delay=r2.choice([1, 2, 3])) for c in tw]
    ctx.floor("mode_twin-go", 300)
    ctx.floor("later_twin_expected_true", 100)
    B = 50
    batches = [allc[i:i + B] for i in range(0, len(allc), B)]
    n = 16
    ctx.shard([{"batches": batches[i::n]} for i in range(n)], timeout=ctx.pick(200, 1500))
    for op in OPS:
        ctx.floor("op_" + op, 100)
    ctx.floor("negated", 200)
    ctx.floor("with_tolerance", 200)
    ctx.floor("indirect_goal", 200)
    ctx.floor("indirect_goal_without_field_beside_a_state_field", 30)
    ctx.floor("conjunctions", 200)
    ctx.floor("expected_true", 500)
    ctx.floor("expected_never", 500)
    for m in ("go", "let", "clone-go", "clone-let"):
        ctx.floor("mode_" + m, 300)
