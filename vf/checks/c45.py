"""C45 arbiters select outputs by their documented rules (engine C).

The real arbiter objects are built directly on a real ``Store`` (one per
class and input count) and their real ``action`` -> ``update`` runs for every
case after the harness wrote selections, importances, input value/truth and
the default share -- the same shares a FloScript ``put`` would write.

Reference = the rules of the class doc strings / the property statement,
written independently with exact rationals:

  fix(truth): None, True -> 1; False -> 0; number -> clamped to [0, 1]
  Switch    first input whose selection is truthy: its value and its *raw* truth
  Priority  among selected inputs with fix(truth) > default truth: highest importance, first on a tie;
            output = its value, fix(truth)
  Trusted   among the same candidates: highest fix(truth), then highest importance, then first
  Weighted  over selected inputs: c = sum(imp*fix(truth)) / sum(imp), v = sum(imp*fix(truth)*value) / sum(imp*fix(truth));
            output (v, c) when c > default truth; a non-number value or a zero denominator gives the default
  otherwise the default share's value and truth; never an exception.
"""
import itertools
import math
from fractions import Fraction

from vf.core import exc_key

LEVEL = "exploration"
RULE = ("exhaustive (same for every seed): for each of the 4 arbiter classes, 1 and 2 inputs over selection {True, False} x "
        "truth {None, True, False, -1, 0, 0.5, 1, 2} x importance {0, 0.5, 1} with default truth in {0, 0.25, 0.5, 1}; "
        "3 inputs over selection {True, False} x truth {None, False, 0.25, 0.5, 2} x importance {0, 0.5, 1} with default "
        "truth in {0, 0.25, 0.5} (thorough: the full truth set); thorough also 4 inputs over {True, False} x {0.25, 0.75, "
        "None} x {0.5, 1} with default truth {0, 0.5}; weighted arbiter additionally with values None / string on 1..2 "
        "inputs; seeded random 4-input cases from the full sets with other truthy/falsy selections (1, 0, 'x', '', None), "
        "importance 2 and negative / mixed values; input values are distinct dyadic numbers so the chosen input is "
        "identified by the output value; distinct = distinct (class, inputs, default truth); non-trivial = at least one "
        "input selected")
RULE = __import__("vf.core", fromlist=["rule_add"]).rule_add(RULE, 'also arbiters built from FloScript (`do` twice with class Inits, `cum` overrides, preset input selections)')
META = {"engine": "C function",
        "technique": "differential test of the real update() against a transcription of the documented rules",
        "level_text": "exploration: all combinations over the small sets named in the rule for up to 3 (quick) / 4 "
                      "(thorough) inputs, plus sampled 4-input cases over wider sets",
        "level_note": "default truth is kept inside [0, 1] (the constructor enforces that only once); importances are "
                      "non-negative as the doc string requires; weighted results compared with 1e-12 relative tolerance"}

KF_ZERO_IMP = "ArbiterPriority/only-importance-zero-inputs-qualify/outputs-default-instead-of-first-of-them"

CLASSES = ("ArbiterSwitch", "ArbiterPriority", "ArbiterTrusted", "ArbiterWeighted")
TAGS = ("a", "b", "c", "d")
VALUES = (Fraction(3), Fraction(-5, 2), Fraction(7, 4), Fraction(16))
DEFAULT_VALUE = -99.5

SETS = {
    "full": ((True, False), (None, True, False, -1, 0, 0.5, 1, 2), (0, 0.5, 1.0)),
    "mid": ((True, False), (None, False, 0.25, 0.5, 2), (0, 0.5, 1.0)),
    "small": ((True, False), (0.25, 0.75, None), (0.5, 1.0)),
}
DTS = {"full": (0.0, 0.25, 0.5, 1.0), "mid": (0.0, 0.25, 0.5), "small": (0.0, 0.5)}


def fix(truth):
    if truth is None or truth is True:
        return Fraction(1)
    if truth is False:
        return Fraction(0)
    return min(Fraction(1), max(Fraction(0), Fraction(truth)))


def is_number(v):
    return isinstance(v, (int, float, Fraction)) and not isinstance(v, bool)


def reference(cname, inputs, dt):
    """inputs: list of (sel, truth, imp, value); returns ('input', index, value, truth) | ('default',) |
    ('weighted', value, truth, ambiguous)"""
    dtf = Fraction(dt)
    if cname == "ArbiterSwitch":
        for i, (sel, truth, imp, val) in enumerate(inputs):
            if sel:
                return ("input", i, val, truth)
        return ("default",)
    cands = [(i, fix(t), Fraction(imp), v) for i, (s, t, imp, v) in enumerate(inputs) if s and fix(t) > dtf]
    if cname == "ArbiterPriority":
        if not cands:
            return ("default",)
        best = max(c[2] for c in cands)
        i, t, imp, v = [c for c in cands if c[2] == best][0]
        return ("input", i, v, t)
    if cname == "ArbiterTrusted":
        if not cands:
            return ("default",)
        bt = max(c[1] for c in cands)
        tier = [c for c in cands if c[1] == bt]
        bi = max(c[2] for c in tier)
        i, t, imp, v = [c for c in tier if c[2] == bi][0]
        return ("input", i, v, t)
    # weighted
    sel = [(fix(t), Fraction(imp), v) for (s, t, imp, v) in inputs if s]
    if any(not is_number(v) for _, _, v in sel):
        return ("default",)
    wimp = sum(imp for _, imp, _ in sel)
    wcnf = sum(imp * t for t, imp, _ in sel)
    if wimp == 0 or wcnf == 0:
        return ("default",)
    val = sum(imp * t * Fraction(v) for t, imp, v in sel) / wcnf
    cnf = wcnf / wimp
    ambiguous = cnf != dtf and float(cnf) == float(dtf)
    if cnf > dtf:
        return ("weighted", val, cnf, ambiguous)
    return ("default", ambiguous)


class Rig(object):
    def __init__(self, ctx):
        from ioflo.base import storing, arbiting
        from ioflo.aid.odicting import odict
        self.ctx = ctx
        self.store = storing.Store(stamp=0.0)
        self.arbiting = arbiting
        self.odict = odict
        self.arbs = {}

    def arbiter(self, cname, n):
        key = (cname, n)
        if key not in self.arbs:
            cls = getattr(self.arbiting, cname)
            inputs = self.odict((TAGS[i], ("vf.%s%d.in.%s" % (cname, n, TAGS[i]), False, 0.0)) for i in range(n))
            arb = cls(output="vf.%s%d.out" % (cname, n), group="vf.%s%d.grp" % (cname, n), inputs=inputs,
                      name="vf%s%d" % (cname, n), store=self.store)
            self.arbs[key] = arb
            self.ctx.hit("arbiters_built")
        return self.arbs[key]

    def one(self, cname, inputs, dt, tag, key=None):
        """inputs: list of (sel, truth, imp, value)"""
        ctx = self.ctx
        n = len(inputs)
        arb = self.arbiter(cname, n)
        for i, (sel, truth, imp, val) in enumerate(inputs):
            t = TAGS[i]
            arb.insels.update(**{t: sel})
            arb.inimps.update(**{t: imp})
            share = arb.inputs[t]
            share.value = float(val) if isinstance(val, Fraction) else val
            share.truth = truth
        arb.default.value = DEFAULT_VALUE
        arb.default.truth = dt
        arb.output.value = 12345.0          # stale marker: must be overwritten by the update
        arb.output.truth = -7.0
        desc = None

        def wit(**more):
            d = {"class": cname, "default_truth": dt, "default_value": DEFAULT_VALUE,
                 "inputs": [{"sel": repr(s), "truth": repr(t), "imp": repr(im), "value": repr(float(v) if isinstance(v, Fraction) else v)}
                            for s, t, im, v in inputs]}
            d.update(more)
            return d
        anysel = any(s for s, _, _, _ in inputs)
        ctx.case(key if key is not None else (cname, dt, [(repr(s), repr(t), repr(im), repr(v)) for s, t, im, v in inputs]),
                 nontrivial=anysel)
        try:
            arb.action()
        except Exception as e:
            ctx.fail("%s/raises/%s" % (cname, exc_key(e)), "%s.update raises %r" % (cname, e), wit())
            return
        ref = reference(cname, inputs, dt)
        ov, ot = arb.output.value, arb.output.truth
        is_default = (ov == DEFAULT_VALUE and ot == dt)
        if ref[0] == "default":
            ctx.hit(cname + "_default")
            if len(ref) > 1 and ref[1]:
                ctx.hit("weighted_threshold_ambiguous_skipped")
                return
            ctx.check(is_default, "%s/output-not-default-when-no-input-qualifies" % cname,
                      "%s does not fall back to the default output" % cname, lambda: wit(got=[repr(ov), repr(ot)]))
        elif ref[0] == "input":
            _, idx, val, truth = ref
            ctx.hit(cname + "_input")
            wantv = float(val) if isinstance(val, Fraction) else val
            if cname == "ArbiterSwitch":
                ok = (ov == wantv and type(ov) is type(wantv) and ot == truth and type(ot) is type(truth))
            else:
                ok = (ov == wantv and isinstance(ot, float) and ot == truth)
            if not ok:
                if (cname == "ArbiterPriority" and is_default and Fraction(inputs[idx][2]) == 0):
                    ctx.fail(KF_ZERO_IMP, "ArbiterPriority outputs the default although selected inputs exceed the default "
                             "truth: all of them have importance 0 and the search only accepts importance > 0",
                             wit(got=[repr(ov), repr(ot)], want_input=TAGS[idx]))
                    return
                got_idx = [TAGS[i] for i, (_, _, _, v) in enumerate(inputs)
                           if (float(v) if isinstance(v, Fraction) else v) == ov]
                ctx.fail("%s/wrong-output/%s" % (cname, "default-instead-of-input" if is_default else
                                                 ("other-input-chosen" if got_idx and got_idx[0] != TAGS[idx] else
                                                  "value-or-truth-differs")),
                         "%s output differs from the documented rule" % cname,
                         wit(got=[repr(ov), repr(ot)], want=[repr(wantv), repr(float(truth) if isinstance(truth, Fraction) else truth)],
                             want_input=TAGS[idx], got_input=got_idx))
            else:
                ctx.check(True, "agrees")
            if idx > 0:
                ctx.hit(cname + "_not_first_input")
        else:
            _, val, cnf, ambiguous = ref
            ctx.hit("ArbiterWeighted_average")
            if ambiguous:
                ctx.hit("weighted_threshold_ambiguous_skipped")
                return
            ok = (isinstance(ov, float) and isinstance(ot, float) and
                  math.isclose(ov, float(val), rel_tol=1e-12, abs_tol=1e-12) and
                  math.isclose(ot, float(cnf), rel_tol=1e-12, abs_tol=1e-12))
            ctx.check(ok, "ArbiterWeighted/wrong-output/" + ("default-instead-of-average" if is_default else "average-differs"),
                      "ArbiterWeighted output differs from the truth- and importance-weighted average",
                      lambda: wit(got=[repr(ov), repr(ot)], want=[float(val), float(cnf)]))
        # ties reached?
        if cname == "ArbiterTrusted":
            fts = [fix(t) for s, t, _, _ in inputs if s and fix(t) > Fraction(dt)]
            if fts and fts.count(max(fts)) > 1:
                ctx.hit("trusted_truth_tie")
        if cname == "ArbiterPriority":
            ims = [Fraction(im) for s, t, im, _ in inputs if s and fix(t) > Fraction(dt)]
            if ims and ims.count(max(ims)) > 1:
                ctx.hit("priority_importance_tie")


def options(setname):
    sels, truths, imps = SETS[setname]
    return [(s, t, im) for s in sels for t in truths for im in imps]


def do_exhaustive(ctx, rig, cname, n, setname, first_lo, first_hi, dts):
    opts = options(setname)
    cnt = 0
    for first in range(first_lo, first_hi):
        for rest in itertools.product(range(len(opts)), repeat=n - 1):
            combo = (first,) + rest
            inputs = [opts[k] + (VALUES[i],) for i, k in enumerate(combo)]
            code = "".join("%02x" % k for k in combo)
            for di, dt in enumerate(dts):
                rig.one(cname, inputs, dt, "exh", key="%s%d%s%d%s" % (cname[7], n, setname[0], di, code))
                cnt += 1
    ctx.hit("exhaustive_cases", cnt)
    ctx.hit("exhaustive_%s_%d" % (setname, n), cnt)


def do_weighted_values(ctx, rig):
    """weighted arbiter with non-number values on 1..2 inputs"""
    kinds = (Fraction(3), None, "text", Fraction(-5, 2))
    truths = (None, False, 0.5, 2)
    for n in (1, 2):
        per = [(s, t, im, v) for s in (True, False) for t in truths for im in (0, 1.0) for v in kinds]
        for combo in itertools.product(per, repeat=n):
            for dt in (0.0, 0.5):
                rig.one("ArbiterWeighted", list(combo), dt, "values")
                ctx.hit("weighted_value_kinds")
    # the other classes copy any value through
    for cname in CLASSES[:3]:
        for v in (None, "text", [1, 2]):
            rig.one(cname, [(True, 1.0, 1.0, v)], 0.0, "values")


def do_random(ctx, rig, count, rng):
    sels = (True, False, 1, 0, "x", "", None)
    truths = SETS["full"][1] + (0.25, 0.75, 1.5, -0.5)
    imps = (0, 0.25, 0.5, 1.0, 2, 2.0)
    vals = [Fraction(k, 4) for k in range(-40, 41)]
    for i in range(count):
        n = rng.choice((2, 3, 4, 4, 4))
        vs = rng.sample(vals, n)
        inputs = [(rng.choice(sels), rng.choice(truths), rng.choice(imps), vs[j]) for j in range(n)]
        cname = CLASSES[i % 4]
        rig.one(cname, inputs, rng.choice((0.0, 0.125, 0.25, 0.5, 0.75, 1.0)), "random")
        ctx.hit("random_cases")
        if i < 2:
            ctx.sample({"class": cname, "inputs": [[repr(x) for x in inp[:3]] + [float(inp[3])] for inp in inputs],
                        "reference": repr(reference(cname, inputs, 0.25))[:120]})


FLO_TAGS = ("one", "two", "three")
FLO_VALUES = {"one": 1.0, "two": 2.0, "three": 3.0}


def flo_arbiter_class():
    """a switch arbiter declared the documented way -- a subclass whose class level Inits name its output share, its group
    and its inputs (every input initially selected) --, used in scripts as `do vf arbiter switch heading`"""
    from ioflo.base import arbiting, doing
    from ioflo.aid.odicting import odict
    if "VfArbiterSwitchHeading" not in doing.Doer.Registry:
        class VfArbiterSwitchHeading(arbiting.ArbiterSwitch):
            Inits = odict(output=".heading.out", group=".arb.heading",
                          inputs=odict((t, (".in.%s" % t, True, 0.5)) for t in FLO_TAGS))
    return "vf arbiter switch heading"


def flo_case(rng):
    """two instances of the arbiter in one script, each with its own group of selections: one plain (class Inits), one
    with its output and group named by a `cum` clause (or both with clauses); the groups' selections are partly set by
    the script before the arbiters are built -- also to deselected -- and otherwise come from the initial values"""
    insts = [{"out": ".heading.out", "grp": ".arb.heading", "cum": False},
             {"out": ".alt.out", "grp": ".arb.alt", "cum": True}]
    if rng.random() < 0.3:
        insts[0] = {"out": ".third.out", "grp": ".arb.third", "cum": True}
    if rng.random() < 0.5:
        insts.reverse()
    L = ["house h", ""] + ["init .in.%s to value %s" % (t, FLO_VALUES[t]) for t in FLO_TAGS]
    for it in insts:
        preset = {t: rng.choice([False, False, True]) for t in FLO_TAGS if rng.random() < 0.6}
        it["sel"] = {t: preset.get(t, True) for t in FLO_TAGS}
        if preset:
            L.append("init %s.insels to %s" % (it["grp"], " ".join("%s %s" % (t, v) for t, v in preset.items())))
    L += ["", "framer runner be active first fa", ""]
    for k, it in enumerate(insts):
        L += ["frame f%s" % "ab"[k],
              "  do vf arbiter switch heading" + (' cum output "%s" group "%s"' % (it["out"], it["grp"]) if it["cum"] else ""),
              "  go next if elapsed >= 0.25", ""]
    L += ["frame done", "  bid stop all", ""]
    return {"text": "\n".join(L), "insts": insts}


def flo_check(ctx, rng):
    from vf.flo import runner
    flo_arbiter_class()
    case = flo_case(rng)
    res = runner.run_text(case["text"], maxticks=20, proxies=False, behaviors=["vf.flo.recorder"])
    if not res.built:
        ctx.inconclusive_case("arbiter script did not build: %s" % (res.build_msgs[-2:],))
        return
    ctx.case(case["text"], nontrivial=True)
    if res.exc is not None:
        ctx.fail("flo/run-raised/%s" % exc_key(res.exc), "running the arbiter script raised %r" % (res.exc,), {"script": case["text"]})
        return
    store = res.skedder.houses[0].store
    for it in case["insts"]:
        ctx.hit("script_arbiters_checked")
        first = next((t for t in FLO_TAGS if it["sel"][t]), None)
        if first is not None and first != "one":
            ctx.hit("script_arbiter_first_input_deselected_by_the_script")
        sh = store.fetchShare(it["out"])
        got = sh.value if sh is not None else "<no output share>"
        if first is None:
            ok = sh is not None and got not in FLO_VALUES.values()        # the default output, whatever it holds
        else:
            ok = got == FLO_VALUES[first]
        ctx.check(ok, "ArbiterSwitch/script/" + ("wrong-output" if sh is not None else "output-share-never-written"),
                  "`do vf arbiter switch heading%s`: output %s holds %r, the first selected input of its group %s is %s" % (
                      " cum ..." if it["cum"] else "", it["out"], got, it["grp"], first),
                  lambda: {"script": case["text"], "instance": it, "output": repr(got),
                           "insels": dict((store.fetchShare(it["grp"] + ".insels") or {}).items()) if store.fetchShare(it["grp"] + ".insels") is not None else None})


def worker(ctx, job):
    if job["kind"] == "flo":
        rng = ctx.subrng("c45flo", job["index"])
        for _ in range(job["count"]):
            flo_check(ctx, rng)
        return
    rig = Rig(ctx)
    if job["kind"] == "exh":
        do_exhaustive(ctx, rig, job["cls"], job["n"], job["set"], job["lo"], job["hi"], DTS[job["set"]])
    elif job["kind"] == "values":
        do_weighted_values(ctx, rig)
    else:
        do_random(ctx, rig, job["count"], ctx.subrng("c45", job["index"]))


def run(ctx):
    jobs = []
    expected = 0
    plan = [(1, "full", 1), (2, "full", 1), (3, "mid" if ctx.quick else "full", 3 if ctx.quick else 12)]
    if not ctx.quick:
        plan.append((4, "small", 3))
    for n, setname, split in plan:
        k = len(options(setname))
        bounds = [round(j * k / split) for j in range(split + 1)]
        for cname in CLASSES:
            for j in range(split):
                jobs.append({"kind": "exh", "cls": cname, "n": n, "set": setname, "lo": bounds[j], "hi": bounds[j + 1]})
            expected += (k ** n) * len(DTS[setname])
    jobs.append({"kind": "values"})
    nrand = ctx.pick(20000, 1600000)
    per = ctx.pick(5000, 25000)
    jobs += [{"kind": "random", "count": per} for _ in range(nrand // per)]
    jobs += [{"kind": "flo", "count": ctx.pick(40, 800)} for _ in range(4)]
    ctx.floor("script_arbiters_checked", ctx.pick(300, 6000))
    ctx.floor("script_arbiter_first_input_deselected_by_the_script", ctx.pick(40, 800))
    jobs.sort(key=lambda j: -(j.get("n", 0)))
    ctx.shard(jobs, timeout=ctx.pick(90, 1500))
    ctx.exhaustive = True
    ctx.extra["exhaustive_scope"] = "the per-input option sets named in the rule for 1..%d inputs" % (3 if ctx.quick else 4)
    ctx.floor("exhaustive_cases", expected)
    ctx.floor("random_cases", nrand // 3)
    ctx.floor("weighted_value_kinds", 2000)
    ctx.floor("trusted_truth_tie", 1000)
    ctx.floor("priority_importance_tie", 1000)
    for c in CLASSES[:3]:
        ctx.floor(c + "_input", expected // 40)
        ctx.floor(c + "_default", expected // 40)
        ctx.floor(c + "_not_first_input", expected // 100)
    ctx.floor("ArbiterWeighted_average", expected // 40)
    ctx.floor("ArbiterWeighted_default", expected // 40)
