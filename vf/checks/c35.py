"""C35 datagram stacks send each destination's packets once, in queue order (engine D).

``GramStack`` (on a handler double) and ``UdpStack`` (on the real
``SocketUdpNb`` whose ``.ss`` is a socket double) get a queue of uniquely
tagged packets over up to three destinations.  In every service pass each
destination is healthy, or fails transiently (ECONNREFUSED / EHOSTUNREACH ...)
either from its n-th send of that pass on, or only at its n-th send (later
sends of the pass would be accepted again: an implementation that does not
stop sending to that destination for the rest of the pass reorders).

Oracle per pass, from the statement alone: for every destination the packets
accepted in this pass are exactly the first n pending packets of that
destination in queue order (n = all of them for a healthy destination, the
number of sends before its first failure otherwise).  That is "once each",
"queue order per destination" and "a failing destination never blocks or
reorders the others" in one comparison; nothing is said about the order
*between* destinations, and none is required.
"""
import errno
import itertools

from vf.core import exc_key
from vf.iodoubles import FULL, ERR, ERR1, FakeSocket, FakeUdpHandler

LEVEL = "fault_enumeration"
RULE = ("every queue of 1..N uniquely tagged packets over <= 3 destinations (up to renaming of destinations) x every "
        "assignment of a state to each destination in each of two passes, then healthy passes until drained (quick N=5, "
        "pass 0 {healthy, only 1st send fails, only 2nd send fails}, pass 1 {healthy, only 1st send fails, fails from "
        "1st send on}; thorough N=6, pass 0 additionally {fails from 1st / 2nd send on}); service by serviceTxPkts, "
        "and one-packet-at-a-time by serviceTxPktsOnce (every 5th case); on GramStack with a handler double "
        "(complete) and UdpStack on the real SocketUdpNb over a socket double (every 3rd case); plus packets queued "
        "between passes (seeded random); distinct = distinct (class, mode, queue, failure pattern); non-trivial = "
        "at least one send failed while another packet was pending")
RULE = __import__("vf.core", fromlist=["rule_add"]).rule_add(RULE, 'also packets built in a scratch buffer that is overwritten after queueing, and a txPkts deque supplied by the caller, transient errors built from the number alone, a stack closed by its owner with packets queued and serviced while closed')
META = {"engine": "D I/O doubles", "technique": "fault enumeration on a datagram handler double; per-pass per-destination prefix oracle",
        "level_text": "the space of small queues and per-pass failure patterns is enumerated completely",
        "level_note": "transient failure = the errno set GramStack documents; failures are per destination and pass"}

DESTS = [("127.0.0.1", 7301), ("127.0.0.1", 7302), ("127.0.0.1", 7303)]
ERRNOS = (errno.ECONNREFUSED, errno.EHOSTUNREACH, errno.ENETUNREACH, errno.ETIMEDOUT)
# state of one destination during one pass
HEALTHY = 9              # accepts everything
FAIL0, FAIL1 = 0, 1      # accepts n sends, every later send of the pass fails
BLIP0, BLIP1 = 10, 11    # only the (n+1)-th send of the pass fails; an implementation that keeps sending to the
                         # destination in the same pass would get later packets through, out of order


def allowed(state):
    """how many of the destination's pending packets the statement lets through in such a pass"""
    return 99 if state == HEALTHY else state % 10


def queues(maxn, maxd=3):
    """destination index sequences, canonical under renaming (restricted growth strings)"""
    def rec(prefix, used):
        if prefix:
            yield tuple(prefix)
        if len(prefix) == maxn:
            return
        for d in range(min(used + 1, maxd)):
            prefix.append(d)
            for q in rec(prefix, max(used, d + 1)):
                yield q
            prefix.pop()
    return rec([], 0)


class Harness(object):
    def __init__(self, kind, own=False):
        """own: the application supplies the transmit queue (`txPkts=`) and keeps working through its own reference to it"""
        import collections
        from ioflo.aio.proto import stacking
        from ioflo.aio.udp import udping
        self.kind = kind
        self.own = collections.deque() if own else None
        kwq = {"txPkts": self.own} if own else {}
        self.state = {}          # dest -> state in this pass
        self.count = {}          # dest -> sends attempted in this pass
        self.code = errno.ECONNREFUSED
        self.attempts = []       # (pass, tag, dest, accepted?)
        self.npass = 0
        if kind == "GramStack":
            self.dbl = FakeUdpHandler(decide=self.decide)
            self.stack = stacking.GramStack(handler=self.dbl, name="g", **kwq)
        else:
            h = udping.SocketUdpNb(ha=("127.0.0.1", 0))
            self.stack = stacking.UdpStack(handler=h, name="u", ha=("127.0.0.1", 0), **kwq)
            h.ss.close()
            self.dbl = FakeSocket(sockname=h.ha)
            self.dbl.decide_sendto = self.decide
            h.ss = self.dbl          # documented attribute: the datagram socket

    def decide(self, data, da):
        st = self.state.get(da, HEALTHY)
        i = self.count.get(da, 0)
        self.count[da] = i + 1
        ok = st == HEALTHY or (i < st if st < 9 else i != st - 10)
        if ok:
            self.attempts.append((self.npass, data, da, True))
            return FULL
        self.attempts.append((self.npass, data, da, False))
        return ERR1(self.code) if getattr(self, "bare", False) else ERR(self.code)

    def close(self):
        self.stack.close()


def tag(i, d):
    return b"pkt-%02d-to-%d" % (i, d)


def run_case(ctx, kind, mode, queue, pattern, later=None, code=errno.ECONNREFUSED, empty=None, own=False):
    """pattern: tuple per pass of a state per destination (HEALTHY, FAILn, BLIPn);
    later: optional {pass index: [dest, ...]} packets queued just before that pass"""
    from ioflo.aio.proto import packeting
    H = Harness(kind, own=own)
    H.code = code
    import zlib
    if zlib.crc32(repr((kind, mode, queue, pattern, later)).encode()) % 4 == 0:
        H.bare = True           # the error comes as socket.error(number): the number is args[0], .errno is not set
        ctx.hit("cases_with_errors_built_from_the_number_alone")
    if own:
        ctx.hit("cases_with_the_callers_own_queue")
    st = H.stack
    pending = {d: [] for d in range(3)}     # model: per destination, tags not yet accepted, queue order
    n_tag = [0]
    allq = []
    scratch = bytearray()

    def enqueue(d):
        t = tag(n_tag[0], d)
        if n_tag[0] == empty:
            t = b""          # a packet without payload (a heartbeat): the socket accepts it and reports 0 bytes sent
            ctx.hit("empty_payload_packets")
        n_tag[0] += 1
        if n_tag[0] % 3 == 1:
            # built in the application's scratch buffer, which it overwrites as soon as the packet is queued
            scratch[:] = t
            pkt = packeting.Packet(stack=st, packed=scratch)
            st.transmit(pkt, DESTS[d])
            scratch[:] = b"#" * len(t)
            ctx.hit("packets_built_in_a_reused_buffer")
        elif own and n_tag[0] % 2 == 0:
            # ... queued by the application through its own reference to the queue it supplied
            pkt = packeting.Packet(stack=st, packed=t)
            pkt.pack()
            H.own.append((pkt, DESTS[d]))
            ctx.hit("packets_appended_to_the_callers_own_queue")
        else:
            st.transmit(packeting.Packet(stack=st, packed=t), DESTS[d])
        pending[d].append(t)
        allq.append((t, d))

    for d in queue:
        enqueue(d)
    ndest = max(queue) + 1
    failed_any = False
    passes = []

    def wit(extra=None):
        def f():
            w = {"class": kind, "service": mode, "queue": ["%s->%d" % (t.decode(), d) for t, d in allq],
                 "failure_pattern_per_pass": [list(p) for p in pattern], "errno": errno.errorcode[code],
                 "passes": passes[-6:],
                 "left_in_txPkts": ["%s->%s" % (bytes(p.packed).decode(), DESTS.index(ha)) for p, ha in st.txPkts]}
            if extra:
                w.update(extra)
            return w
        return f

    try:
        cap = len(pattern) + (len(queue) + 8 if mode == "once" else 3) + (max(later) + 1 if later else 0)
        p = 0
        while p < cap:
            if later and p in later:
                for d in later[p]:
                    enqueue(d)
                    ndest = max(ndest, d + 1)
            if not any(pending.values()) and not (later and any(k > p for k in later)):
                break
            states = pattern[p] if p < len(pattern) else (HEALTHY,) * 3
            H.state = {DESTS[d]: states[d] for d in range(3)}
            H.count = {}
            H.npass = p
            mark = len(H.attempts)
            raised = None
            try:
                if mode == "once":
                    st.serviceTxPktsOnce()
                else:
                    st.serviceTxPkts()
            except Exception as ex:   # noqa
                raised = ex
            att = H.attempts[mark:]
            ctx.event(len(att))
            got = {d: [t for (_, t, da, ok) in att if ok and da == DESTS[d]] for d in range(3)}
            passes.append({"pass": p, "states": list(states),
                           "attempts": ["%s%s" % (t.decode(), "" if ok else " FAILED") for (_, t, da, ok) in att]})
            if any(not ok for (_, _, _, ok) in att):
                ctx.hit("failed_sends")
                if sum(len(v) for v in pending.values()) > 1:
                    failed_any = True
            if raised is not None:
                ctx.fail("%s/%s/raises/%s" % (kind, mode, exc_key(raised)),
                         "%s.%s raised %r" % (kind, "serviceTxPktsOnce" if mode == "once" else "serviceTxPkts", raised),
                         wit({"raised": repr(raised)}))
                return
            if mode == "once":
                # one packet per call: the head of the queue is tried; if it is accepted it must be the
                # oldest pending packet of its destination; nothing is accepted twice or out of order
                for d in range(3):
                    if got[d]:
                        if not ctx.check(got[d] == pending[d][:len(got[d])],
                                         "%s/once/same-destination-out-of-order" % kind,
                                         "%s.serviceTxPktsOnce: a packet was sent before an older packet to the same "
                                         "destination (or sent twice)" % kind,
                                         wit({"destination": d, "accepted": [t.decode() for t in got[d]],
                                              "pending_in_queue_order": [t.decode() for t in pending[d]]})):
                            return
                        del pending[d][:len(got[d])]
            else:
                for d in range(3):
                    exp = pending[d][:allowed(states[d])]
                    if got[d] != exp:
                        others_failed = any(states[e] != HEALTHY and pending[e] for e in range(3) if e != d)
                        if sorted(got[d]) == sorted(exp):
                            k = "same-destination-out-of-order"
                        elif len(got[d]) < len(exp) and got[d] == exp[:len(got[d])]:
                            k = "blocked-by-another-destination" if others_failed else "pending-packet-not-sent"
                        else:
                            k = "wrong-packets-sent"
                        ctx.fail("%s/pass/%s" % (kind, k),
                                 "%s.serviceTxPkts: in one pass destination %d got %s, the statement requires %s"
                                 % (kind, d, [t.decode() for t in got[d]], [t.decode() for t in exp]),
                                 wit({"destination": d}))
                        return
                    ctx.check(True, "ok")
                    del pending[d][:len(exp)]
            p += 1
        left = sum(len(v) for v in pending.values())
        ctx.check(left == 0 and not st.txPkts, "%s/%s/not-drained" % (kind, mode),
                  "%s: packets are still unsent after the failures stopped and enough healthy passes ran" % kind, wit())
        acc = [t for (_, t, _, ok) in H.attempts if ok]
        ctx.check(sorted(acc) == sorted(t for t, _ in allq), "%s/%s/not-exactly-once" % (kind, mode),
                  "%s: accepted datagrams are not the queued packets once each" % kind,
                  wit({"accepted": [t.decode() for t in acc]}))
    finally:
        ctx.case((kind, mode, queue, pattern, sorted(later.items()) if later else None, code, empty, own), nontrivial=failed_any)
        if failed_any:
            ctx.hit("failure_with_others_pending")
        H.close()


def patterns(alphabets):
    """all per-pass assignments; alphabets = states allowed in pass 0, 1, ..."""
    return itertools.product(*[list(itertools.product(a, repeat=3)) for a in alphabets])


def canonical_pattern(pattern, ndest):
    """destinations not in the queue are irrelevant: force them HEALTHY so that equal cases are not repeated"""
    return tuple(tuple(s if d < ndest else HEALTHY for d, s in enumerate(p)) for p in pattern)


def closed_stack_case(ctx, queue, first):
    """the owner closes the stack with packets still queued and its service loop keeps running for a while (every transmit
    service entry point is called on the closed stack), then opens it again: nothing is handed to the closed handler,
    nothing raises, and after the reopen every packet is sent once, in order per destination"""
    from ioflo.aio.proto import packeting
    H = Harness("GramStack")
    st = H.stack
    st.handler.open()
    tags = []
    for i, d in enumerate(queue):
        t = tag(i, d)
        st.transmit(packeting.Packet(stack=st, packed=t), DESTS[d])
        tags.append((t, d))
    ctx.case(("closed-stack", tuple(queue), first), nontrivial=True)
    ctx.hit("closed_stack_cases")
    raised = None
    during = []
    try:
        H.state, H.count, H.npass = {}, {}, 0
        for _ in range(first):
            st.serviceTxPktsOnce()
        before = len(H.attempts)
        st.handler.close()
        for name in ("serviceTxPktsOnce", "serviceTxPkts", "serviceAllTxOnce", "serviceAllTx", "serviceTxPktsOnce"):
            H.npass += 1
            getattr(st, name)()
            during.append((name, len(H.attempts) - before))
        after_closed = len(H.attempts)
        st.handler.open()
        for _ in range(len(queue) + 2):
            H.npass += 1
            st.serviceTxPkts()
    except Exception as ex:    # noqa
        raised = ex
        after_closed = len(H.attempts)
    sent = [(t, DESTS.index(da)) for (_, t, da, ok) in H.attempts if ok]
    w = lambda: {"queue": ["%s->%d" % (t.decode(), d) for t, d in tags], "sent_before_close": first, "raised": repr(raised),
                 "send_attempts_while_closed": during, "sent": ["%s->%d" % (t.decode(), d) for t, d in sent],
                 "left_in_txPkts": [bytes(p.packed).decode() for p, ha in st.txPkts]}
    ctx.check(raised is None, "GramStack/closed/raises/%s" % (exc_key(raised) if raised is not None else ""),
              "a transmit service call on a closed stack (or after its reopen) raised %r" % (raised,), w)
    ctx.check(after_closed == before if raised is None else True, "GramStack/closed/packet-handed-to-a-closed-handler",
              "a transmit service call on a closed stack took a packet from the queue and tried to send it", w)
    if raised is None:
        ok = sorted(sent) == sorted(tags) and all([t for t, d in sent if d == dd] == [t for t, d in tags if d == dd] for dd in range(3))
        ctx.check(ok, "GramStack/closed/not-sent-exactly-once-in-order-after-reopen",
                  "after a close with packets queued and a reopen the packets were not each sent once, in order per destination", w)


def worker(ctx, job):
    if job["k"] == 0:
        for queue in queues(min(job["N"], 4)):
            for first in range(0, min(3, len(queue))):
                closed_stack_case(ctx, queue, first)
    N, alphabets = job["N"], job["alphabets"]
    K, k = job["K"], job["k"]
    i = 0
    done = 0
    for queue in queues(N):
        ndest = max(queue) + 1
        seen = set()
        for pattern in patterns(alphabets):
            cp = canonical_pattern(pattern, ndest)
            if cp in seen:
                continue
            seen.add(cp)
            i += 1
            if i % K != k:
                continue
            run_case(ctx, "GramStack", "all", queue, cp)
            done += 1
            if done % 3 == 0:
                run_case(ctx, "UdpStack", "all", queue, cp, code=ERRNOS[done % len(ERRNOS)])
            if done % 5 == 0:
                run_case(ctx, "GramStack", "once", queue, cp)
            if done % 7 == 0:
                run_case(ctx, "GramStack" if done % 2 else "UdpStack", "all" if done % 3 else "once", queue, cp, empty=done % len(queue))
    rng = ctx.subrng("c35", k)
    for r in range(job["R"]):
        n = rng.randint(2, 10)
        queue = [0]
        for _ in range(n - 1):
            queue.append(rng.randint(0, min(2, max(queue) + 1)))
        pattern = tuple(tuple(rng.choice((HEALTHY, HEALTHY, FAIL0, FAIL1, 2, 3, BLIP0, BLIP1, 12)) for _ in range(3))
                        for _ in range(rng.randint(1, 5)))
        later = {}
        for _ in range(rng.randint(0, 3)):
            later.setdefault(rng.randint(1, 4), []).append(rng.randint(0, 2))
        kind = rng.choice(("GramStack", "UdpStack"))
        run_case(ctx, kind, rng.choice(("all", "all", "once")), tuple(queue), pattern, later=later or None,
                 code=rng.choice(ERRNOS), empty=rng.randrange(len(queue)) if rng.random() < 0.2 else None)
        ctx.hit("random_cases")
        if later and r % 2 == 0:
            run_case(ctx, kind, "all", tuple(queue), pattern, later=later, code=errno.ECONNREFUSED, own=True)
        if r == 0 and k == 0:
            ctx.sample({"class": kind, "queue_destinations": queue, "failure_pattern_per_pass": [list(p) for p in pattern],
                        "queued_later": {str(a): b for a, b in later.items()}})


def run(ctx):
    ctx.floor("packets_built_in_a_reused_buffer", 1000)
    ctx.floor("packets_appended_to_the_callers_own_queue", ctx.pick(100, 5000))
    N = ctx.pick(5, 6)
    alphabets = ctx.pick([[HEALTHY, BLIP0, BLIP1], [HEALTHY, BLIP0, FAIL0]],
                         [[HEALTHY, BLIP0, BLIP1, FAIL0, FAIL1], [HEALTHY, BLIP0, FAIL0]])
    K = ctx.pick(8, 16)
    jobs = [{"N": N, "alphabets": alphabets, "K": K, "k": k, "R": ctx.pick(60, 6000)} for k in range(K)]
    ctx.shard(jobs, timeout=ctx.pick(120, 1500))
    ctx.extra["bounds"] = {"max_packets": N, "states_per_destination_in_pass_0_and_1": alphabets,
                           "state_legend": {"9": "healthy", "0": "fails from 1st send", "1": "fails from 2nd send",
                                            "10": "only 1st send fails", "11": "only 2nd send fails"}}
    ctx.sample({"queue": "A0 A1 B2 A3", "pattern": "pass 0: A fails from its first send", "required": "pass 0 sends B2; pass 1 sends A0 A1 A3 in that order"})
    ctx.floor("failure_with_others_pending", ctx.pick(10000, 300000))
    ctx.floor("failed_sends", ctx.pick(15000, 500000))
    ctx.floor("random_cases", ctx.pick(150, 8000))
    ctx.floor("empty_payload_packets", ctx.pick(500, 20000))
    ctx.floor("distinct_nontrivial", ctx.pick(10000, 300000))
