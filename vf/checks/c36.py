"""C36 stream stacks deliver every queued packet to the peer intact (engine D).

(1) Loopback: one ``TcpServerStack`` and 1..3 ``TcpClientStack`` on real
    127.0.0.1 sockets (ephemeral ports), uniquely tagged packets of 1 byte to
    several hundred kilobytes in both directions, seeded random interleavings
    of the stacks' service calls and of their parts.  Handlers are real
    ``Server`` / ``Client`` objects passed through ``handler=`` with a recording
    wire log, received-packet queues are recording deques passed through
    ``rxPkts=``.
(2) Doubles: the same stacks over socket doubles with scripted partial sends
    and received chunks (every short script).

Oracle, per connection and direction, all from the statement:
    bytes that reached the peer's socket == concatenation of the packets
    queued for it, in queue order (prefix while running, equal once a bounded
    number of further service rounds ran);
    concatenation of the packets the receiving stack queued as received ==
    the bytes its socket received on that connection (each byte in exactly one
    packet, in order).
"""
import time as time_mod
import random as random_mod
import itertools

from vf.core import exc_key, Inconclusive
from vf.iodoubles import (FULL, PARTIAL, ZERO, DATA, CONN, WOULDBLOCK, FakeSocket, RecWireLog, RecDeque, Loop, clock,
                          enum_send_scripts, item_name, UniqueBytes)

LEVEL = "exploration"
RULE = ("loopback: 1..3 TcpClientStack connected to one TcpServerStack on ephemeral 127.0.0.1 ports; 4..40 packets per "
        "direction and connection with unique ids, lengths 1 B..64 B mixed with 20 kB..300 kB (socket buffers 4..16 kB so "
        "that sends are partial); 100..600 randomly interleaved calls of serviceConnects / serviceReceivesAllIx / "
        "serviceReceives(Once) / serviceTxPkts(Once) / serviceTxesAllIx / serviceAll / transmit, then bounded rounds "
        "of serviceAll; doubles: every queue of 1..3 packets of 1..3 bytes x every send-result script up to 4 (thorough "
        "5) calls on the client stack, scripted partial sends and chunked receives on the server stack; distinct = "
        "distinct (topology, packet lengths, schedule); non-trivial = bytes were carried in both directions and at "
        "least one send was partial (loopback) / the script has a non-full result (doubles)")
RULE = __import__("vf.core", fromlist=["rule_add"]).rule_add(RULE, "also packets built in a reused scratch buffer, packets of 0 bytes, one Packet object queued for several peers, a client's last packets then its close (farewell), the server's last packets then its close met by the client in one pass, a second life of the client stack after reopen, and packets queued behind one for a peer that has left (verdict where the stack hands the bytes to the socket)")
META = {"engine": "D loopback + doubles", "technique": "byte and packet conservation per connection with unique packet ids",
        "level_text": "generated schedules over real loopback sockets plus enumerated partial-send scripts on doubles",
        "level_note": "loopback TCP delivers what was accepted; only the executions produced are covered"}

from vf import net
HOST = net.host()       # a loopback address of this process alone (see vf/net.py)


def body(pid, n):
    """n unique-looking bytes for packet pid: header with the id, then a pattern that depends on id and offset"""
    head = b"<%05d:%07d>" % (pid, n)
    if n == 0:
        return b""
    if n <= len(head):
        return (b"%05d" % pid)[-n:] if n < 5 else head[:n]
    # printable ASCII only: the base stacks turn a received packet into a message with .decode('ascii')
    fill = bytes(33 + ((pid * 7 + i * 3) % 89) for i in range(min(n - len(head), 509)))
    reps = (n - len(head)) // len(fill) + 1
    return head + (fill * reps)[:n - len(head)]


def first_diff(a, b):
    n = min(len(a), len(b))
    for i in range(n):
        if a[i] != b[i]:
            return i
    return n


def cmp_wit(name_a, a, name_b, b):
    i = first_diff(a, b)
    return {"len_" + name_a: len(a), "len_" + name_b: len(b), "first_difference_at": i,
            name_a + "_there": bytes(a[max(0, i - 8):i + 24]).hex(), name_b + "_there": bytes(b[max(0, i - 8):i + 24]).hex()}


class Net(object):
    """one server stack + n client stacks over loopback"""

    def __init__(self, nclients, sbuf, cbuf):
        from ioflo.aio.proto import stacking
        from ioflo.aio.tcp import serving, clienting
        self.clk = clock()
        self.swl = RecWireLog()
        sh = serving.Server(ha=(HOST, 0), bufsize=sbuf, wlog=self.swl, store=self.clk, timeout=0.0)
        self.server = stacking.TcpServerStack(handler=sh, stamper=self.clk, rxPkts=RecDeque(), name="server",
                                              ha=(HOST, 0))
        self.clients = []
        self.cwl = []
        for i in range(nclients):
            wl = RecWireLog()
            ch = clienting.Client(ha=self.server.aha, bufsize=cbuf, wlog=wl, store=self.clk, timeout=0.0)
            c = stacking.TcpClientStack(handler=ch, stamper=self.clk, rxPkts=RecDeque(), name="client%d" % i,
                                        ha=self.server.aha)
            self.clients.append(c)
            self.cwl.append(wl)
        self.to_server = [[] for _ in range(nclients)]   # packets queued on client i
        self.to_client = [[] for _ in range(nclients)]   # packets queued on the server for client i
        self.pid = 0

    def close(self):
        for c in self.clients:
            try:
                c.close()
            except Exception:   # noqa
                pass
        try:
            self.server.handler.closeAll()
        except Exception:   # noqa
            pass

    def ca(self, i):
        ca = self.clients[i].handler.ca
        return ca if self.clients[i].handler.connected and ca in self.server.handler.ixes else None

    def all_connected(self):
        return all(self.ca(i) is not None for i in range(len(self.clients)))

    def packet(self, stack, data):
        """every third packet is built in the application's scratch buffer, which is overwritten as soon as the packet is
        queued (before the stack is serviced): a queued packet is what it was when it was queued"""
        from ioflo.aio.proto import packeting
        if self.pid % 3 == 1:
            if not hasattr(self, "scratch"):
                self.scratch = bytearray()
            self.scratch[:] = data
            pkt = packeting.Packet(stack=stack, packed=self.scratch)
            self.nscratch = getattr(self, "nscratch", 0) + 1
            self.clobber = True
            return pkt
        return packeting.Packet(stack=stack, packed=data)

    def clobber_scratch(self):
        if getattr(self, "clobber", False):
            self.scratch[:] = b"#" * len(self.scratch)
            self.clobber = False

    def queue_up(self, i, n):
        from ioflo.aio.proto import packeting
        self.pid += 1
        data = body(self.pid, n)
        c = self.clients[i]
        c.transmit(self.packet(c, data))
        self.clobber_scratch()
        self.to_server[i].append(data)

    def queue_down(self, i, n):
        from ioflo.aio.proto import packeting
        ca = self.ca(i)
        if ca is None:
            return
        self.pid += 1
        data = body(self.pid, n)
        self.server.transmit(self.packet(self.server, data), ca)
        self.clobber_scratch()
        self.to_client[i].append(data)

    def broadcast(self, n, again):
        """one Packet object queued for every connected client (and, with `again`, a second time for the first of them)"""
        from ioflo.aio.proto import packeting
        targets = [i for i in range(len(self.clients)) if self.ca(i) is not None]
        if not targets:
            return 0
        self.pid += 1
        data = body(self.pid, n)
        pkt = packeting.Packet(stack=self.server, packed=data)
        for i in targets + (targets[:1] if again else []):
            self.server.transmit(pkt, self.ca(i))
            self.to_client[i].append(data)
        return len(targets) + (1 if again else 0)

    # --- what the monitors read
    def views(self, i):
        ca = self.clients[i].handler.ca
        up_q = b"".join(self.to_server[i])
        up_wire = b"".join(d for a, d in self.swl.rx if a == ca)
        up_pkts = b"".join(bytes(p.packed) for p, a in self.server.rxPkts.seen if a == ca)
        dn_q = b"".join(self.to_client[i])
        dn_wire = self.cwl[i].rxbytes
        dn_pkts = b"".join(bytes(p.packed) for p in self.clients[i].rxPkts.seen)
        return up_q, up_wire, up_pkts, dn_q, dn_wire, dn_pkts


def check_net(ctx, net, wit, final):
    ok = True
    for i in range(len(net.clients)):
        up_q, up_wire, up_pkts, dn_q, dn_wire, dn_pkts = net.views(i)
        for d, q, wire, pkts, tx, rx in (("client-to-server", up_q, up_wire, up_pkts, "TcpClientStack", "TcpServerStack"),
                                         ("server-to-client", dn_q, dn_wire, dn_pkts, "TcpServerStack", "TcpClientStack")):
            ok &= ctx.check(q.startswith(wire), "%s/tx/peer-received-bytes-not-queued-packets-in-order" % tx,
                            "%s: the bytes that reached the peer are not the queued packets byte-for-byte in queue order" % tx,
                            lambda: dict(wit(), direction=d, client=i, **cmp_wit("queued", q, "peer_received", wire)))
            ok &= ctx.check(wire.startswith(pkts), "%s/rx/received-packets-not-received-bytes-in-order" % rx,
                            "%s: the received packets are not the received bytes, once each, in order" % rx,
                            lambda: dict(wit(), direction=d, client=i, **cmp_wit("socket_received", wire, "packets", pkts)))
            if final:
                ok &= ctx.check(wire == q, "%s/tx/queued-packet-not-delivered" % tx,
                                "%s: queued packets did not completely reach the connected peer within the service bound" % tx,
                                lambda: dict(wit(), direction=d, client=i, **cmp_wit("queued", q, "peer_received", wire)))
                ok &= ctx.check(pkts == wire, "%s/rx/received-bytes-not-in-a-packet" % rx,
                                "%s: bytes received on the connection were not delivered in a received packet" % rx,
                                lambda: dict(wit(), direction=d, client=i, **cmp_wit("socket_received", wire, "packets", pkts)))
    return ok


def loopback_case(ctx, rng, idx):
    nclients = rng.choice((1, 1, 2, 3))
    sbuf = rng.choice((4096, 8096, 16192))
    cbuf = rng.choice((4096, 8096, 16192))
    big = rng.random() < 0.7
    try:
        net = Net(nclients, sbuf, cbuf)
    except Exception as ex:   # noqa
        ctx.fail("setup/raises/%s" % exc_key(ex), "constructing the stacks raised %r" % (ex,), {"raised": repr(ex)})
        return
    loop = Loop(net.clk, wall_limit=30.0, pace=0.0002)
    s = net.server
    desc = {"clients": nclients, "server_bufsize": sbuf, "client_bufsize": cbuf}
    sizes = []
    partial = {"client": 0, "server": 0}

    def wit():
        return dict(desc, packet_lengths=sizes[:60], service_calls=loop.calls, last_calls=loop.tail(30))

    def size():
        r = rng.random()
        if big and r < 0.06:
            n = rng.randint(20000, 300000)
        elif r < 0.5:
            n = rng.randint(1, 12)
            if r >= 0.47:
                n = 0               # a packet without any bytes: nothing to deliver, and nothing to hold up what follows it
                ctx.hit("empty_packets_queued")
        else:
            n = rng.randint(13, 64)
        sizes.append(n)
        return n

    def c_tx(c):
        def f():
            c.serviceTxPkts()
            if c.txbs:
                partial["client"] += 1
        return f

    def s_txes():
        s.handler.serviceTxesAllIx()
        if any(ix.txes for ix in s.handler.ixes.values()):
            partial["server"] += 1

    loop.add("S.serviceConnects", s.serviceConnects, 3)
    loop.add("S.handler.serviceReceivesAllIx", s.handler.serviceReceivesAllIx, 3)
    loop.add("S.serviceReceives", s.serviceReceives, 3)
    loop.add("S.serviceReceivesOnce", s.serviceReceivesOnce, 1)
    loop.add("S.serviceRxPkts", s.serviceRxPkts, 1)
    loop.add("S.serviceTxPkts", s.serviceTxPkts, 3)
    loop.add("S.serviceTxPktsOnce", s.serviceTxPktsOnce, 1)
    loop.add("S.handler.serviceTxesAllIx", s_txes, 3)
    loop.add("S.serviceAll", s.serviceAll, 2)
    for i, c in enumerate(net.clients):
        loop.add("C%d.serviceConnect" % i, c.serviceConnect, 2)
        loop.add("C%d.serviceReceives" % i, c.serviceReceives, 3)
        loop.add("C%d.serviceReceivesOnce" % i, c.serviceReceivesOnce, 1)
        loop.add("C%d.serviceRxPkts" % i, c.serviceRxPkts, 1)
        loop.add("C%d.serviceTxPkts" % i, c_tx(c), 3)
        loop.add("C%d.serviceTxPktsOnce" % i, c.serviceTxPktsOnce, 1)
        loop.add("C%d.serviceAll" % i, c.serviceAll, 2)
    nup = [rng.randint(4, 40) for _ in range(nclients)]
    ndn = [rng.randint(4, 40) for _ in range(nclients)]

    def mk_up(i):
        def f():
            if len(net.to_server[i]) < nup[i]:
                net.queue_up(i, size())
        return f

    def mk_dn(i):
        def f():
            if len(net.to_client[i]) < ndn[i]:
                net.queue_down(i, size())
        return f
    for i in range(nclients):
        loop.add("C%d.transmit" % i, mk_up(i), 4)
        loop.add("S.transmit->C%d" % i, mk_dn(i), 4)
    nbroad = [rng.choice((0, 1, 2, 3))]

    def broadcast():
        if nbroad[0] > 0:
            nbroad[0] -= 1
            n = rng.randint(20000, 300000) if rng.random() < 0.6 else size()
            sizes.append(n)
            k = net.broadcast(n, again=rng.random() < 0.5)
            if k > 1:
                ctx.hit("same_packet_object_queued_more_than_once")
    loop.add("S.transmit same packet to every client", broadcast, 2)

    nontrivial = False
    try:
        try:
            # connect everybody first with a bounded number of rounds (connection behaviour itself is C27's subject)
            r = loop.until(net.all_connected,
                           [("S.serviceConnects", s.serviceConnects)] +
                           [("C%d.serviceConnect" % i, c.serviceConnect) for i, c in enumerate(net.clients)], 200)
            if r is None:
                ctx.fail("loopback/not-connected", "client stacks did not connect to the server stack in 200 rounds", wit())
                return
            for chunk in range(rng.randint(4, 12)):
                loop.run(rng, rng.randint(20, 60))
                ctx.event(loop.calls)
                if not check_net(ctx, net, wit, final=False):
                    return
            # queue whatever is missing, then service everything a bounded number of rounds
            for i in range(nclients):
                while len(net.to_server[i]) < nup[i]:
                    net.queue_up(i, size())
                while len(net.to_client[i]) < ndn[i]:
                    net.queue_down(i, size())
            total = sum(len(d) for q in net.to_server + net.to_client for d in q)

            def done():
                for i in range(nclients):
                    ca = net.clients[i].handler.ca
                    up_q = sum(len(d) for d in net.to_server[i])
                    dn_q = sum(len(d) for d in net.to_client[i])
                    up_wire = sum(len(d) for a, d in net.swl.rx if a == ca)
                    dn_wire = sum(len(d) for a, d in net.cwl[i].rx)
                    up_pkts = sum(len(p.packed) for p, a in net.server.rxPkts.seen if a == ca)
                    dn_pkts = sum(len(p.packed) for p in net.clients[i].rxPkts.seen)
                    if not (up_wire >= up_q and dn_wire >= dn_q and up_pkts >= up_wire and dn_pkts >= dn_wire):
                        return False
                return True
            def s_all():
                s.serviceAll()
                if any(ix.txes for ix in s.handler.ixes.values()):
                    partial["server"] += 1

            def c_all(c):
                def f():
                    c.serviceAll()
                    if c.txbs:
                        partial["client"] += 1
                return f
            rounds = loop.until(done, [("S.serviceAll", s_all)] +
                                [("C%d.serviceAll" % i, c_all(c)) for i, c in enumerate(net.clients)] +
                                [("S.serviceAll", s_all)],
                                max_rounds=600 + total // 256)
            ctx.event(loop.calls)
            desc["drain_rounds"] = rounds
            ok_final = check_net(ctx, net, wit, final=True)
            if ok_final and rng.random() < 0.5:
                # farewell: some clients send their last packets and close at once; the server stack is serviced only
                # afterwards, so it meets the last bytes and the end of the connection in the same pass
                leaving = [i for i in range(nclients) if rng.random() < 0.7] or [0]
                if nclients > 1 and len(leaving) == nclients:
                    leaving = leaving[:-1]          # somebody stays (and is sent packets behind one for a peer that left)
                for i in leaving:
                    for _ in range(rng.randint(1, 3)):
                        net.queue_up(i, rng.randint(1, 40))
                    for _ in range(6):
                        net.clients[i].serviceTxPkts()
                    if not net.clients[i].txbs and not net.clients[i].txPkts and not net.clients[i].handler.txes:
                        h = net.clients[i].handler
                        desc.setdefault("at_close", {})[i] = {
                            "client_socket_accepted": sum(len(d) for a, d in net.cwl[i].tx), "queued": sum(len(d) for d in net.to_server[i]),
                            "client_read": sum(len(d) for a, d in net.cwl[i].rx), "server_queued_for_it": sum(len(d) for d in net.to_client[i]),
                            "cutoff": h.cutoff, "connected": h.connected}
                        net.clients[i].close()
                        ctx.hit("client_closed_right_after_its_last_packets")
                desc["left"] = leaving
                closed = sorted(desc.get("at_close", {}))       # (those that had flushed everything and did close)
                cas = {i: net.clients[i].handler.ca for i in closed}
                for k in range(400):
                    # until the server has seen the end of every closed connection (its entry is gone): the last segment
                    # and the FIN may take a few milliseconds of real time on a loaded machine
                    loop.call("S.serviceAll", s.serviceAll)
                    if k >= 3 and not any(ca in s.handler.ixes for ca in cas.values()):
                        break
                    time_mod.sleep(0.0005 if k < 40 else 0.005)
                for i in closed:
                    if cas[i] in s.handler.ixes:
                        ctx.hit("farewell_end_not_seen_by_server_in_time")      # no verdict: the end has not arrived yet
                        continue
                    ctx.hit("farewell_judged")
                    up_q, up_wire, up_pkts, dn_q, dn_wire, dn_pkts = net.views(i)
                    ctx.check(up_wire == up_q and up_pkts == up_wire, "TcpServerStack/rx/last-bytes-before-close-not-in-a-packet",
                              "bytes a client sent right before closing were received but not delivered in a received packet",
                              lambda i=i, up_q=up_q, up_wire=up_wire, up_pkts=up_pkts: dict(
                                  wit(), client=i, server_socket_received=len(up_wire), server_entries=len(s.handler.ixes),
                                  left_in_rxbs=[len(ix.rxbs) for ix in s.handler.ixes.values()],
                                  **cmp_wit("queued", up_q, "packets", up_pkts)))
            if ok_final:
                departed_peer(ctx, net, loop, desc, wit, random_mod.Random(repr(("departed", idx, sizes[:8], nclients))))
                server_farewell(ctx, net, loop, desc, wit, random_mod.Random(repr(("farewell", idx, sizes[:8], nclients))))
            nontrivial = all(net.to_server[i] and net.to_client[i] for i in range(nclients)) and \
                (partial["client"] + partial["server"] > 0)
            if partial["client"]:
                ctx.hit("loopback_client_partial_sends", partial["client"])
            if partial["server"]:
                ctx.hit("loopback_server_partial_sends", partial["server"])
            ctx.hit("loopback_packets", sum(len(q) for q in net.to_server + net.to_client))
            ctx.hit("packets_built_in_a_reused_buffer", getattr(net, "nscratch", 0))
            if idx == 0:
                ctx.sample(dict(desc, packet_lengths=sizes[:20], first_calls=loop.trace[:25]))
        except Inconclusive:
            raise
        except Exception as ex:   # noqa
            ctx.fail("loopback/raises/%s" % exc_key(ex), "a service call raised %r" % (ex,),
                     lambda: dict(wit(), raised=repr(ex)))
    finally:
        ctx.case(("loopback", nclients, sbuf, cbuf, sizes, loop.trace[:200]), nontrivial=nontrivial)
        net.close()


def departed_peer(ctx, net, loop, desc, wit, rng):
    """a packet queued for a peer that has left (its connection is gone from the server) stands in the queue before
    packets for a peer that is still connected: the stack reports the packet it cannot deliver (ValueError) and the
    application goes on servicing -- the packets behind it still reach their peer"""
    s = net.server
    gone = [i for i in desc.get("at_close", {}) if net.clients[i].handler.ca not in s.handler.ixes]
    here = [i for i in range(len(net.clients)) if net.ca(i) is not None and not net.clients[i].handler.cutoff]
    if not gone or not here:
        return
    from ioflo.aio.proto import packeting
    g, j = rng.choice(gone), rng.choice(here)
    s.transmit(packeting.Packet(stack=s, packed=b"for the one who left"), net.clients[g].handler.ca)
    for _ in range(rng.randint(1, 3)):
        net.queue_down(j, rng.randint(1, 40))
    reported = 0
    for k in range(60):
        try:
            loop.call("S.serviceTxPkts", s.serviceTxPkts)
        except ValueError:
            reported += 1
        loop.call("S.handler.serviceTxesAllIx", s.handler.serviceTxesAllIx)
        loop.call("C%d.serviceAll" % j, net.clients[j].serviceAll)
        up_q, up_wire, up_pkts, dn_q, dn_wire, dn_pkts = net.views(j)
        if dn_wire == dn_q and k >= 2:
            break
        time_mod.sleep(0.0005)
    ctx.hit("packets_behind_one_for_a_departed_peer")
    # the verdict is taken where the stack hands the bytes over: what the server's socket accepted for this peer (the
    # sockets of this harness leave Nagle's algorithm on, so the last small segments may reach the peer tens of milliseconds
    # later -- a matter of the kernel, not of the stack; see DESIGN 7.1)
    jca = net.clients[j].handler.ca
    accepted = b"".join(d for a, d in net.swl.tx if a == jca)
    up_q, up_wire, up_pkts, dn_q, dn_wire, dn_pkts = net.views(j)
    sent_all = accepted[-len(dn_q):] == dn_q if len(accepted) >= len(dn_q) else False
    if sent_all and dn_wire != dn_q:
        for k in range(400):
            loop.call("C%d.serviceAll" % j, net.clients[j].serviceAll)
            up_q, up_wire, up_pkts, dn_q, dn_wire, dn_pkts = net.views(j)
            if dn_wire == dn_q:
                break
            time_mod.sleep(0.0005 if k < 40 else 0.005)
        if dn_wire != dn_q:
            ctx.hit("departed_peer_arrival_not_seen_in_time")
    ctx.check(sent_all, "TcpServerStack/tx/packets-behind-one-for-a-departed-peer-not-delivered",
              "packets queued for a connected peer behind a packet for a peer that has left were not handed to its connection within "
              "60 service rounds (the undeliverable packet was reported %d times)" % reported,
              lambda: dict(wit(), client=j, departed=g, reported=reported, still_queued=len(s.txPkts),
                           server_entry_of_the_peer={"present": net.clients[j].handler.ca in s.handler.ixes,
                                                     "txes": [len(x) for x in getattr(s.handler.ixes.get(net.clients[j].handler.ca), "txes", [])],
                                                     "cutoff": getattr(s.handler.ixes.get(net.clients[j].handler.ca), "cutoff", None)},
                           client_state={"connected": net.clients[j].handler.connected, "cutoff": net.clients[j].handler.cutoff},
                           server_socket_accepted_for_the_peer=sum(len(d) for a, d in net.swl.tx if a == net.clients[j].handler.ca),
                           queued_sizes_for_the_peer=[len(d) for d in net.to_client[j]][-6:],
                           **cmp_wit("queued", dn_q, "peer_received", dn_wire)))


def server_farewell(ctx, net, loop, desc, wit, rng):
    """the server stack sends its last packets to some of the clients that are still there, flushes them and closes the
    connection; the client stack is serviced only afterwards, so it meets the last bytes and the end of the connection in
    one pass.  Then the same client stack is reopened and connects again: what it is sent in its second life arrives on
    its own."""
    s = net.server
    staying = [i for i in range(len(net.clients)) if net.ca(i) is not None and not net.clients[i].handler.cutoff]
    chosen = [i for i in staying if rng.random() < 0.6]
    for i in chosen:
        c = net.clients[i]
        ca = net.ca(i)
        for _ in range(rng.randint(1, 3)):
            net.queue_down(i, rng.randint(1, 40))
        for _ in range(8):
            loop.call("S.serviceTxPkts", s.serviceTxPkts)
            loop.call("S.handler.serviceTxesAllIx", s.handler.serviceTxesAllIx)
        ix = s.handler.ixes.get(ca)
        if ix is None or ix.txes or s.txPkts:
            continue
        loop.call("S.closeConnection(C%d)" % i, lambda ca=ca: s.closeConnection(ca))
        ctx.hit("server_closed_right_after_its_last_packets")
        time_mod.sleep(0.002)
        for k in range(400):
            loop.call("C%d.serviceAll" % i, c.serviceAll)
            if c.handler.cutoff and k >= 2:
                break
            time_mod.sleep(0.0005 if k < 40 else 0.005)
        if not c.handler.cutoff:
            ctx.hit("server_farewell_end_not_seen_by_client_in_time")
            continue
        for _ in range(3):
            loop.call("C%d.serviceAll" % i, c.serviceAll)
        ctx.hit("server_farewell_judged")
        up_q, up_wire, up_pkts, dn_q, dn_wire, dn_pkts = net.views(i)
        ok = ctx.check(dn_wire == dn_q and dn_pkts == dn_wire, "TcpClientStack/rx/last-bytes-before-close-not-in-a-packet",
                       "bytes the server sent right before closing the connection were received but not delivered in a received packet",
                       lambda: dict(wit(), client=i, client_socket_received=len(dn_wire), left_in_rxbs=len(c.rxbs),
                                    **cmp_wit("queued", dn_q, "packets", dn_pkts)))
        if not ok or rng.random() < 0.3:
            continue
        # second life
        known = set(s.handler.ixes)
        loop.call("C%d.reopen" % i, c.reopen)
        ca2 = [None]

        def again():
            fresh = [a for a in s.handler.ixes if a not in known]
            if c.handler.connected and not c.handler.cutoff and fresh and c.handler.ca in fresh:
                ca2[0] = c.handler.ca
                return True
            return False
        r = loop.until(again, [("S.serviceConnects", s.serviceConnects), ("C%d.serviceConnect" % i, c.serviceConnect)], 200)
        if r is None:
            ctx.hit("second_life_not_connected")
            continue
        before_q, before_pkts, before_wire = len(dn_q), len(dn_pkts), len(dn_wire)
        for _ in range(rng.randint(1, 4)):
            net.queue_down(i, rng.randint(1, 40))
        want = b"".join(net.to_client[i])[before_q:]

        def arrived():
            return len(net.cwl[i].rxbytes) - before_wire >= len(want)
        loop.until(arrived, [("S.serviceAll", s.serviceAll), ("C%d.serviceAll" % i, c.serviceAll)], 400)
        for _ in range(3):
            loop.call("C%d.serviceAll" % i, c.serviceAll)
        up_q, up_wire, up_pkts, dn_q, dn_wire, dn_pkts = net.views(i)
        ctx.hit("second_life_judged")
        ctx.check(dn_wire[before_wire:] == want and dn_pkts[before_pkts:] == dn_wire[before_wire:],
                  "TcpClientStack/rx/second-connection-packets-not-what-was-sent-on-it",
                  "after the client stack was reopened and connected again, the packets it delivered are not the bytes sent on the new connection",
                  lambda: dict(wit(), client=i, **cmp_wit("queued_on_second_connection", want, "packets", dn_pkts[before_pkts:])))


# ---------------------------------------------------------------- doubles

def client_stack_on_double():
    from ioflo.aio.proto import stacking
    from ioflo.aio.tcp import clienting
    clk = clock()
    ch = clienting.Client(ha=(HOST, 6000), store=clk, timeout=0.0)
    st = stacking.TcpClientStack(handler=ch, stamper=clk, rxPkts=RecDeque(), name="c", ha=(HOST, 6000))
    ch.close()                         # the real, never connected socket opened by the stack
    fake = FakeSocket(sockname=(HOST, 5000), peername=(HOST, 6000))
    ch.cs = fake                       # documented attribute
    st.serviceConnect()
    if not ch.connected:
        raise RuntimeError("double did not connect")
    return st, fake


def double_client_tx(ctx, lens, script):
    from ioflo.aio.proto import packeting
    st, fake = client_stack_on_double()
    ub = UniqueBytes()
    msgs = [ub.take(n) for n in lens]
    fake.script("send", script)
    for m in msgs:
        st.transmit(packeting.Packet(stack=st, packed=m))
    queued = b"".join(msgs)
    nontrivial = any(i != FULL for i in script)
    ctx.case(("double-client-tx", lens, [item_name(i) for i in script]), nontrivial=nontrivial)
    calls = []

    def wit():
        return {"packet_lengths": list(lens), "send_results": [item_name(i) for i in script], "service_calls": calls,
                "queued": queued.hex(), "accepted": fake.accepted.hex(),
                "send_calls": [(d.hex(), r) for (o, d, r) in fake.log if o == "send"],
                "txbs": bytes(st.txbs).hex(), "txPkts": [bytes(p.packed).hex() for p in st.txPkts]}
    try:
        for r in range(len(script) + len(msgs) + 3):
            if r % 3 == 2:
                st.serviceTxPktsOnce()
                calls.append("serviceTxPktsOnce")
            elif r % 3 == 1:
                st.serviceAll()
                calls.append("serviceAll")
            else:
                st.serviceTxPkts()
                calls.append("serviceTxPkts")
            ctx.event()
            if st.txbs:
                ctx.hit("double_client_partial_sends")
            if not ctx.check(queued.startswith(fake.accepted),
                             "TcpClientStack/tx/peer-received-bytes-not-queued-packets-in-order",
                             "TcpClientStack: bytes accepted by the socket are not the queued packets in order", wit):
                return
        ctx.check(fake.accepted == queued, "TcpClientStack/tx/queued-packet-not-delivered",
                  "TcpClientStack: queued packets were not completely sent although the socket accepts everything now", wit)
    except Exception as ex:   # noqa
        ctx.fail("double/raises/%s" % exc_key(ex), "TcpClientStack service call raised %r" % (ex,),
                 lambda: dict(wit(), raised=repr(ex)))


def double_client_rx(ctx, chunks):
    st, fake = client_stack_on_double()
    ub = UniqueBytes()
    data = [ub.take(n) if n else None for n in chunks]
    fake.script("recv", [DATA(d) if d else WOULDBLOCK for d in data])
    ctx.case(("double-client-rx", chunks), nontrivial=any(chunks))
    try:
        for r in range(len(chunks) + 2):
            if r % 2:
                st.serviceReceivesOnce()
            else:
                st.serviceAll()
            ctx.event()
        got = b"".join(bytes(p.packed) for p in st.rxPkts.seen) + bytes(st.rxbs)
        ctx.check(b"".join(bytes(p.packed) for p in st.rxPkts.seen) == fake.delivered and not st.rxbs,
                  "TcpClientStack/rx/received-packets-not-received-bytes-in-order",
                  "TcpClientStack: received packets are not the received bytes, once each, in order",
                  lambda: {"chunks": [d.hex() if d else None for d in data], "packets": [bytes(p.packed).hex() for p in st.rxPkts.seen],
                           "rxbs": bytes(st.rxbs).hex(), "got": got.hex()})
    except Exception as ex:   # noqa
        ctx.fail("double/raises/%s" % exc_key(ex), "TcpClientStack service call raised %r" % (ex,), {"raised": repr(ex)})


def double_server(ctx, lens, script, chunks):
    """server stack over a listen-socket double handing out one connection double"""
    from ioflo.aio.proto import stacking, packeting
    from ioflo.aio.tcp import serving
    clk = clock()
    sh = serving.Server(ha=(HOST, 9000), eha=(HOST, 9000), store=clk, timeout=0.0)
    lis = FakeSocket(sockname=(HOST, 9000), peername=None)
    # the stack opens its handler: let it open the real listen socket on an ephemeral port, then swap in the double
    sh.ha = (HOST, 0)
    st = stacking.TcpServerStack(handler=sh, stamper=clk, rxPkts=RecDeque(), name="s", ha=(HOST, 0))
    sh.close()
    sh.ss = lis                        # documented attribute: listen socket
    sh.opened = True
    ca = (HOST, 41000)
    conn = FakeSocket(sockname=(HOST, 9000), peername=ca)
    lis.script("accept", [CONN(conn, ca)])
    ub = UniqueBytes()
    msgs = [ub.take(n) for n in lens]
    data = [ub.take(n) if n else None for n in chunks]
    ctx.case(("double-server", lens, [item_name(i) for i in script], chunks),
             nontrivial=any(i != FULL for i in script) or any(chunks))

    def wit():
        return {"packet_lengths": list(lens), "send_results": [item_name(i) for i in script],
                "received_chunks": [d.hex() if d else None for d in data],
                "accepted": conn.accepted.hex(), "queued": b"".join(msgs).hex(),
                "packets": [bytes(p.packed).hex() for p, a in st.rxPkts.seen]}
    try:
        st.serviceConnects()
        if not ctx.check(ca in sh.ixes and ca in st.haRemotes, "TcpServerStack/accept/no-entry",
                         "TcpServerStack: accepted connection has no handler entry / remote", wit):
            return
        conn.script("send", script)
        conn.script("recv", [DATA(d) if d else WOULDBLOCK for d in data])
        for m in msgs:
            st.transmit(packeting.Packet(stack=st, packed=m), ca)
        queued = b"".join(msgs)
        for r in range(len(script) + len(msgs) + len(chunks) + 3):
            st.serviceAll()
            ctx.event()
            if sh.ixes[ca].txes:
                ctx.hit("double_server_partial_sends")
            if not ctx.check(queued.startswith(conn.accepted),
                             "TcpServerStack/tx/peer-received-bytes-not-queued-packets-in-order",
                             "TcpServerStack: bytes accepted by the socket are not the queued packets in order", wit):
                return
            pk = b"".join(bytes(p.packed) for p, a in st.rxPkts.seen if a == ca)
            if not ctx.check(conn.delivered.startswith(pk),
                             "TcpServerStack/rx/received-packets-not-received-bytes-in-order",
                             "TcpServerStack: received packets are not the received bytes, once each, in order", wit):
                return
        ctx.check(conn.accepted == queued, "TcpServerStack/tx/queued-packet-not-delivered",
                  "TcpServerStack: queued packets were not completely sent", wit)
        pk = b"".join(bytes(p.packed) for p, a in st.rxPkts.seen if a == ca)
        ctx.check(pk == conn.delivered, "TcpServerStack/rx/received-bytes-not-in-a-packet",
                  "TcpServerStack: received bytes were not all delivered in packets", wit)
    except Exception as ex:   # noqa
        ctx.fail("double/raises/%s" % exc_key(ex), "TcpServerStack service call raised %r" % (ex,),
                 lambda: dict(wit(), raised=repr(ex)))


def worker(ctx, job):
    if job["what"] == "loopback":
        rng = ctx.subrng("c36", "loopback", job["k"])
        for i in range(job["N"]):
            loopback_case(ctx, rng, i if job["k"] == 0 else 1)
            ctx.hit("loopback_cases")
        return
    D = job["D"]
    n = 0
    for m in range(1, 4):
        for lens in itertools.product(range(1, 4), repeat=m):
            for script in enum_send_scripts(lens, D, [WOULDBLOCK]):
                n += 1
                if n % job["K"] != job["k"]:
                    continue
                double_client_tx(ctx, lens, script)
                if n % 4 == 0:
                    double_server(ctx, lens, script, (2, 0, 3, 1)[:1 + n % 4])
    if job["k"] == 0:
        for L in range(1, 5):
            for chunks in itertools.product((0, 1, 3), repeat=L):
                double_client_rx(ctx, chunks)
                double_server(ctx, (2,), [PARTIAL(1)], chunks)


def run(ctx):
    jobs = []
    KL = ctx.pick(10, 16)
    for k in range(KL):
        jobs.append({"what": "loopback", "k": k, "N": ctx.pick(6, 600)})
    KD = ctx.pick(2, 6)
    for k in range(KD):
        jobs.append({"what": "doubles", "k": k, "K": KD, "D": ctx.pick(4, 5)})
    ctx.shard(jobs, timeout=ctx.pick(120, 1500))
    ctx.floor("packets_built_in_a_reused_buffer", ctx.pick(200, 5000))
    ctx.floor("loopback_cases", ctx.pick(40, 1500))
    ctx.floor("loopback_packets", ctx.pick(1500, 60000))
    ctx.floor("loopback_client_partial_sends", ctx.pick(20, 800))
    ctx.floor("loopback_server_partial_sends", ctx.pick(60, 1200))
    ctx.floor("double_client_partial_sends", ctx.pick(2000, 10000))
    ctx.floor("double_server_partial_sends", ctx.pick(500, 2500))
    ctx.floor("distinct_nontrivial", ctx.pick(2000, 10000))
    ctx.floor("same_packet_object_queued_more_than_once", ctx.pick(20, 600))
    ctx.floor("farewell_judged", ctx.pick(20, 600))
    ctx.floor("server_farewell_judged", ctx.pick(10, 300))
    ctx.floor("packets_behind_one_for_a_departed_peer", ctx.pick(3, 100))
    ctx.floor("second_life_judged", ctx.pick(5, 150))
    ctx.floor("empty_packets_queued", ctx.pick(30, 1000))
