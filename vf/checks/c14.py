"""C14 building any script terminates with success or a script error (engine A, build only)."""
import os
import random
import re
import signal
import traceback

from vf import core
from vf.flo import gen, prog as P

LEVEL = "exploration"
RULE = ("inputs = (1) grammar-aware random scripts including cyclic / dangling in, under, next, first, aux references, duplicate "
        "names, verbs outside their context; (2) token-level mutations (delete, duplicate, swap, replace by a token from a pool of "
        "verbs, connectives, comparisons, numbers, 1j, 0x.., quotes, paths, me/main/all/any) of the example plans and of generated "
        "programs; each built by the real Builder under an interval-timer watchdog; distinct = distinct script text; non-trivial = "
        "the script differs from a valid one and reached the builder's dispatch (at least one verb line)")
RULE = __import__("vf.core", fromlist=["rule_add"]).rule_add(RULE, 'also paths through shares, 240 marker scripts and clone cycles (a moot cloned into itself through a chain), every numeric slot given 32 near-numbers, names that meet (clone / framer / actor kind / tasker), `under` loops through non primary children, `load` of things that cannot be opened; reference graphs that build are built once more with the console at its default verbosity')
META = {"engine": "A floscript (build only)", "technique": "fuzzing with an outcome-class oracle and a termination watchdog",
        "level_text": "Each input is really built; the outcome must be success, False, ParseError, ResolveError or a ValueError of the literal "
                      "converters (or an explicit script-attributable `raise ValueError(\"...\")`); any other exception type is an internal "
                      "error keyed by (type, innermost ioflo function, source line); a build exceeding the budget twice is non-termination.",
        "level_note": "CPU time of the worker process (not wall-clock, so load cannot trip it) is used only as a termination watchdog: one trip is inconclusive, a confirmed second trip (4x budget, same "
                      "innermost function) is the witness."}

VERBS = ['load', 'house', 'init', 'server', 'logger', 'log', 'loggee', 'framer', 'first', 'frame', 'over', 'under', 'next', 'done',
         'timeout', 'repeat', 'native', 'benter', 'enter', 'recur', 'exit', 'precur', 'renter', 'rexit', 'print', 'put', 'inc',
         'copy', 'set', 'aux', 'rear', 'raze', 'go', 'let', 'do', 'bid', 'ready', 'start', 'stop', 'run', 'abort', 'use', 'flo',
         'give', 'take']
CONNECT = ['to', 'by', 'with', 'from', 'per', 'for', 'cum', 'qua', 'via', 'as', 'at', 'in', 'of', 'on', 're', 'is', 'if', 'be',
           'into', 'and', 'not', '+-', '==', '<', '<=', '>=', '>', '!=']
POOL = VERBS + CONNECT + ['me', 'main', 'mine', 'all', 'any', 'next', 'frame', 'framer', 'actor', 'done', 'updated', 'changed',
                          'active', 'inactive', 'aux', 'slave', 'moot', 'front', 'back', 'value', 'elapsed', 'recurred', 'goal',
                          '0', '1', '-1', '2.5', '1e3', '1j', '0x', '0x1f', 'inf', 'nan', 'true', 'none', '""', "''", '"a b"', "'",
                          '"', '.a', '.a.b', 'a.b', '.a.', 'a..b', '.', '..', 'f0', 'f1', 'm0', 'a0', 'x0', '10N5.5', '1x2y',
                          '127.0.0.1:99999', ':', 'x:y:z', '#', '\\', 'starts', 'running', 'once', 'always', 'streak', 'deck']


class Trip(core.Watchdog):
    pass


def alarm(signum, frame):
    raise Trip()


def outcome_of(text, budget, verbose=False):
    """returns (cls, key, detail)
    verbose: build with the console at its default verbosity (concise; output to the null device), which makes the builder
    print the frame hierarchy of every framer after a successful resolve"""
    from vf.flo import dump
    from ioflo.base import excepting
    if verbose:
        from ioflo.aid.consoling import getConsole
        con = getConsole()
        try:
            con.reinit(verbosity=2, path=os.devnull)
            return outcome_of(text, budget)
        finally:
            con.reinit(verbosity=0, path="")
    # budget in CPU seconds of this process (ITIMER_PROF): a build that does not terminate burns CPU and trips it, a worker
    # that is starved or swapped out on a loaded machine does not (observed: 1 s + 8 s of wall-clock tripped on millisecond
    # builds while memory-hungry jobs ran beside the check); the wall-clock backstop is the worker's shard timeout
    signal.signal(signal.SIGPROF, alarm)
    signal.setitimer(signal.ITIMER_PROF, budget)
    try:
        try:
            o, det, houses = dump.build_text(text)
        finally:
            signal.setitimer(signal.ITIMER_PROF, 0)
    except Trip as e:
        fr = [f for f in traceback.extract_tb(e.__traceback__) if (os.sep + "ioflo" + os.sep) in f.filename
              and not f.filename.endswith("consoling.py")]        # (the console only prints what the loop hands it)
        allfr = traceback.extract_tb(e.__traceback__)
        where = "%s:%s" % (os.path.basename(fr[-1].filename), fr[-1].name) if fr else (
            "outside-ioflo@%s:%s" % (os.path.basename(allfr[-1].filename), allfr[-1].name) if allfr else "?")
        return "timeout", "non-termination@" + where, where
    if o in ("built", "failed", "parse-error", "resolve-error"):
        return o, None, None
    e = det
    tb = traceback.extract_tb(e.__traceback__)
    inner = [f for f in tb if (os.sep + "ioflo" + os.sep) in f.filename]
    if isinstance(e, ValueError) and inner:
        last = inner[-1]
        line = (last.line or "")
        if last.name.startswith("Convert2"):
            return "converter-valueerror", None, None
        if re.match(r"\s*raise\s+ValueError\(\s*[\"']", line):
            return "deliberate-valueerror", None, str(e)[:100]
    # mechanism key: innermost ioflo frame plus the ioflo function that called it (a KeyError raised inside
    # Share.__getitem__ is a different defect for every caller)
    caller = ("<-%s:%s" % (os.path.basename(inner[-2].filename), inner[-2].name)) if len(inner) >= 2 else ""
    return "internal", "internal-error/" + core.exc_key(e) + caller, "%s: %s" % (type(e).__name__, str(e)[:200])


def tokens_of(line):
    return re.findall(r""""[^"]*"|'[^']*'|[^ ]+""", line.strip())


def mutate(text, rng):
    lines = text.split("\n")
    idx = [i for i, l in enumerate(lines) if l.strip() and not l.strip().startswith("#")]
    if not idx:
        return text
    for _ in range(rng.choice([1, 1, 1, 2, 3])):
        i = rng.choice(idx)
        toks = tokens_of(lines[i])
        if not toks:
            continue
        op = rng.random()
        j = rng.randrange(len(toks))
        if op < 0.2:
            del toks[j]
        elif op < 0.35:
            toks.insert(j, toks[j])
        elif op < 0.5 and len(toks) > 1:
            k = rng.randrange(len(toks))
            toks[j], toks[k] = toks[k], toks[j]
        elif op < 0.9:
            toks[j] = rng.choice(POOL)
        else:
            toks.insert(j, rng.choice(POOL))
        lines[i] = "  " + " ".join(toks)
        if rng.random() < 0.05:
            k = rng.choice(idx)
            lines[i], lines[k] = lines[k], lines[i]
    return "\n".join(lines)


_DEEDS = []


def deed_words():
    """`do` kind words of every deed class ioflo registers (ControllerPidSpeed -> controller pid speed), the base
    classes included: read from the live Doer registry, so new deeds are covered without editing this file"""
    if not _DEEDS:
        from vf.flo import dump
        dump.build_text("house h\n  framer m be active\n    frame a\n")       # building imports the deed modules
        from ioflo.base import doing
        for name in sorted(doing.Doer.Registry.keys()):
            if not name.startswith("Vf"):
                _DEEDS.append(" ".join(w.lower() for w in re.findall(r"[A-Z][a-z0-9]*", name)))
    return _DEEDS


def deed_line(rng):
    """a `do` of a registered deed with generated clauses: the deed's own ioinit handling meets unexpected inits"""
    line = "do " + rng.choice(deed_words())
    for _ in range(rng.choice([0, 1, 1, 2, 3])):
        line += " " + rng.choice(["via heading", "via .p.q.", "via me", "as fred", "as my deed", "at enter", "at bogus", "per x 1", "per group .g output .o",
                                  'per input ".i" rate ".r" rsp ".s"', "per parms 5", "for a in .ioi", "for group in .ioi", "from value in .x",
                                  "with a 1", "with wrap 1j", "cum b 2", "qua c in .q", "with", "per", "via"])
    return line


def grammar_script(rng):
    """small scripts with deliberately crossed references"""
    names = ["a", "b", "c", "d"]
    L = ["house h"]
    if rng.random() < 0.5:
        L.append("  init %s with %s" % (rng.choice([".x", "x.y", ".x.", "x..y", "x"]), rng.choice(["1", "to", "a 1 b", "value 1 b 2", '"s"', "1j"])))
    if rng.random() < 0.3:
        # transfers between shares with explicit field lists: fields renamed, missing in the source, unequal counts
        F = lambda: " ".join(rng.sample(["f", "g", "h", "value", "k"], rng.choice([1, 1, 2, 3])))
        L.append("  init %s with %s" % (rng.choice([".c.d", ".a.b", ".e"]), rng.choice(["h 1", "value 3", "g 1 h 2", "5", "f 1 g 2 k 3"])))
        for _ in range(rng.randint(1, 2)):
            L.append("  init %s%s from %s%s" % (rng.choice(["", F() + " in "]), rng.choice([".a.b", ".c.d", ".e", ".zz"]),
                                              rng.choice(["", F() + " in "]), rng.choice([".c.d", ".a.b", ".e", ".zz"])))
    nfr = rng.randint(1, 3)
    fnames = ["m%d" % i for i in range(nfr)]
    if rng.random() < 0.25:
        # taskers that are not framers, declared first, share the tasker namespace: their names turn up where a framer is
        # expected (aux lg, bid start sv, go .. if lg is done, ready lg)
        if rng.random() < 0.6:
            L.append("  logger lg to /tmp/vf-nowhere")
            L.append("    log l0 on update")
            L.append("      loggee .x")
            fnames.append("lg")
        else:
            L.append("  server sv at 0.5 rx 127.0.0.1:0")
            fnames.append("sv")
        nfr += 1
    for fn in [f for f in fnames if f not in ("lg", "sv")] + ([rng.choice(fnames)] if rng.random() < 0.1 else []):
        line = "  framer %s be %s" % (fn, rng.choice(["active", "inactive", "aux", "slave", "moot", "bogus"]))
        if rng.random() < 0.3:
            line += " at %s" % rng.choice(["0.5", "1j", "-1", "x", "0x10"])
        if rng.random() < 0.3:
            line += " first %s" % rng.choice(names + ["zz"])
        if rng.random() < 0.2:
            line += " via %s" % rng.choice([".p.", "p", "me", "main", ".p"])
        L.append(line)
        for fr in rng.sample(names, rng.randint(1, 4)) + ([names[0]] if rng.random() < 0.1 else []):
            line = "    frame %s" % fr
            if rng.random() < 0.6:
                line += " in %s" % rng.choice(names + ["zz", fr])
            L.append(line)
            for _ in range(rng.randint(0, 3)):
                k = rng.random()
                n = rng.choice(names + ["zz", "next", "me"])
                if k < 0.15:
                    L.append("      under %s" % n)
                elif k < 0.3:
                    L.append("      next %s" % n)
                elif k < 0.4:
                    L.append("      over %s" % n)
                elif k < 0.6:
                    L.append("      go %s%s" % (n, rng.choice(["", " if .x == 1", " if elapsed >= goal", " if %s is done" % rng.choice(fnames + ["zz"]),
                                                               " if .x is updated in frame %s" % rng.choice(names + ["zz"]),
                                                               " if aux %s is done" % rng.choice(fnames + ["zz"]), " if any is done",
                                                               " if %s is running" % rng.choice(fnames + ["zz", "me"])])))
                elif k < 0.75:
                    L.append("      aux %s%s" % (rng.choice(fnames + ["zz"]), rng.choice(["", " as mine", " as k", " if .x == 1", " as k if .x"])))
                elif k < 0.85:
                    L.append("      bid %s %s" % (rng.choice(["stop", "start", "abort", "bogus"]), rng.choice(fnames + ["zz", "all", "me"])))
                elif k < 0.92:
                    L.append("      %s %s" % (rng.choice(["ready", "start", "stop", "run", "abort"]), rng.choice(fnames + ["zz"])))
                elif k < 0.94:
                    F = lambda: " ".join(rng.sample(["f", "g", "h", "value", "k"], rng.choice([1, 1, 2, 3])))
                    src, dst = rng.choice([".c.d", ".a.b", ".e", ".zz", "q of me"]), rng.choice([".a.b", ".c.d", ".e", ".zz", "q of frame"])
                    L.append("      " + rng.choice(["copy %s%s into %s%s", "set %s%s from %s%s", "inc %s%s from %s%s"]) % (
                        rng.choice(["", F() + " in "]), src, rng.choice(["", F() + " in "]), dst))
                elif k < 0.96:
                    L.append("      " + deed_line(rng))
                else:
                    L.append("      %s" % rng.choice(["done zz", "rear m0 as mine be aux in frame a", "raze all in frame zz",
                                                      "timeout x", "repeat -1.5", "let me if .x", "put 1 into", "set .x with",
                                                      "inc .x from .y", "copy a b in .x into .y", "do nothing here",
                                                      "do vf rec per inode 5", "print hi", "first a", "loggee .x", "log l on update"]))
    if rng.random() < 0.2:
        L.append("  logger lg to /tmp/vf-nowhere %s" % rng.choice(["", "keep 1j", "flush x", "size -3", "cycle 0x"]))
        L.append("    log l1 %s" % rng.choice(["on update", "on bogus", "as binary", "to"]))
        L.append("      loggee %s" % rng.choice([".x", "a b in .x as t", "in", ".x as"]))
    if rng.random() < 0.15:
        L.append("  server sv %s" % rng.choice(["rx :x", "rx a:b:c", "tx h:1 at 1j", "per a 1", "for a in .x", "be aux"]))
    # paths that run *through* an existing share -- by the name of one of its fields, or by another name -- and on
    # below it (drawn from a generator of its own so that the scripts above stay what they were)
    r2 = random.Random(repr(L))
    if r2.random() < 0.25:
        base = r2.choice(["nav.depth", ".nav.depth", "nav"])
        L.insert(1, "  init %s with %s" % (base, r2.choice(["5", "value 5 raw 2", "raw none", '"s"'])))
        deep = base + "." + r2.choice(["value", "raw", "zz"]) + r2.choice(["", ".raw", ".value.q", ".a"])
        k = r2.random()
        if k < 0.4:
            L.insert(2, "  init %s %s" % (deep, r2.choice(["with 1", "from .x", "with a 1"])))
        elif k < 0.5:
            L.insert(2, "  init .qq from %s" % deep)
        else:
            L += ["  framer zq be active", "    frame z0",
                  "      " + r2.choice(["put 1 into %s", "inc %s with 1", "copy %s into .qq", "copy .x into %s", "go next if %s == 1",
                                        "go next if %s is updated", "set %s with 1", "do vf rec per inp %s", "let me if %s"]) % deep,
                  "    frame z1"]
    return "\n".join(L) + "\n"


def refgraph_script(frames, order, unders=None, nexts=None, first=None, clones=None):
    """an otherwise valid script whose only adversarial part is its reference graph: frames[i] = name of the over frame
    (or None / 'zz' dangling), declared in `order`; optional under / next links; `clones` = {moot: [moots it clones]}"""
    L = ["house h", "  framer m be active" + (" first %s" % first if first else "")]
    for i in order:
        L.append("    frame f%d%s" % (i, (" in %s" % frames[i]) if frames[i] else ""))
        if unders and unders.get(i):
            L.append("      under %s" % unders[i])
        if nexts and nexts.get(i):
            L.append("      next %s" % nexts[i])
        L.append("      print f%d" % i)        # (a `go next` here would make every script fail on its last frame, whatever the graph)
    for mname, targets in (clones or {}).items():
        L.append("  framer %s be moot" % mname)
        L.append("    frame x0")
        for j, t in enumerate(targets):
            L.append("      aux %s as %s" % (t, "mine" if j % 2 else "k%d" % j))
    if clones:
        L.insert(3, "      aux %s as top" % sorted(clones)[0])
    return "\n".join(L) + "\n"


def refgraph_cases(n, nsample=None, rng=None):
    """every over-graph on n frames (each frame: no over, any frame incl. itself, or a dangling name) x every
    declaration order; plus under / next / first / clone graphs"""
    import itertools
    names = ["f%d" % i for i in range(n)]
    out = []
    for overs in itertools.product([None] + names + ["zz"], repeat=n):
        for order in itertools.permutations(range(n)):
            out.append(("over", refgraph_script(list(overs), list(order))))
    for overs in itertools.product([None] + names, repeat=n):
        for us in itertools.product([None] + names, repeat=n):
            if any(us):
                out.append(("under", refgraph_script(list(overs), list(range(n)), unders=dict(enumerate(us)))))
    for ns in itertools.product([None] + names + ["zz", "me"], repeat=n):
        out.append(("next", refgraph_script([None] * n, list(range(n)), nexts=dict(enumerate(ns)), first=names[-1])))
    moots = ["q%d" % i for i in range(3)]
    for sets in itertools.product([(), ("q0",), ("q1",), ("q2",), ("q0", "q1"), ("q1", "q2"), ("q2", "q0"), ("zz",)], repeat=3):
        out.append(("clone", refgraph_script([None], [0], clones=dict(zip(moots, sets)))))
    if nsample and len(out) > nsample:
        out = rng.sample(out, nsample)
    return out


def marker_scripts():
    """Exhaustive small family: an update / change condition that names a frame (`in frame F`) -- F being the condition's
    own frame, an earlier or a later one, with or without enter actions of its own that are still unresolved when the
    condition is resolved -- used by a transition, a conditional aux or an entry condition.  Well-formed scripts, all of
    them: they build, or are refused with a parse / resolve error."""
    out = []
    acts = {"none": [], "print": ["      print hello"], "put": ["      put 1 into .y"], "inc+bid": ["      inc .y with 1", "      bid stop me"],
            "do": ['      do vf rec with tag "x" at enter']}
    for kind in ("updated", "changed"):
        for use in ("go", "aux", "let"):
            for where in ("me", "a", "b", "c"):
                for an, alines in sorted(acts.items()):
                    for by in ("", " by mk"):
                        cond = ".x is %s in frame %s%s" % (kind, "" if where == "me" else where, by) if where != "me" or use != "let" \
                            else ".x is %s in frame me%s" % (kind, by)
                        L = ["house h", "  init .x with 0", "  init .y with 0", "  framer f be active first a", "    frame a"] + alines
                        L += ["      go b if elapsed >= 1.0", "    frame b"] + alines
                        if use == "go":
                            L += ["      go c if %s" % cond]
                        elif use == "aux":
                            L += ["      aux hx if %s" % cond, "      go c if elapsed >= 1.0"]
                        else:
                            L += ["      let me if %s" % cond, "      go c if elapsed >= 1.0"]
                        L += ["    frame c"] + alines + ["      bid stop all"]
                        if use == "aux":
                            L += ["  framer hx be aux", "    frame h0", "      done me"]
                        out.append(("marker-%s-%s" % (use, where), "\n".join(L) + "\n"))
    return out


def clone_cycle_scripts():
    """moot framers that clone one another in a cycle of length 1, 2, 3 or 4 (insular or named clones, the cycle entered from
    a scheduled framer or from a moot framer outside it): the build ends -- with a refusal -- in every case"""
    out = []
    for n in (1, 2, 3, 4):
        for how in ("mine", "named", "mixed"):
            for entry in ("active", "moot"):
                L = ["house h"]
                names = ["q%d" % i for i in range(n)]
                if entry == "moot":
                    L += ["  framer top be active", "    frame t0", "      aux pre as mine", "  framer pre be moot", "    frame p0",
                          "      aux q0 as %s" % ("mine" if how != "named" else "kp")]
                else:
                    L += ["  framer top be active", "    frame t0", "      aux q0 as %s" % ("mine" if how != "named" else "kt")]
                for i, nm in enumerate(names):
                    nxt = names[(i + 1) % n]
                    as_ = "mine" if how == "mine" or (how == "mixed" and i % 2) else "k%d" % i
                    L += ["  framer %s be moot" % nm, "    frame f0", "      print hello", "      aux %s as %s" % (nxt, as_)]
                out.append(("clonecycle-%d" % n, "\n".join(L) + "\n"))
    return out


WEIRD_NUMS = ["3x4y", "1e", "0x", "--1", "1_0", '"5"', "none", "true", "1+2j", "2j", "-0.25j", "1e400", "-1e400", "nan", "1,2",
              "0x1g", "1.2.3", "5.", ".5", "+", "-", "1e+", "٣", "1/2", "abc", "me", "0b11", "1e5", "-0", "''", '"a b"', "(1)"]


def numeric_slot_scripts():
    """every clause that takes a number, given something that is not quite one (also complex literals, quoted numbers,
    keywords): the build succeeds or refuses with a parse / resolve / value error"""
    out = []
    S = core.SCRATCH
    for w in WEIRD_NUMS:
        slots = {
            "framer-at": ["house h", "  framer f be active at %s" % w, "    frame a"],
            "bid-at": ["house h", "  framer f be active", "    frame a", "      bid start g at %s" % w, "  framer g be inactive", "    frame b"],
            "timeout": ["house h", "  framer f be active", "    frame a", "      timeout %s" % w, "    frame b"],
            "repeat": ["house h", "  framer f be active", "    frame a", "      repeat %s" % w, "    frame b"],
            "server-at": ["house h", "  server s at %s" % w, "  framer f be active", "    frame a"],
            "server-per": ["house h", "  server s per period %s" % w, "  framer f be active", "    frame a"],
            "server-per2": ["house h", "  server s per period 1 prefix %s" % w, "  framer f be active", "    frame a"],
            "logger-at": ["house h", "  logger lg to %s/lg at %s" % (S, w), "    log l1 on update", "      loggee .c0",
                          "  framer f be active", "    frame a"],
            "logger-flush": ["house h", "  logger lg to %s/lg flush %s" % (S, w), "    log l1 on update", "      loggee .c0",
                             "  framer f be active", "    frame a"],
            "logger-keep": ["house h", "  logger lg to %s/lg keep %s cycle %s size %s" % (S, w, w, w), "    log l1 on update",
                            "      loggee .c0", "  framer f be active", "    frame a"],
            "need-tol": ["house h", "  init .x with 0", "  framer f be active", "    frame a", "      go b if .x == 1 +- %s" % w, "    frame b"],
            "elapsed-goal": ["house h", "  framer f be active", "    frame a", "      go b if elapsed >= %s" % w, "    frame b"],
            "inc": ["house h", "  init .x with 0", "  framer f be active", "    frame a", "      inc .x with %s" % w],
        }
        for k, L in slots.items():
            out.append(("numslot-" + k, "\n".join(L) + "\n"))
    return out


def unders_cycle_scripts():
    """`under` clauses that name a frame above the frame they stand in (cycles through non primary children): accepted or
    refused, with a mute and with the default console"""
    out = []
    base = ["house box", "  framer main be active first a", "    frame a", "      under x", "    frame x", "    frame b in a",
            "      under c", "    frame c", "      under y", "    frame y", "    frame d in c", "      under a"]
    out.append(("unders-cycle", "\n".join(base) + "\n"))
    out.append(("unders-cycle", "\n".join(["house box", "  framer main be active first a", "    frame a", "      under x", "    frame x",
                                          "    frame b in a", "      under a"]) + "\n"))
    out.append(("unders-cycle", "\n".join(["house box", "  framer main be active first a", "    frame a", "      under x", "    frame x",
                                          "    frame b in a", "    frame c in b", "      under a", "    frame e in b"]) + "\n"))
    return out


def load_scripts():
    """`load` of things that cannot be opened as a script: a directory, a missing file, a path through a file, an empty name:
    the build reports the failure (returns False or a parse error), it does not let the OSError out"""
    out = []
    S = core.SCRATCH
    for target in (S, S + "/", "/", "/proc/self/mem", S + "/no/such/file.flo", "/etc/hostname/x.flo", ".", "..",
                   "/dev/null/x", '""', "/proc/1/environ", "/root"):
        for where in ("top", "house", "framer"):
            L = {"top": ["load %s" % target, "house h", "  framer f be active", "    frame a"],
                 "house": ["house h", "  load %s" % target, "  framer f be active", "    frame a"],
                 "framer": ["house h", "  framer f be active", "    load %s" % target, "    frame a"]}[where]
            out.append(("load", "\n".join(L) + "\n"))
    return out


def name_clash_scripts():
    """names that meet: a named clone whose full name (<framer>_<tag>) is the name of another framer, of the moot itself or
    of a second clone; actors whose instance name (`as ...`) is the name of a builtin actor kind, in frames that conditions
    with markers refer to; frames, framers, loggers, logs and servers that share a name"""
    out = []
    for order in (0, 1, 2):
        for tag, other in (("tag", "big_tag"), ("tag", "big_tag2"), ("mo", "big_mo"), ("big", "big_big"), ("tag", "mo")):
            blocks = [["  framer big be active first a", "    frame a", "      aux mo as %s" % tag],
                      ["  framer %s be %s first z" % (other, "active" if other != "mo" else "moot"), "    frame z"],
                      ["  framer mo be moot first x", "    frame x"]]
            if other == "mo":
                blocks = blocks[:1] + blocks[2:]
            blocks = blocks[order % len(blocks):] + blocks[:order % len(blocks)]
            out.append(("nameclash-clone", "\n".join(["house h"] + [l for b in blocks for l in b]) + "\n"))
        # two clones under one tag, in one frame / in two frames / reared
        for second in ("      aux mo as tag", "    frame b\n      aux mo as tag", "    frame b\n      rear mo as tag be aux in frame a",
                       "      aux mo2 as tag"):
            L = ["house h", "  framer big be active first a", "    frame a", "      aux mo as tag", second,
                 "  framer mo be moot first x", "    frame x", "  framer mo2 be moot first x", "    frame x"]
            out.append(("nameclash-tag", "\n".join(L) + "\n"))
    kinds = ["marker update", "marker change", "marker", "poke direct", "poke indirect", "inc direct", "need always", "need marker update",
             "transiter", "suspender", "rearer", "razer", "printer", "want start", "fiat start", "complete done", "deactivator",
             "need update", "need change", "need direct", "need done", "restarter", "closer log", "vf rec", "doer"]
    for kn in kinds:
        for cond in (".x is updated in frame g", ".x is changed in frame g", ".x is updated in frame g by mk", ".x == 1"):
            for atctx in ("enter", "recur", "exit"):
                L = ["house h", "  init .x with 0", "  framer big be active first g", "    frame g",
                     '      do vf rec as %s with tag "t" at %s' % (kn, atctx), "      go k if elapsed >= 1.0",
                     "    frame k", "      go g if %s" % cond]
                out.append(("nameclash-actor", "\n".join(L) + "\n"))
    for a, b in (("framer f be active", "framer f be inactive"), ("logger f", "framer f be active"),
                 ("server f", "framer f be active"), ("framer f be active", "server f"), ("logger f", "server f"),
                 ("server f", "logger f")):
        def blk(x):
            if x.startswith("framer"):
                return ["  " + x, "    frame a"]
            if x.startswith("logger"):
                return ["  %s to %s/lg" % (x, core.SCRATCH), "    log l1 on update", "      loggee .c0"]
            return ["  " + x]
        out.append(("nameclash-tasker", "\n".join(["house h"] + blk(a) + blk(b)) + "\n"))
    return out


def worker(ctx, job):
    rng = ctx.rng
    plans = job["plans"]
    confirmed = {}
    gbudget = 1.0       # these scripts are a dozen lines: a normal build takes a few milliseconds
    for kind, text in job.get("refgraphs", []):
        if sum(confirmed.values()) >= 6:
            ctx.hit("refgraphs_skipped_after_repeated_non_termination")
            continue        # the witnesses are in hand; do not spend the worker's time limit on more of the same
        cls, key, detail = outcome_of(text, gbudget)
        ctx.event()
        ctx.hit("kind_refgraph_" + kind)
        ctx.hit("outcome_" + cls)
        ctx.case(text, nontrivial=True)
        if cls == "timeout":
            cls2, key2, det2 = outcome_of(text, gbudget * 8)
            if cls2 == "timeout":
                confirmed[key] = confirmed.get(key, 0) + 1
                ctx.fail(key, "building does not terminate (watchdog tripped twice, %gs and %gs of cpu time) in %s" % (
                    gbudget, gbudget * 8, detail), {"script": text, "where": detail})
                continue
            cls, key, detail = cls2, key2, det2
        if cls == "internal":
            ctx.fail(key, "building raised an internal error: %s" % detail, {"script": text, "error": detail})
        else:
            ctx.check(True, "ok")
        if cls == "built" and kind in ("over", "under", "next", "clone", "unders-cycle"):
            # once more with the console as a user has it by default (concise): the builder then prints every framer's hierarchy
            cv, kv, dv = outcome_of(text, gbudget, verbose=True)
            ctx.hit("refgraphs_also_built_with_the_default_console")
            if cv == "timeout":
                cv, kv, dv = outcome_of(text, gbudget * 8, verbose=True)
                if cv == "timeout":
                    confirmed[kv] = confirmed.get(kv, 0) + 1
                    ctx.fail(kv + "/default-console", "building with the default console verbosity does not terminate (watchdog tripped "
                             "twice) in %s; with a mute console the same script builds" % dv, {"script": text, "where": dv})
                    continue
            ctx.check(cv == "built", "outcome-depends-on-console-verbosity/%s" % cv,
                      "a script that builds with a mute console gives %s with the default console (%s)" % (cv, dv),
                      lambda: {"script": text, "detail": dv, "key": kv})
    budget = job["budget"]
    feats = gen.feat(p_let=0.3, p_pokes=0.4, p_aux=0.3, naux=(1, 2), p_condaux=0.3, nslaves=(0, 1), p_fiat=0.3, p_bids=0.3,
                     p_done_need=0.3, nframes=(2, 5), nframers=(1, 2))
    bases = [open(p).read() for p in plans]
    for i in range(job["n"]):
        r = rng.random()
        if r < 0.3:
            text = grammar_script(rng)
            kind = "grammar"
        elif r < 0.65:
            text = mutate(rng.choice(bases), rng)
            kind = "plan-mutation"
        else:
            text = mutate(P.render(gen.gen_program(rng, feats)), rng)
            kind = "generated-mutation"
        cls, key, detail = outcome_of(text, budget)
        ctx.event()
        ctx.hit("kind_" + kind)
        ctx.hit("outcome_" + cls)
        ctx.case(text, nontrivial=True, sample={"kind": kind, "outcome": cls, "script": text[:600]} if i % 97 == 0 else None)
        if cls == "timeout":
            cls2, key2, det2 = outcome_of(text, budget * 4)
            if cls2 == "timeout" and key2 == key:
                ctx.fail(key, "building does not terminate (watchdog tripped twice, %gs and %gs of cpu time) in %s" % (budget, budget * 4, detail),
                         {"script": text, "where": detail})
            elif cls2 == "timeout":
                ctx.inconclusive_case("watchdog tripped twice at different places (%s, %s)" % (key, key2))
            else:
                ctx.hit("slow_but_terminated")
                cls, key, detail = cls2, key2, det2
        if cls == "internal":
            ctx.fail(key, "building raised an internal error: %s" % detail, {"script": text, "error": detail})
        elif cls != "timeout":
            ctx.check(True, "ok")


def run(ctx):
    d = os.path.join(core.REPO, "ioflo", "app", "plan")
    plans = [os.path.join(d, f) for f in sorted(os.listdir(d)) if f.endswith(".flo")]
    total = ctx.pick(12000, 160000)
    n = 16
    # reference graphs: all graphs on 3 frames (quick) / 3 and a sample of 4 frames (thorough), exhaustive
    graphs = refgraph_cases(3)
    ctx.extra["refgraph_cases_3_frames_exhaustive"] = len(graphs)
    if not ctx.quick:
        graphs += refgraph_cases(4, nsample=40000, rng=ctx.rng)
    graphs += marker_scripts() + clone_cycle_scripts() + numeric_slot_scripts() + name_clash_scripts() + unders_cycle_scripts() + load_scripts()
    ctx.shard([{"plans": plans, "n": total // n, "budget": 5.0, "refgraphs": graphs[i::n]} for i in range(n)],
              timeout=ctx.pick(400, 3000))
    for k in ("over", "under", "next", "clone"):
        ctx.floor("kind_refgraph_" + k, 100)
    ctx.floor("kind_grammar", 200)
    ctx.floor("kind_plan-mutation", 200)
    ctx.floor("kind_generated-mutation", 200)
    ctx.floor("outcome_parse-error", 300)
    ctx.floor("outcome_failed", 100)
    ctx.floor("outcome_built", 100)
