"""C40 bit / byte / hex codecs (engine C).

Reference: integer arithmetic and str/bytes built-ins in vf.fnref
(``ref_pack``/``ref_unpack`` never look at ioflo).

A *format* is a tuple of field widths.  For one format and one vector of
field values the check evaluates, on the real functions,

  P  packify(fmt, values[, size][, reverse])           == reference bytes
  U  unpackify(fmt, those bytes, boolean)              == values masked to their widths (+ padding field 0)
  A  unpackify(fmt, arbitrary bytes of that size)      == reference fields (+ padding field)
  I  packifyInto(buf, ..., offset)                     writes exactly P at the offset, returns size, extends with
                                                       zeros only, leaves every other byte alone
  M  reverse variants are mirror images                packify(reverse) == P[::-1]; unpackify(b[::-1], reverse) == unpackify(b)
"""
from vf import fnref
from vf.core import exc_key

LEVEL = "exploration"
RULE = ("bit formats = ordered tuples of field widths >= 1; quick: every format of total width 1..8 with every vector "
        "of in-range field values (43 690 cases, exhaustive) and every format of total width 9..16 (65 280 formats) "
        "with 2 value vectors each (all ones, seeded random incl. over-wide and negative values for "
        "fields wider than one bit; thorough adds alternating bits and more random ones); thorough: exhaustive up to total width 10 (699 050 cases) and 8 vectors per "
        "format for 9..16 wide ones; seeded random formats of total width up to 256 bits with explicit size, "
        "reverse, offsets and random neighbouring bytes for packifyInto, arbitrary byte strings for unpackify; "
        "scalar codecs: bytify/unbytify all n < 2**16 and -n-1 at sizes 0..3 (quick: one size per n, rotating) and "
        "random n up to 2**200, hexify/unhexify/"
        "hexize/unhexize all byte strings <= 2 bytes and random ones (odd length, mixed case, separators), "
        "binize/unbinize all n < 2**12 at sizes 1..12 and random, signExtend all (x, n) with n <= 12 and random n "
        "<= 128; distinct = distinct (function family, format, values / argument); non-trivial = at least one "
        "field / one byte / one digit")
RULE = __import__("vf.core", fromlist=["rule_add"]).rule_add(RULE, "also round trips through the caller's own buffer (bytify(unbytify(mine)) == mine, buffer unchanged), the reverse reading of a kept buffer against the plain reading of its mirror image")
META = {"engine": "C function",
        "technique": "differential test against integer arithmetic (exhaustive small formats + random wide ones)",
        "level_text": "exploration: all formats up to 8 (quick) / 10 (thorough) bits with all field values are "
                      "enumerated, all formats up to 16 bits with sampled values, wider formats sampled; the proof "
                      "part of the quantifier is not produced by this family (DESIGN 5)",
        "level_note": "trusts int.to_bytes / int.from_bytes / bytes.hex / format(..,'b') as the arithmetic reference; "
                      "one-bit fields are only given 0/1/False/True (statement says masked, doc string says truthy)"}


# ------------------------------------------------------------------ bit fields

def fmt_of(widths, rng=None):
    if rng is None:
        return u" ".join(str(w) for w in widths)
    seps = [u" ", u"  ", u"\t", u" \n"]
    return u"".join(str(w) + (rng.choice(seps) if i + 1 < len(widths) else u"") for i, w in enumerate(widths))


def masked(widths, values, boolean):
    out = []
    for w, v in zip(widths, values):
        if w == 1:
            out.append(bool(v) if boolean else (1 if v else 0))
        else:
            out.append(int(v) % (1 << w))
    return tuple(out)


def same_fields(got, want, pad=False):
    """equal values and bool-ness where a bool was requested (the bool-ness of a
    one-bit *padding* field is not specified by the statement: either is fine)"""
    if not isinstance(got, tuple) or len(got) != len(want):
        return False
    for i, (g, w) in enumerate(zip(got, want)):
        if g != w:
            return False
        if isinstance(g, bool) != isinstance(w, bool) and not (pad and i == len(want) - 1):
            return False
    return True


class Bits(object):
    def __init__(self, ctx):
        from ioflo.aid import byting
        self.ctx = ctx
        self.b = byting

    def one(self, widths, values, tag, size=None, reverse=False, boolean=False, offset=0,
            buf=None, raw=None, fmt=None, key=None):
        """One (format, values) case: P, U, I, M (and A when raw bytes are given)."""
        ctx, b = self.ctx, self.b
        fmt = fmt or fmt_of(widths)
        total = sum(widths)
        ctx.case(key if key is not None else ("pk", widths, [int(v) for v in values], size, reverse, boolean, offset),
                 nontrivial=len(widths) >= 1)
        kw = {}
        if size is not None:
            kw["size"] = size
        rsize = size if size is not None else fnref.nbytes_for(total)

        def wit(**more):
            d = {"fmt": fmt, "fields": [int(v) for v in values][:40], "size": size, "reverse": reverse,
                 "boolean": boolean, "offset": offset}
            d.update(more)
            return d

        want = fnref.ref_pack(widths, values, size=size, reverse=False)
        try:
            got = b.packify(fmt, list(values), **kw)
            got_r = b.packify(fmt, list(values), reverse=True, **kw)
        except Exception as e:
            ctx.fail("packify/raises/" + exc_key(e), "packify raises %r" % (e,), wit())
            return
        ctx.check(bytes(got) == want, "packify/bytes-differ-from-integer-reference/" + tag,
                  "packify result differs from the integer reference",
                  lambda: wit(got=bytes(got).hex(), want=want.hex()))
        ctx.check(bytes(got_r) == want[::-1], "packify/reverse-is-not-mirror-image/" + tag,
                  "packify(reverse=True) is not the byte-mirror of packify(reverse=False)",
                  lambda: wit(got=bytes(got_r).hex(), want=want[::-1].hex()))

        # U: unpack what was packed
        pad = 8 * rsize - total
        want_fields = masked(widths, values, boolean) + ((0,) if pad else ())
        try:
            un = b.unpackify(fmt, bytearray(want), boolean=boolean, **kw)
            un_r = b.unpackify(fmt, bytearray(want[::-1]), boolean=boolean, reverse=True, **kw)
        except Exception as e:
            ctx.fail("unpackify/raises/" + exc_key(e), "unpackify raises %r" % (e,), wit(bytes=want.hex()))
            return
        ctx.check(same_fields(un, want_fields, bool(pad)), "unpackify/roundtrip-not-values-masked-to-width/" + tag,
                  "unpackify(packify(values)) is not the values masked to their field widths (+ padding field)",
                  lambda: wit(got=repr(un), want=repr(want_fields)))
        ctx.check(same_fields(un_r, want_fields, bool(pad)), "unpackify/reverse-is-not-mirror-image/" + tag,
                  "unpackify(reversed bytes, reverse=True) differs from unpackify(bytes)",
                  lambda: wit(got=repr(un_r), want=repr(want_fields)))
        # ... and with one buffer the caller keeps: its reverse reading and the plain reading of its mirror image agree
        mine = bytearray(want[::-1])
        try:
            m1 = b.unpackify(fmt, mine, boolean=boolean, reverse=True, **kw)
            m2 = b.unpackify(fmt, mine[::-1], boolean=boolean, **kw)
            ctx.hit("mirror_readings_of_a_buffer_the_caller_keeps")
            ctx.check(same_fields(m1, m2, False) and same_fields(m1, want_fields, bool(pad)),
                      "unpackify/reverse-reading-of-a-kept-buffer-is-not-the-plain-reading-of-its-mirror/" + tag,
                      "unpackify(mine, reverse=True) and unpackify(mine[::-1]) differ for a buffer the caller keeps",
                      lambda: wit(first=repr(m1), second=repr(m2), buffer_before=want[::-1].hex(), buffer_after=bytes(mine).hex()))
        except Exception as e:
            ctx.fail("unpackify/raises/" + exc_key(e), "unpackify raises %r" % (e,), wit(bytes=want.hex()))

        # A: arbitrary bytes
        if raw is not None:
            ref = fnref.ref_unpack(widths, raw, boolean=boolean, size=size, reverse=reverse)
            try:
                una = b.unpackify(fmt, bytearray(raw), boolean=boolean, reverse=reverse, **kw)
                ctx.check(same_fields(una, ref, bool(pad)), "unpackify/fields-differ-from-integer-reference/" + tag,
                          "unpackify of arbitrary bytes differs from the integer reference",
                          lambda: wit(bytes=bytes(raw).hex()[:80], got=repr(una), want=repr(ref)))
                ctx.hit("unpack_arbitrary_bytes")
            except Exception as e:
                ctx.fail("unpackify/raises/" + exc_key(e), "unpackify raises %r" % (e,), wit(bytes=bytes(raw).hex()[:80]))

        # I: pack into a buffer
        before = bytes(buf) if buf is not None else b""
        target = bytearray(before)
        try:
            ret = b.packifyInto(target, fmt, list(values), offset=offset, reverse=reverse, **kw)
        except Exception as e:
            ctx.fail("packifyInto/raises/" + exc_key(e), "packifyInto raises %r" % (e,), wit(buf=before.hex()[:80]))
            return
        wantseg = want[::-1] if reverse else want
        base = before + bytes(max(0, offset + rsize - len(before)))
        expect = base[:offset] + wantseg + base[offset + rsize:]
        ctx.check(ret == rsize, "packifyInto/returned-size-wrong/" + tag,
                  "packifyInto does not return the number of bytes packed", lambda: wit(got=ret, want=rsize))
        if bytes(target) != expect:
            seg_ok = bytes(target[offset:offset + rsize]) == wantseg
            key = ("packifyInto/segment-differs-from-packify/" if not seg_ok
                   else "packifyInto/other-bytes-disturbed/") + tag
            ctx.fail(key, "packifyInto wrote wrong bytes at the offset" if not seg_ok
                     else "packifyInto disturbed bytes outside [offset, offset+size)",
                     wit(before=before.hex()[:80], got=bytes(target).hex()[:120], want=expect.hex()[:120]))
        else:
            ctx.check(True, "packifyInto/ok")
        if before and (offset > 0 or len(before) > offset + rsize):
            ctx.hit("packinto_with_neighbours")
        if len(before) < offset + rsize:
            ctx.hit("packinto_extends")
        # I': a call REJECTED for a size too small for the format (ValueError, documented) has written nothing: the
        # caller's buffer - bytes and length - is what it was (seeded C40-M: room made before the width was validated)
        tbfl = sum(widths)
        small = (tbfl - 1) // 8 if tbfl > 0 else None       # largest size that cannot hold the format
        if small is not None and small >= 0:
            target = bytearray(before)
            try:
                b.packifyInto(target, fmt, list(values), size=small, offset=offset, reverse=reverse)
            except ValueError:
                ctx.hit("packinto_rejected_size_too_small")
                ctx.check(bytes(target) == before, "packifyInto/rejected-call-changed-the-buffer/" + tag,
                          "packifyInto rejected the call (size too small for the format) but changed the caller's buffer",
                          lambda: wit(before=before.hex()[:80], after=bytes(target).hex()[:120], size=small, offset=offset))
            except Exception as e:
                ctx.fail("packifyInto/size-too-small-raises/" + exc_key(e),
                         "packifyInto with a size too small for the format raises %r, not ValueError" % (e,),
                         wit(buf=before.hex()[:80], size=small))
            else:
                ctx.fail("packifyInto/size-too-small-accepted/" + tag,
                         "packifyInto accepted a size that cannot hold the format", wit(size=small, offset=offset))


def value_vectors(widths, rng, k):
    """k sampled value vectors for one format (one-bit fields stay 0/1)."""
    out = [[(1 << w) - 1 for w in widths],
           [(0x5555555555555555555 >> (i & 1)) & ((1 << w) - 1) for i, w in enumerate(widths)]]
    while len(out) < max(k, 3):
        v = []
        for w in widths:
            if w == 1:
                v.append(rng.choice((0, 1, False, True)))
            else:
                r = rng.random()
                if r < 0.6:
                    v.append(rng.getrandbits(w))
                elif r < 0.8:
                    v.append(rng.getrandbits(w + rng.randint(1, 9)))       # over-wide: must be masked
                elif r < 0.9:
                    v.append(-rng.getrandbits(w + 2) - 1)                   # negative: two's complement low bits
                else:
                    v.append(rng.choice((0, 1 << (w - 1), (1 << w) - 1)))
        out.append(v)
    if k == 2:
        return [out[0], out[2]]       # all ones + one random vector
    return out[:k]


def all_value_vectors(widths):
    import itertools
    return itertools.product(*[range(1 << w) for w in widths])


def do_exhaustive(ctx, bits, formats):
    n = 0
    for widths in formats:
        widths = tuple(widths)
        fmt = fmt_of(widths)
        short = "x" + "".join("%x" % w for w in widths)     # widths <= 10 -> one hex digit each... a == 10
        total = sum(widths)
        for values in all_value_vectors(widths):
            v = 0
            for w, x in zip(widths, values):
                v = (v << w) | x
            key = "%s:%x" % (short, v)
            bits.one(widths, values, "exhaustive", fmt=fmt, key=key if len(key) <= 16 else None,
                     boolean=bool(v & 1), reverse=bool(v & 2),
                     offset=(v % 3), buf=bytes([0xA5, 0x5A, 0xC3, 0x3C, 0x99][:(v % 6)]))
            n += 1
        ctx.hit("formats_exhaustive")
    ctx.hit("cases_exhaustive", n)


def do_sampled(ctx, bits, formats, k, rng):
    for widths in formats:
        widths = tuple(widths)
        fmt = fmt_of(widths)
        total = sum(widths)
        for j, values in enumerate(value_vectors(widths, rng, k)):
            size = None if j % 2 == 0 else fnref.nbytes_for(total) + rng.randint(0, 2)
            rsize = size if size is not None else fnref.nbytes_for(total)
            raw = bytes(rng.getrandbits(8) for _ in range(rsize + rng.randint(0, 2)))
            buf = bytes(rng.getrandbits(8) for _ in range(rng.randint(0, 6)))
            bits.one(widths, values, "sampled", size=size, reverse=bool(j & 2), boolean=bool(j & 1),
                     offset=rng.randint(0, 4), buf=buf, raw=raw, fmt=fmt)
        ctx.hit("formats_sampled")


def do_random_wide(ctx, bits, n, rng):
    for i in range(n):
        nf = rng.randint(1, 24)
        widths = []
        for _ in range(nf):
            r = rng.random()
            widths.append(1 if r < 0.25 else (rng.randint(2, 9) if r < 0.8 else rng.randint(10, 64)))
        while sum(widths) > 256:
            widths.pop()
        widths = tuple(widths)
        total = sum(widths)
        values = value_vectors(widths, rng, 3)[2]
        size = None if rng.random() < 0.5 else fnref.nbytes_for(total) + rng.randint(0, 3)
        rsize = size if size is not None else fnref.nbytes_for(total)
        raw = bytes(rng.getrandbits(8) for _ in range(rsize + rng.randint(0, 3)))
        buf = bytes(rng.getrandbits(8) for _ in range(rng.randint(0, rsize + 8)))
        bits.one(widths, values, "wide", size=size, reverse=rng.random() < 0.5, boolean=rng.random() < 0.5,
                 offset=rng.randint(0, 9), buf=buf, raw=raw, fmt=fmt_of(widths, rng))
        ctx.hit("formats_wide")
        if i == 0:
            ctx.sample({"fmt": fmt_of(widths), "fields": [int(v) for v in values], "size": size,
                        "packed_hex": fnref.ref_pack(widths, values, size=size).hex()})


# ------------------------------------------------------------------ scalar codecs

def guard(ctx, name, fn, *a, **kw):
    try:
        return True, fn(*a, **kw)
    except Exception as e:
        ctx.fail("%s/raises/%s" % (name, exc_key(e)), "%s raises %r" % (name, e), {"args": repr(a)[:200], "kw": repr(kw)})
        return False, None


def scalar_bytify(ctx, b, n, size, reverse, strict, tag):
    ctx.case(("by", n, size, reverse, strict), nontrivial=True)
    want = fnref.ref_bytify(n, size, reverse, strict)
    ok, got = guard(ctx, "bytify", b.bytify, n, size, reverse, strict)
    if not ok:
        return
    ctx.check(bytes(got) == want, "bytify/differs-from-integer-reference/" + tag,
              "bytify differs from int.to_bytes reference",
              lambda: {"n": n, "size": size, "reverse": reverse, "strict": strict, "got": bytes(got).hex(), "want": want.hex()})
    ok, back = guard(ctx, "unbytify", b.unbytify, got, reverse)
    if ok:
        expect = n % (1 << (8 * size)) if (n < 0 or strict) else n
        ctx.check(back == expect, "unbytify/not-inverse-of-bytify/" + tag,
                  "unbytify(bytify(n)) is not n (mod 2**(8 size) when truncating)",
                  lambda: {"n": n, "size": size, "reverse": reverse, "strict": strict, "got": back, "want": expect})


def scalar_unbytify(ctx, b, data, reverse, tag):
    ctx.case(("ub", bytes(data).hex(), reverse), nontrivial=len(data) >= 1)
    want = int.from_bytes(bytes(data), "little" if reverse else "big")
    forms = [bytearray(data), bytes(data), list(data)]
    for f in forms:
        ok, got = guard(ctx, "unbytify", b.unbytify, f, reverse)
        if ok:
            ctx.check(got == want, "unbytify/differs-from-integer-reference/" + tag,
                      "unbytify differs from int.from_bytes", lambda: {"bytes": bytes(data).hex()[:80], "reverse": reverse,
                                                                      "got": got, "want": want})
    # the statement read as an expression over a buffer b of the caller's own: bytify(unbytify(b), len(b)) == b
    mine = bytearray(data)
    ok, v = guard(ctx, "unbytify", b.unbytify, mine, reverse)
    if ok:
        ok2, back = guard(ctx, "bytify", b.bytify, v, len(mine), reverse)
        if ok2:
            ctx.check(bytes(back) == bytes(mine), "bytify/not-inverse-of-unbytify/callers-buffer/" + tag,
                      "for a bytearray b: bytify(unbytify(b, reverse=%s), len(b), reverse=%s) != b" % (reverse, reverse),
                      lambda: {"b_before": bytes(data).hex()[:80], "b_after": bytes(mine).hex()[:80], "reverse": reverse,
                               "got": bytes(back).hex()[:80]})
    ok, got = guard(ctx, "bytify", b.bytify, want, len(data), reverse)
    if ok:
        ctx.check(bytes(got) == bytes(data), "bytify/not-inverse-of-unbytify/" + tag,
                  "bytify(unbytify(b), len(b)) is not b",
                  lambda: {"bytes": bytes(data).hex()[:80], "reverse": reverse, "got": bytes(got).hex()[:80]})


def scalar_hex(ctx, b, data, tag):
    data = bytes(data)
    ctx.case(("hx", data.hex()), nontrivial=len(data) >= 1)
    want = data.hex()
    for name, enc, dec, arg, rtype in (("hexify", b.hexify, b.unhexify, bytearray(data), bytearray),
                                       ("hexify", b.hexify, b.unhexify, data, bytearray),
                                       ("hexize", b.hexize, b.unhexize, data, bytes)):
        ok, h = guard(ctx, name, enc, arg)
        if not ok:
            continue
        ctx.check(h == want, "%s/differs-from-bytes.hex/%s" % (name, tag), "%s differs from bytes.hex()" % name,
                  lambda: {"bytes": want[:80], "got": h[:80]})
        ok, back = guard(ctx, "un" + name, dec, h)
        if ok:
            ctx.check(bytes(back) == data, "un%s/not-inverse/%s" % (name, tag),
                      "un%s(%s(b)) is not b" % (name, name), lambda: {"bytes": want[:80], "got": repr(back)[:80]})


def scalar_unhex(ctx, b, text, tag):
    """text: hex digits in any case, possibly odd length, possibly with documented-removed separators"""
    import string
    ctx.case(("uh", text), nontrivial=len(text) >= 1)
    digits = "".join(c for c in text if c in string.hexdigits)
    if len(digits) % 2:
        digits = "0" + digits
    want = bytes.fromhex(digits)
    for name, dec, enc in (("unhexify", b.unhexify, b.hexify), ("unhexize", b.unhexize, b.hexize)):
        ok, got = guard(ctx, name, dec, text)
        if not ok:
            continue
        ctx.check(bytes(got) == want, "%s/differs-from-bytes.fromhex/%s" % (name, tag),
                  "%s differs from bytes.fromhex of the hex digits (left padded to even length)" % name,
                  lambda: {"text": text[:80], "got": bytes(got).hex()[:80], "want": want.hex()[:80]})
        ok, back = guard(ctx, enc.__name__, enc, got)
        if ok:
            ctx.check(back == digits.lower(), "%s/not-inverse/%s" % (enc.__name__, tag),
                      "%s(%s(h)) is not h (lower case, even length)" % (enc.__name__, name),
                      lambda: {"text": text[:80], "got": back[:80]})


def scalar_bin(ctx, b, n, size, tag):
    ctx.case(("bn", n, size), nontrivial=size >= 1)
    want = format(n % (1 << size), "0%db" % size) if size > 0 else ""
    ok, got = guard(ctx, "binize", b.binize, n, size)
    if not ok:
        return
    ctx.check(got == want, "binize/differs-from-format-b/" + tag, "binize differs from format(n mod 2**size, 'b')",
              lambda: {"n": n, "size": size, "got": got[:80], "want": want[:80]})
    ok, back = guard(ctx, "unbinize", b.unbinize, got)
    if ok:
        ctx.check(back == n % (1 << size), "unbinize/not-inverse-of-binize/" + tag,
                  "unbinize(binize(n, size)) is not n mod 2**size", lambda: {"n": n, "size": size, "got": back})


def scalar_unbin(ctx, b, text, tag):
    ctx.case(("ubn", text), nontrivial=len(text) >= 1)
    want = int(text, 2) if text else 0
    ok, got = guard(ctx, "unbinize", b.unbinize, text)
    if not ok:
        return
    ctx.check(got == want, "unbinize/differs-from-int-base-2/" + tag, "unbinize differs from int(text, 2)",
              lambda: {"text": text[:80], "got": got, "want": want})
    if text:
        ok, back = guard(ctx, "binize", b.binize, got, len(text))
        if ok:
            ctx.check(back == text, "binize/not-inverse-of-unbinize/" + tag, "binize(unbinize(u), len(u)) is not u",
                      lambda: {"text": text[:80], "got": back[:80]})


def scalar_sign(ctx, b, x, n, tag):
    ctx.case(("se", x, n), nontrivial=True)
    want = fnref.ref_sign_extend(x, n)
    ok, got = guard(ctx, "signExtend", b.signExtend, x, n)
    if ok:
        ctx.check(got == want, "signExtend/not-twos-complement/" + tag,
                  "signExtend(x, n) is not the two's complement value of the n-bit pattern x",
                  lambda: {"x": x, "n": n, "got": got, "want": want})
        ctx.check(-(1 << (n - 1)) <= got < (1 << (n - 1)) and (got - x) % (1 << n) == 0,
                  "signExtend/not-congruent-or-out-of-range/" + tag,
                  "signExtend result out of [-2**(n-1), 2**(n-1)) or not congruent to x mod 2**n",
                  lambda: {"x": x, "n": n, "got": got})


def do_scalars_exhaustive(ctx, part, parts):
    from ioflo.aid import byting as b
    # bytify / unbytify: all n < 2**16 at sizes 0..3 (sharded by n)
    for n in range(part, 1 << 16, parts):
        for size in ((n % 4,) if ctx.quick else range(4)):
            scalar_bytify(ctx, b, n, size, bool((n >> 4) & 1), bool((n >> 5) & 1), "exhaustive")
            scalar_bytify(ctx, b, -n - 1, size, bool((n >> 5) & 1), False, "exhaustive")
        if n < (1 << 12):
            for size in range(1, 13):
                scalar_bin(ctx, b, n, size, "exhaustive")
            scalar_unbin(ctx, b, format(n, "b").rjust(n % 13, "0"), "exhaustive")
        ctx.hit("scalar_exhaustive")
    # the truncation boundary of every size, both strictness settings, both byte orders
    if part == 0:
        for size in range(0, 6):
            for k in (1, 2, 3, 255, 256, 257):
                for d in (-2, -1, 0, 1, 2):
                    n = k * 256 ** size + d
                    for strict in (False, True):
                        for reverse in (False, True):
                            scalar_bytify(ctx, b, n, size, reverse, strict if n >= 0 else False, "boundary")
                            ctx.hit("scalar_boundary")
    # all byte strings <= 2 bytes
    for v in range(part, 65536 + 256 + 1, parts):
        if v == 0:
            data = b""
        elif v <= 256:
            data = bytes([v - 1])
        else:
            data = bytes(divmod(v - 257, 256))
        scalar_hex(ctx, b, data, "exhaustive")
        scalar_unbytify(ctx, b, data, bool(v & 1), "exhaustive")
    # signExtend all (x, n), n <= 12
    for n in range(1, 13):
        for x in range(part, 1 << n, parts):
            scalar_sign(ctx, b, x, n, "exhaustive")
    # all hex strings of length <= 3 over a mixed-case alphabet
    import itertools
    alpha = "0189afAF"
    k = 0
    for ln in range(0, 4):
        for tup in itertools.product(alpha, repeat=ln):
            k += 1
            if k % parts == part:
                scalar_unhex(ctx, b, "".join(tup), "exhaustive")


def do_scalars_random(ctx, n, rng):
    from ioflo.aid import byting as b
    for i in range(n):
        bits = rng.choice((8, 16, 31, 32, 33, 64, 100, 200))
        x = rng.getrandbits(bits)
        size = rng.randint(0, bits // 8 + 2)
        scalar_bytify(ctx, b, x, size, rng.random() < 0.5, rng.random() < 0.5, "random")
        scalar_bytify(ctx, b, -x - 1, size, rng.random() < 0.5, rng.random() < 0.5, "random")
        data = bytes(rng.getrandbits(8) for _ in range(rng.randint(0, 40)))
        if rng.random() < 0.3:
            data = bytes(rng.randint(0, 3)) + data          # leading zero bytes
        scalar_unbytify(ctx, b, data, rng.random() < 0.5, "random")
        scalar_hex(ctx, b, data, "random")
        text = "".join(rng.choice("0123456789abcdefABCDEF") for _ in range(rng.randint(0, 41)))
        scalar_unhex(ctx, b, text, "random")
        if rng.random() < 0.3:
            sep = rng.choice((" ", ":", "-", ".", "\n"))
            scalar_unhex(ctx, b, sep.join(text[j:j + 2] for j in range(0, len(text), 2)), "random-separators")
            ctx.hit("hex_with_separators")
        bsize = rng.randint(1, 130)
        scalar_bin(ctx, b, rng.getrandbits(rng.randint(1, bsize + 8)), bsize, "random")
        scalar_unbin(ctx, b, "".join(rng.choice("01") for _ in range(rng.randint(0, 130))), "random")
        nn = rng.randint(1, 128)
        scalar_sign(ctx, b, rng.getrandbits(nn), nn, "random")
        scalar_sign(ctx, b, rng.choice((0, (1 << (nn - 1)) - 1 if nn > 1 else 0, 1 << (nn - 1), (1 << nn) - 1)), nn, "random")
        ctx.hit("scalar_random")
    ctx.sample({"bytify": {"n": 0x1234, "size": 4, "reverse": True, "want": fnref.ref_bytify(0x1234, 4, True).hex()},
                "signExtend": {"x": 0xF0, "n": 8, "want": fnref.ref_sign_extend(0xF0, 8)}})


# ------------------------------------------------------------------ driver

def worker(ctx, job):
    rng = ctx.subrng("c40", job["kind"], job["index"])
    kind = job["kind"]
    if kind == "exh":
        do_exhaustive(ctx, Bits(ctx), job["formats"])
    elif kind == "sampled":
        do_sampled(ctx, Bits(ctx), job["formats"], job["k"], rng)
    elif kind == "wide":
        do_random_wide(ctx, Bits(ctx), job["n"], rng)
    elif kind == "scalar_exh":
        do_scalars_exhaustive(ctx, job["part"], job["parts"])
    elif kind == "scalar_rnd":
        do_scalars_random(ctx, job["n"], rng)


def run(ctx):
    wmax = ctx.pick(8, 10)
    # cost of a format = 2**total value vectors; balance jobs by cost
    fmts = [(w, c) for w in range(1, wmax + 1) for c in fnref.compositions(w)]
    fmts.sort(key=lambda wc: -wc[0])
    njobs = ctx.pick(6, 64)
    loads = [[0, []] for _ in range(njobs)]
    for w, c in fmts:
        tgt = min(loads, key=lambda l: l[0])
        tgt[0] += 1 << w
        tgt[1].append(list(c))
    jobs = [{"kind": "exh", "formats": l[1]} for l in loads if l[1]]
    expected_exh = sum(1 << w for w, _ in fmts)
    ctx.sample({"exhaustive_formats": len(fmts), "exhaustive_cases": expected_exh,
                "example": {"fmt": "1 3 2 2", "fields": [1, 4, 0, 3], "packed_hex": fnref.ref_pack((1, 3, 2, 2), (1, 4, 0, 3)).hex()}})

    wide = [list(c) for w in range(9, 17) for c in fnref.compositions(w)]
    k = ctx.pick(2, 8)
    for ch in fnref.chunks(wide, ctx.pick(10, 48)):
        jobs.append({"kind": "sampled", "formats": ch, "k": k})
    nwide = ctx.pick(4000, 160000)
    per = ctx.pick(1000, 5000)
    jobs += [{"kind": "wide", "n": per} for _ in range(nwide // per)]
    parts = ctx.pick(8, 16)
    jobs += [{"kind": "scalar_exh", "part": p, "parts": parts} for p in range(parts)]
    nsc = ctx.pick(4000, 80000)
    jobs += [{"kind": "scalar_rnd", "n": nsc // 4} for _ in range(4)]
    ctx.shard(jobs, timeout=ctx.pick(90, 340))

    ctx.exhaustive = True
    ctx.extra["exhaustive_scope"] = ("all formats of total width <= %d with all in-range field values; all formats of "
                                     "total width <= 16 with sampled values; scalar codecs on the small domains named "
                                     "in the rule" % wmax)
    ctx.floor("cases_exhaustive", expected_exh)
    ctx.floor("formats_exhaustive", len(fmts))
    ctx.floor("formats_sampled", len(wide))
    ctx.floor("formats_wide", nwide // 3)
    ctx.floor("unpack_arbitrary_bytes", (len(wide) * k + nwide) // 3)
    ctx.floor("packinto_with_neighbours", expected_exh // 4)
    ctx.floor("packinto_extends", expected_exh // 4)
    ctx.floor("scalar_exhaustive", 65536)
    ctx.floor("scalar_random", nsc // 3)
    ctx.floor("hex_with_separators", nsc // 20)
    ctx.floor("distinct_nontrivial", expected_exh + len(wide) * k // 2 + 65536)
