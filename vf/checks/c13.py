"""C13 relative store addressing is invariant under consistent renaming (engine A, build + short run)."""
import random
import re

from vf import core

LEVEL = "exploration"
RULE = ("seeded random FloScript programs (1-2 active framers, an optional plain aux framer, 1-2 moot framers cloned once or twice "
        "by `aux .. as name|mine [via ..]`, also from inside another moot; 2-4 frames per framer nested up to depth 3; optional `via` "
        "inodes on framers, frames, clones and do-acts in absolute, root-, me-, framer-, frame-, actor- and main-relative form) whose "
        "put/set/inc/copy/go-if (boolean, ==/!= with direct or indirect goal, is updated/changed)/do statements address the store through reference sites of every written form (absolute, root-relative, "
        "`of me`, `of framer [me|name]`, `of frame [me|name] [of framer ..]`, `of actor [me|name] ..`, `of framer main` / `of frame main`, "
        "inline and partial-inline spellings, raw ioinit paths of `do .. per` and of `do .. for` (path text pre-loaded by `init`), `do .. from`, `do .. via`); literal path segments reuse "
        "the program's framer/frame/actor/tag names and the words me/main/framer/frame/actor; each program is built with the real "
        "Builder, run for a few ticks, and then re-built once per framer, frame, named actor and clone tag with that one name replaced "
        "by a fresh token; actions placed in every context (recur, exit, rexit, renter, precur); clones reared at run time by another frame than the one they are reared into, under every single renaming; distinct = distinct (program text, renamed entity); non-trivial = the program built and at least one reference "
        "site's path is expected to follow the renaming")
RULE = __import__("vf.core", fromlist=["rule_add"]).rule_add(RULE, 'also a deed with a registered ioinit default (`VfGaugeLevel`, with and without `per`), all builds in one process; actors also named by `cum name` beginning with a small letter')
META = {"engine": "A floscript (build, resolve, short run)",
        "technique": "metamorphic runtime check: resolved share paths of tagged reference sites before/after each single renaming",
        "level_text": "Every reference site ends in a unique tail segment, so the share it resolved to is read both from the built act's "
                      "parameters and from a walk of the store tree.  For each single renaming to a fresh token the resolved path must "
                      "contain the fresh token exactly where the site's syntax says it resolves through the renamed entity (verbatim, or "
                      "split at capitals for `actor me`), and must be the original path once the token is put back; all other paths and "
                      "the whole set of store names must be unchanged.  A short run confirms that writes land at the observed paths.",
        "level_note": "Which names a site resolves through is decided from the AST by vf/flo/relrefs.template (the documented inode and "
                      "me/main rules); runtime clones (rear) and conditional aux are outside the generated programs; plain aux framers "
                      "have no main at resolve time so `main` forms are generated in cloned moots only."}

RENAMES = {"F": "framer", "X": "frame", "A": "actor", "T": "clone"}


def fresh_for(key, naming, rng):
    if key[0] == "F":
        return "zqf9"
    if key[0] == "X":
        return "zqx9"
    if key[0] == "T":
        return "zqt9"
    old = naming[key]
    n = rng.choice([k for k in (1, 2, 3) if k != len(old)])
    # also names whose humps are single letters or carry digits (ZqAB, Zq9X2)
    return rng.choice([["zqa", "zqb", "zqc"], ["zqa", "zqb", "zqc"], ["zq", "a", "b"], ["zq9", "x2", "y"]])[:max(n, 2) if rng.random() < 0.5 else n]


def forms(key, old, new):
    """[(text of the fresh name as it may occur in a path, text of the old name in the same mode, mode)]"""
    from vf.flo import relrefs as R
    if key[0] == "A":
        return [(R.camel_name(new), R.camel_name(old), "v"), (".".join(new), ".".join(old), "c")]
    return [(new, old, "v")]


def put_back(path, fm):
    """occurrences of the fresh token in `path` (modes, in order) and the path with the old name put back"""
    rx = re.compile("|".join(re.escape(f[0]) for f in fm))
    modes = []

    def sub(m):
        for fresh, old, mode in fm:
            if m.group(0) == fresh:
                modes.append(mode)
                return old
        return m.group(0)
    return modes, rx.sub(sub, path)


def observe(R, prog, text, sites):
    """build text; returns (built, paths{(inst,tail)->name}, store share dict, node set, problems)"""
    b = R.build(text)
    if not b.ok:
        return b, None, None, None, ["build failed: %s" % (b.msgs[-2:] if b.msgs else b.exc,)]
    obs, problems, built = R.observe_acts(prog, b.house)
    b.clocks = built.pop("__clocks__", [])
    shares, nodes = R.store_names(b.house.store)
    R.fill_from_store(sites, obs, shares)
    return b, obs, shares, nodes, problems


def worker(ctx, job):
    import random as _random
    from vf.flo import relrefs as _R
    for seed in job.get("reared", []):
        reared_check(ctx, _R, _random.Random(seed))
    for seed in job.get("gauge", []):
        gauge_check(ctx, _R, _random.Random(seed))
    from vf.flo import relrefs as R
    for seed in job["seeds"]:
        rng = random.Random(seed)
        prog = R.gen_program(rng, size=job.get("size", 1.0), deep=(seed % 3 == 2))
        naming = prog["naming"]
        text = R.render(prog)
        sites = R.sites(prog)
        b, obs, shares, nodes, problems = observe(R, prog, text, sites)
        if not b.ok:
            ctx.inconclusive_case("generated program did not build: %s\n%s" % (problems, text))
            continue
        if problems:
            ctx.inconclusive_case("built structure does not match the AST: %s\n%s" % (problems, text))
            continue
        ctx.event(len(shares) + len(nodes))
        # implicit framer-relative references (timeout, repeat, elapsed, recurred): the need of every instance -- a clone too --
        # reads the clock of that instance, framer.<its own name>.state|goal.<clock>
        for ikey, fname, name in b.clocks:
            ctx.hit("implicit_clock_refs" + ("_in_clones" if len(ikey) > 1 else ""))
            ctx.check(name.split(".")[:2] == ["framer", fname] and name in shares, "implicit-clock-reference-not-of-its-own-framer",
                      "timeout / repeat / elapsed / recurred of framer instance %s resolves to %s" % (fname, name),
                      lambda: {"instance": fname, "resolved": name, "program": text})
        base = {}
        okbase = True
        for sk, info in sites.items():
            names = obs.get(sk)
            if not names:
                ctx.inconclusive_case("reference site %s %s not found in the built acts\n%s" % (sk, info["ref"]["role"], text))
                okbase = False
                continue
            if not ctx.check(len(names) == 1, "site-resolves-to-several-names", "one reference site holds shares of different names",
                             lambda: {"site": str(sk), "names": sorted(names), "program": text}):
                okbase = False
                continue
            name = next(iter(names))
            base[sk] = name
            instore = (name in nodes) if info["ref"]["node"] else (name in shares and shares[name].name.strip(".") == name)
            ctx.check(instore, "parm-share-not-at-its-name-in-store",
                      "the share/node held by the act is not found in the store tree under its own name",
                      lambda: {"site": str(sk), "name": name, "program": text})
            mp = R.model_path(info["tpl"], naming)
            ctx.hit("model_exact" if mp == name else "model_differs")
            if mp != name and len(ctx.extra.setdefault("model_differs_examples", [])) < 5:
                ctx.extra["model_differs_examples"].append({"site": str(sk), "role": info["ref"]["role"], "model": mp, "real": name})
        if not okbase:
            continue
        # the store holds, per tail, exactly the names the acts hold
        bytail = {}
        for n in list(shares) + sorted(nodes):
            t = n.split(".")[-1]
            if R.TAIL.match(t):
                bytail.setdefault(t, set()).add(n)
        fromacts = {}
        for sk, n in base.items():
            fromacts.setdefault(sk[1], set()).add(n)
        ctx.check(bytail == fromacts, "store-holds-other-tagged-shares-than-acts",
                  "the shares/nodes in the store carrying reference tails differ from those the acts resolved",
                  lambda: {"only_store": {k: sorted(v) for k, v in bytail.items() if fromacts.get(k) != v},
                           "only_acts": {k: sorted(v) for k, v in fromacts.items() if bytail.get(k) != v}, "program": text})

        run_confirm(ctx, R, prog, b, sites, base, shares, text)

        # ---- every single renaming
        deps_any = False
        for key in sorted(naming, key=repr):
            rk = RENAMES[key[0]]
            new = fresh_for(key, naming, rng)
            nm2 = dict(naming)
            nm2[key] = new
            text2 = R.render(prog, nm2)
            b2, obs2, shares2, nodes2, problems2 = observe(R, prog, text2, sites)
            if not b2.ok or problems2:
                ctx.fail("renamed-program-builds-differently/" + rk,
                         "after renaming one %s to a fresh name the program no longer builds to the same structure" % rk,
                         {"problems": [str(p)[:400] for p in problems2], "program": text, "renamed": text2, "entity": str(key)})
                ctx.case([text, repr(key)], nontrivial=False)
                continue
            fm = forms(key, naming[key], new)
            ndep = 0
            for sk, info in sites.items():
                names2 = obs2.get(sk) or set()
                kind = info["kind"]
                expect = R.occurrences(info["tpl"], key)
                ctx.hit("%s*%s" % (kind, rk))
                if info["via"]:
                    ctx.hit("via*%s" % rk)
                if expect:
                    ndep += 1
                    ctx.hit("dep:%s*%s" % (kind, rk))
                    if info["via"]:
                        ctx.hit("dep:via*%s" % rk)
                if len(names2) != 1:
                    ctx.fail("site-lost-after-renaming/%s/%s" % (rk, kind), "reference site not resolved to one name after renaming",
                             {"site": str(sk), "names": sorted(names2), "program": text, "renamed": text2})
                    continue
                p2 = next(iter(names2))
                p1 = base[sk]
                modes, back = put_back(p2, fm)
                tag = "%s-ref%s/%s-renamed" % (kind, "+via" if info["via"] else "", rk)

                def wit(sk=sk, info=info, p1=p1, p2=p2, expect=expect, modes=modes):
                    return {"site": str(sk), "role": info["ref"]["role"], "reference": R.render_ref(info["ref"], naming)
                            if not info["ref"].get("defaultkey") else "(ioinit default key)", "entity": str(key), "old": naming[key],
                            "new": new, "path_before": p1, "path_after": p2, "expected_occurrences": expect,
                            "found_occurrences": modes, "program": text, "renamed": text2}
                if not expect:
                    ctx.check(p2 == p1, "path-changes-though-not-through-renamed/" + tag,
                              "a reference that does not resolve through the renamed %s resolves to a different path" % rk, wit)
                elif len(modes) < len(expect):
                    ctx.check(False, "path-does-not-follow-renaming/" + tag,
                              "a reference that resolves through the renamed %s does not carry its new name (as often as it should)" % rk, wit)
                elif len(modes) > len(expect):
                    ctx.check(False, "path-follows-renaming-too-often/" + tag,
                              "the new name occurs in more segments than the reference's syntax produces from it", wit)
                elif modes != expect:
                    ctx.check(False, "name-segments-in-wrong-form/" + tag,
                              "the name occurs verbatim where it should be split at capitals, or the reverse", wit)
                else:
                    ctx.check(back == p1, "other-segments-change/" + tag,
                              "putting the old name back into the renamed path does not give the original path", wit)
            # the whole store: nothing else appears, disappears or moves
            tagged = lambda ns: [n for n in ns if R.TAIL.match(n.split(".")[-1])]     # inner nodes follow segment counts
            s1 = set(shares) | set(tagged(nodes))
            s2 = set(put_back(n, fm)[1] for n in list(shares2) + tagged(nodes2))
            ctx.check(s1 == s2, "store-name-set-changes-beyond-renaming/" + rk,
                      "after renaming, the set of store paths (old name put back) differs from the original set",
                      lambda: {"only_before": sorted(s1 - s2)[:10], "only_after": sorted(s2 - s1)[:10], "program": text,
                               "renamed": text2, "entity": str(key)})
            ctx.hit("renamings_" + rk)
            deps_any = deps_any or ndep > 0
            ctx.case([text, repr(key)], nontrivial=ndep > 0,
                     sample={"renamed": str(key), "old": naming[key], "new": new, "dependent_sites": ndep,
                             "sites": len(sites), "program": text} if ndep and len(text) < 3000 and rng.random() < 0.02 else None)
        ctx.hit("programs")
        ctx.hit("sites", len(sites))


def run_confirm(ctx, R, prog, b, sites, base, shares, text):
    """seed every tagged share with its own number, run a few ticks, and check that every executed
    statement wrote through / read from the shares found under the observed names"""
    seedv = {}
    for i, n in enumerate(sorted(shares)):
        if R.TAIL.match(n.split(".")[-1]) and n.split(".")[-1][0] == "r":
            seedv[n] = 1000003 * (i + 1)
            shares[n].update(value=seedv[n])
    exc, nticks = R.run_bounded(b, maxticks=8)
    if exc is not None and not isinstance(exc, R.TickCap):
        ctx.fail("run-raised/%s" % core.exc_key(exc), "running the built program raised %r" % (exc,), {"program": text})
        return
    ctx.hit("ticks", nticks)
    val = lambda n: shares[n].value
    # instances of one statement may share a destination (absolute / named / main-relative paths)
    groups = {}
    for sk, info in sites.items():
        groups.setdefault(id(info["stmt"]), {"stmt": info["stmt"], "info": info, "insts": []})
        if sk[0] not in groups[id(info["stmt"])]["insts"]:
            groups[id(info["stmt"])]["insts"].append(sk[0])
    for g in groups.values():
        s, info = g["stmt"], g["info"]
        op = s["op"]
        P = lambda ik, r: base[(ik, r["tail"])]
        res = []           # (what, destination, ok, executed, detail)
        if op == "put" or (op == "set" and not s["src"]):
            for d in sorted(set(P(ik, s["dst"]) for ik in g["insts"])):
                res.append((op, d, val(d) == R.marker(s["dst"]), val(d) != seedv[d], None))
        elif op in ("copy", "set"):
            bydst = {}
            for ik in g["insts"]:
                bydst.setdefault(P(ik, s["dst"]), set()).add(seedv[P(ik, s["src"])])
            for d, srcs in sorted(bydst.items()):
                res.append((op + "-from", d, val(d) in srcs, val(d) != seedv[d], sorted(srcs)))
        elif op == "inc":
            bydst = {}
            for ik in g["insts"]:
                bydst.setdefault(P(ik, s["dst"]), set()).add(seedv[P(ik, s["src"])] if s["src"] else 1)
            for d, steps in sorted(bydst.items()):
                delta = val(d) - seedv[d] if isinstance(val(d), (int, float)) and not isinstance(val(d), bool) else None
                res.append(("inc", d, delta is not None and sums_to(delta, sorted(steps), 40 * max(4, len(g["insts"]))), val(d) != seedv[d], sorted(steps)))
        elif op == "do":
            for p in s["pers"] + [io for src, io in s["fors"]]:
                key = p["tail"] if p.get("defaultkey") else "k%d" % p["id"]
                for d in sorted(set(P(ik, p) for ik in g["insts"])):
                    res.append(("do-per", d, val(d) == "do:" + key, val(d) != seedv[d], key))
        for what, d, ok, executed, detail in res:
            if not executed:
                ctx.hit("run_not_executed")
                continue
            ctx.hit("run_confirmed")
            ctx.check(ok, "run-write-lands-elsewhere/" + what,
                      "after the run the value expected at the observed path of a %s is not there" % what,
                      lambda: {"destination": d, "value": repr(val(d)), "seed": seedv[d], "expected_from": detail,
                               "statement": R.render_stmt(s, info["inst"].fi, prog["naming"]), "program": text})


def sums_to(total, steps, most):
    """total is a sum of at least one and at most `most` elements of steps (repetition allowed)"""
    if total <= 0:
        return False
    reach = {0}
    for _ in range(most):
        reach = set(a + b for a in reach for b in steps if a + b <= total) | reach
        if total in reach:
            return True
    return False


# minima over seeds 0..7 of a 48-program (quick) run on the unchanged tree; floors are a third of these (a fifth for the
# rare cells), scaled to the run size.  kind*rename = oracle evaluations of a reference written in that form (via = an inode
# was prepended) under a renaming of that kind of entity; dep: = those whose path is expected to follow the renaming.
MEASURED48 = {
    'abs*actor': 2827, 'abs*clone': 805, 'abs*frame': 5510, 'abs*framer': 1908,
    'root*actor': 2276, 'root*clone': 629, 'root*frame': 4580, 'root*framer': 1541,
    'me*actor': 1476, 'me*clone': 425, 'me*frame': 3109, 'me*framer': 1044,
    'framer*actor': 2960, 'framer*clone': 834, 'framer*frame': 5847, 'framer*framer': 2006,
    'frame*actor': 2737, 'frame*clone': 817, 'frame*frame': 5470, 'frame*framer': 1894,
    'actor*actor': 2241, 'actor*clone': 607, 'actor*frame': 4555, 'actor*framer': 1513,
    'main*actor': 1505, 'main*clone': 480, 'main*frame': 3299, 'main*framer': 1069,
    'via*actor': 4076, 'via*clone': 1216, 'via*frame': 8007, 'via*framer': 2752,
    'dep:framer*framer': 563, 'dep:framer*clone': 94,
    'dep:frame*frame': 468, 'dep:frame*framer': 520, 'dep:frame*clone': 74,
    'dep:actor*actor': 205, 'dep:actor*frame': 369, 'dep:actor*framer': 421, 'dep:actor*clone': 113,
    'dep:main*framer': 302, 'dep:main*frame': 162, 'dep:main*clone': 20, 'dep:main*actor': 17,
    'dep:me*framer': 72, 'dep:me*frame': 34, 'dep:me*clone': 25,
    'dep:root*framer': 216, 'dep:root*frame': 116, 'dep:root*clone': 39, 'dep:root*actor': 10,
    'dep:via*framer': 390, 'dep:via*frame': 227, 'dep:via*clone': 87, 'dep:via*actor': 42,
    'renamings_framer': 182, 'renamings_frame': 523, 'renamings_actor': 245, 'renamings_clone': 72,
    'programs': 48, 'sites': 2802, 'model_exact': 2802, 'run_confirmed': 1276,
}


# --------------------------------------------------------------------------- clones reared at run time
REAR_POOL = ["fa", "fb", "ga", "top", "xa", "xb", "xc", "foo", "ma", "mb", "hold", "setup"]


def reared_case(rng):
    """A framer T whose frame S rears, at run time, a clone of the moot framer M into another frame X of T; M's actions
    write through main-relative and own-relative references.  The clone's main frame is X -- the frame it was reared
    into -- whichever frame issued the rear."""
    names = rng.sample(REAR_POOL, 5)
    naming = dict(zip(["T", "S", "X", "M", "MF"], names))
    form = rng.choice(["full", "full", "noas", "nobe"])
    refs = rng.sample(["frame main", "framer main", "frame me", "framer me", "frame main", "framer"], rng.randint(3, 5))
    ctxs = [rng.choice(["enter", "recur", "exit"]) for _ in refs]
    return {"naming": naming, "form": form, "refs": list(zip(refs, ctxs)), "sfirst": rng.random() < 0.7,
            "via": rng.choice([None, None, "boo", "framer.me.bin"])}


def reared_text(case, naming):
    T, S, X, M, MF = (naming[k] for k in ("T", "S", "X", "M", "MF"))
    rear = "rear %s" % M + (" as mine" if case["form"] in ("full", "nobe") else "") + (" be aux" if case["form"] in ("full", "noas") else "")
    L = ["house h", "", "  framer %s be active first %s" % (T, S)]
    fS = ["    frame %s" % S, "      %s in frame %s" % (rear, X), "      go %s" % X]
    fX = ["    frame %s" % X, "      go %s if recurred >= 2" % "vfend", ]
    L += (fS + fX) if case["sfirst"] else (fX + fS)
    L += ["    frame vfend", "      bid stop all", ""]
    L += ["  framer %s be moot" % M + (" via %s" % case["via"] if case["via"] else ""), "    frame %s" % MF]
    for i, (r, c) in enumerate(case["refs"]):
        L += ["      %s" % c, "      put %d into r%d of %s" % (i + 1, i, r)]
    return "\n".join(L) + "\n"


def reared_model(case, naming):
    T, S, X, M, MF = (naming[k] for k in ("T", "S", "X", "M", "MF"))
    clone = "%s_%s1" % (T, M)
    out = {}
    for i, (r, c) in enumerate(case["refs"]):
        out["r%d" % i] = {"frame main": "framer.%s.frame.%s" % (T, X), "framer main": "framer.%s" % T,
                          "frame me": "framer.%s.frame.%s" % (clone, MF), "framer me": "framer.%s" % clone,
                          "framer": "framer.%s" % clone}[r] + ".r%d" % i
    return out


def reared_observe(R, text):
    from vf.flo import runner
    res = runner.run_text(text, maxticks=10, proxies=False)
    if not res.built:
        return "nobuild", (res.build_msgs[-2:], repr(res.build_error))
    if res.exc is not None:
        return "raised", repr(res.exc)
    shares, nodes = R.store_names(res.skedder.houses[0].store)
    got = {}
    for path, sh in shares.items():
        leaf = path.split(".")[-1]
        if len(leaf) == 2 and leaf[0] == "r" and leaf[1].isdigit():
            got.setdefault(leaf, []).append((path, sh.value))
    return "ok", got


def reared_check(ctx, R, rng):
    case = reared_case(rng)
    base = case["naming"]
    variants = [("base", None, base)]
    for key in ("T", "S", "X", "M", "MF"):
        nm = dict(base)
        nm[key] = "zq%s%d" % (key.lower(), rng.randint(10, 99))
        variants.append(("rename", key, nm))
    for kind, key, nm in variants:
        text = reared_text(case, nm)
        st, got = reared_observe(R, text)
        if st == "nobuild":
            ctx.inconclusive_case("reared-clone program did not build: %s" % (got,))
            return
        if st == "raised":
            ctx.fail("reared/run-raised", "run raised %s" % got, {"program": text})
            return
        model = reared_model(case, nm)
        ctx.event(len(model))
        ctx.hit("reared_clone_references_checked", len(model))
        if key:
            ctx.hit("reared_renamings_" + key)
        for leaf, want in sorted(model.items()):
            paths = got.get(leaf, [])
            written = [p for p, v in paths if v is not None]
            ref = dict(("r%d" % i, r) for i, (r, c) in enumerate(case["refs"]))[leaf]
            if not ctx.check([p for p, v in paths] == [want] and written == [want],
                             "reared/%s-resolves-elsewhere" % ref.replace(" ", "-"),
                             "clone of %s reared by frame %s into frame %s of %s: `%s of %s` resolved to %s, expected %s%s" % (
                                 nm["M"], nm["S"], nm["X"], nm["T"], leaf, ref, [p for p, v in paths], want,
                                 (" (after renaming %s)" % key) if key else ""),
                             lambda: {"program": text, "renamed": key, "reference": ref, "observed": paths, "expected": want}):
                ctx.case(text, nontrivial=True)
                return
    ctx.case(reared_text(case, base), nontrivial=True)


# --------------------------------------------------------------------------- deeds with registered io defaults
def gauge_deed():
    """a deed kind registered with an ioinit that has a default (mapping form: ipath, ival), as `doify(ioinits=...)` makes
    them: without a `per` clause its share lies under the act's own inode -- framer, frame and actor relative"""
    from ioflo.base import doing
    from ioflo.aid.odicting import odict
    if "VfGaugeLevel" not in doing.Doer.Registry:
        @doing.doify("VfGaugeLevel", base=doing.DoerParam, ioinits=odict(level=odict(ipath="level", ival=0)))
        def vfGaugeLevel(self, level=None, **kwa):
            return level
    return "vf gauge level"


GAUGE_POOL = ["alpha", "start", "finish", "reader", "writer", "fa", "xa", "top", "foo", "mb"]


def gauge_case(rng):
    names = rng.sample(GAUGE_POOL, 5)
    naming = dict(zip(["F", "XA", "XB", "AA", "AB"], names))
    per = rng.choice(["framer.me.frame.me.reading", "framer.me.reading", ".box.reading", '"framer.me.frame.me.reading"', "reading"])
    return {"naming": naming, "per": per, "plain_first": rng.random() < 0.5, "ndo": rng.choice([2, 2, 3])}


def gauge_text(case, nm):
    plain = "      do vf gauge level as %s at enter" % nm["AA"]
    over = "      do vf gauge level as %s at enter per level %s" % (nm["AB"], case["per"])
    fa = [plain] if case["plain_first"] else [over]
    fb = [over] if case["plain_first"] else [plain]
    if case["ndo"] == 3:
        fb.append("      do vf gauge level as third at enter")
    return "\n".join(["house h", "", "  framer %s be active first %s" % (nm["F"], nm["XA"]), "    frame %s" % nm["XA"]] + fa +
                      ["      go next", "    frame %s" % nm["XB"]] + fb + ["      bid stop all", ""]) + "\n"


def gauge_model(case, nm):
    F, XA, XB = nm["F"], nm["XA"], nm["XB"]
    xplain, xover = (XA, XB) if case["plain_first"] else (XB, XA)
    inode = lambda x, a: "framer.%s.frame.%s.actor.%s" % (F, x, a)
    over = {"framer.me.frame.me.reading": "framer.%s.frame.%s.reading" % (F, xover),
            '"framer.me.frame.me.reading"': "framer.%s.frame.%s.reading" % (F, xover),
            "framer.me.reading": "framer.%s.reading" % F, ".box.reading": "box.reading",
            "reading": inode(xover, nm["AB"]) + ".reading"}[case["per"]]
    out = {nm["AA"]: inode(xplain, nm["AA"]) + ".level", nm["AB"]: over}
    if case["ndo"] == 3:
        out["third"] = inode(XB, "third") + ".level"
    return out


def gauge_check(ctx, R, rng):
    from vf.flo import runner
    gauge_deed()
    case = gauge_case(rng)
    base = case["naming"]
    variants = [(None, base)]
    for key in ("F", "XA", "XB", "AA", "AB"):
        nm = dict(base)
        nm[key] = "zq%s%d" % (key.lower(), rng.randint(10, 99))
        variants.append((key, nm))
    rng.shuffle(variants)          # (every build happens in this one process, in any order)
    for key, nm in variants:
        text = gauge_text(case, nm)
        res = runner.run_text(text, build_only=True, behaviors=["vf.flo.recorder"])
        if not res.built:
            ctx.inconclusive_case("gauge program did not build: %s" % (res.build_msgs[-2:],))
            return
        got = {}
        for fr in res.skedder.houses[0].framers:
            for x in fr.frameNames.values():
                for act in x.enacts:
                    sh = (act.parms or {}).get("level")
                    if sh is not None and hasattr(sh, "name"):
                        got[act.actor.name[:1].lower() + act.actor.name[1:]] = sh.name
        model = gauge_model(case, nm)
        ctx.event(len(model))
        ctx.hit("registered_io_default_references_checked", len(model))
        for actor, want in sorted(model.items()):
            ok = got.get(actor) == want
            if not ctx.check(ok, "registered-io-default/%s-resolves-elsewhere" % ("plain" if actor != nm["AB"] else "redirected"),
                             "`do vf gauge level as %s`%s: its registered io default `level` resolved to %s, expected %s%s" % (
                                 actor, "" if actor != nm["AB"] else " per level " + case["per"], got.get(actor), want,
                                 (" (after renaming %s)" % key) if key else ""),
                             lambda: {"program": text, "renamed": key, "observed": got, "expected": model}):
                ctx.case(text, nontrivial=True)
                return
    ctx.case(gauge_text(case, base), nontrivial=True)


def run(ctx):
    n = ctx.pick(96, 4000)
    seeds = [ctx.rng.randrange(1 << 30) for _ in range(n)]
    k = 16
    reared = [ctx.rng.randrange(1 << 30) for _ in range(ctx.pick(64, 2000))]
    gauge = [ctx.rng.randrange(1 << 30) for _ in range(ctx.pick(64, 2000))]
    ctx.shard([{"seeds": seeds[i::k], "reared": reared[i::k], "gauge": gauge[i::k]} for i in range(k)], timeout=ctx.pick(120, 1500))
    ctx.floor("registered_io_default_references_checked", ctx.pick(600, 20000))
    ctx.floor("reared_clone_references_checked", ctx.pick(600, 20000))
    ctx.floor("reared_renamings_S", 30)
    for name, v in MEASURED48.items():
        ctx.floor(name, max(1, int(v / (3.0 if v >= 100 else 5.0) * n / 48.0)))
    ctx.floor("oracle_evaluations", int(73000 / 3.0 * n / 48.0))
    ctx.floor("implicit_clock_refs_in_clones", max(5, n // 2))
