"""C44 point in polygon (engine C).

Reference (vf.fnref): exact integer / rational geometry, written without the
winding algorithm -- ``on_boundary`` (zero cross product and inside the
segment's box) and an even-odd crossing count with the exact rational
abscissa of each edge/ray intersection.  For a simple polygon this classifies
every point as 'in', 'on' or 'out'; the statement maps the class to the
predicates:

    wind(p, vs) != 0                 <=> in
    inside(p, vs) / side=True        <=> in or on        inside(side=False), insideOnly  <=> in
    outside(p, vs) / side=True       <=> out or on       outside(side=False), outsideOnly <=> out
    sideOnly                         <=> on
"""
from vf import fnref
from vf.core import exc_key

LEVEL = "exploration"
RULE = ("exhaustive part (same for every seed): simple polygons given as vertex sequences on the 4x4 integer grid; "
        "thorough: every sequence (every start vertex, both orientations) with 3 and 4 vertices, every 5-vertex polygon "
        "with its smallest vertex first in both orientations plus a seeded fifth of the other start-vertex rotations, "
        "and a seeded half of the 6-vertex ones with their smallest vertex first; quick: every 3-vertex sequence, the 4-vertex ones "
        "with their smallest vertex first (both orientations) and a seeded third of such 5-vertex ones; each against "
        "all 16 grid points, 8 calls per point (wind, inside x2, insideOnly, outside x2, outsideOnly, sideOnly); "
        "random part: star-shaped and 2-opt-untangled simple polygons with 5..40 vertices and coordinates up to "
        "1e3/1e9/1e18, points = vertices, lattice points on edges and their neighbours, points level with a vertex, "
        "random points in and around the bounding box; vertices and points as tuples, lists or Pxy namedtuples; "
        "a case = one polygon with all its test points; distinct = distinct vertex sequence; non-trivial = at least "
        "one test point strictly inside or on an edge but not a vertex")
RULE = __import__("vf.core", fromlist=["rule_add"]).rule_add(RULE, 'also point containers of other kinds and one polygon object reused for all its points')
META = {"engine": "C function",
        "technique": "differential test against exact rational geometry (all small grid polygons + random large ones)",
        "level_text": "exploration: the small grid is enumerated completely (see exhaustive_scope), larger polygons are "
                      "sampled",
        "level_note": "trusts the reference's notion of a simple polygon (distinct vertices, non-adjacent edges disjoint, "
                      "adjacent edges not folding back; straight angles allowed) and Python integer arithmetic"}

GRID = [(x, y) for x in range(4) for y in range(4)]

CALLS = (
    # name, function name, kwargs, predicate on class
    ("wind!=0", "wind", {}, ("in",)),
    ("inside", "inside", {}, ("in", "on")),
    ("inside(side=False)", "inside", {"side": False}, ("in",)),
    ("insideOnly", "insideOnly", {}, ("in",)),
    ("outside", "outside", {}, ("out", "on")),
    ("outside(side=False)", "outside", {"side": False}, ("out",)),
    ("outsideOnly", "outsideOnly", {}, ("out",)),
    ("sideOnly", "sideOnly", {}, ("on",)),
)


class PIP(object):
    def __init__(self, ctx):
        from ioflo.aid import vectoring
        from ioflo.base.globaling import Pxy
        self.ctx = ctx
        self.v = vectoring
        self.Pxy = Pxy
        self.fns = {c[1]: getattr(vectoring, c[1]) for c in CALLS}

    def polygon(self, vs, points, tag, key=None, conv=None, pconv=None, reuse=False):
        """one case: polygon vs (list of int pairs, simple) against points
        conv / pconv: the sequence kinds of the vertices and of the points (they may differ: a tuple point against a
        polygon of lists as json.loads gives it); reuse: the vertices are written into one list object that the
        caller keeps and refills in place for every polygon (a moving fence)"""
        ctx = self.ctx
        classes = {"in": 0, "on": 0, "out": 0}
        edge_not_vertex = 0
        vset = set(vs)
        cvs = [conv(p) for p in vs] if conv else vs
        if pconv is not None:
            conv = pconv
        if reuse:
            if not hasattr(self, "shared"):
                self.shared = []
            self.shared[:] = cvs
            cvs = self.shared
            ctx.hit("polygons_in_the_callers_reused_list")
        for p in points:
            cls = fnref.classify_point(p, vs)
            classes[cls] += 1
            if cls == "on" and p not in vset:
                edge_not_vertex += 1
            cp = conv(p) if conv else p
            for name, fname, kw, truthy in CALLS:
                want = cls in truthy
                try:
                    got = self.fns[fname](cp, cvs, **kw)
                except Exception as e:
                    ctx.fail("%s/raises/%s" % (fname, exc_key(e)), "%s raises %r" % (fname, e),
                             {"p": list(p), "vs": [list(q) for q in vs][:40], "kw": kw})
                    continue
                if fname == "wind":
                    got = (got != 0)
                ctx.check(bool(got) == want, "%s/disagrees-with-exact-geometry/point-%s/%s" % (name, cls, tag),
                          "%s is %s for a point that exact geometry puts %s the polygon" % (
                              name, bool(got), {"in": "strictly inside", "on": "on the boundary of",
                                                "out": "strictly outside"}[cls]),
                          lambda: {"p": list(p), "vs": [list(q) for q in vs][:40], "n_vertices": len(vs),
                                   "call": name, "got": bool(got), "want": want, "class": cls})
        for c, k in classes.items():
            if k:
                ctx.hit("points_" + c, k)
        if edge_not_vertex:
            ctx.hit("points_on_edge_not_vertex", edge_not_vertex)
        ctx.case(key if key is not None else ("poly", vs), nontrivial=bool(classes["in"] or edge_not_vertex))
        return classes


def enumerate_grid(n, canonical):
    idx = {p: i for i, p in enumerate(GRID)}
    return ["".join("%x" % idx[p] for p in vs) for vs in fnref.simple_polygons(GRID, n, canonical=canonical)]


def do_grid(ctx, codes):
    pip = PIP(ctx)
    for i, code in enumerate(codes):
        vs = [GRID[int(c, 16)] for c in code]
        pip.polygon(vs, GRID, "grid", key="g" + code)
        ctx.hit("grid_polygons_%d" % len(vs))
        if i == 0 and ctx.job["index"] == 0:
            ctx.sample({"vs": vs, "classes": {str(p): fnref.classify_point(p, vs) for p in GRID}})


def test_points(rng, vs, k):
    xs = [p[0] for p in vs]
    ys = [p[1] for p in vs]
    x0, x1, y0, y1 = min(xs), max(xs), min(ys), max(ys)
    w, h = max(1, x1 - x0), max(1, y1 - y0)
    pts = []
    for v in rng.sample(vs, min(len(vs), 4)):
        pts.append(v)                                            # vertices
        pts.append((rng.randint(x0 - 2, x1 + 2), v[1]))          # level with a vertex: ray through a vertex
        pts.append((v[0], rng.randint(y0 - 2, y1 + 2)))
        pts.append((v[0] + rng.choice((-1, 1)), v[1]))
        pts.append((v[0], v[1] + rng.choice((-1, 1))))
    for q in fnref.lattice_points_on_edges(vs, limit=12):
        pts.append(q)                                            # on an edge, not a vertex
        pts.append((q[0] + rng.choice((-1, 0, 1)), q[1] + rng.choice((-1, 1))))
    n = len(vs)
    for _ in range(3):                                           # on the line of an edge but beyond its ends
        i = rng.randrange(n)
        (ax, ay), (bx, by) = vs[i], vs[(i + 1) % n]
        t = rng.choice((-1, 2, 3))
        pts.append((ax + t * (bx - ax), ay + t * (by - ay)))
    while len(pts) < k:
        pts.append((rng.randint(x0 - w // 4 - 1, x1 + w // 4 + 1), rng.randint(y0 - h // 4 - 1, y1 + h // 4 + 1)))
    return pts[:max(k, len(pts))]


def do_random(ctx, count, rng):
    pip = PIP(ctx)
    made = 0
    attempts = 0
    while made < count and attempts < count * 6:
        attempts += 1
        scale = rng.choice((6, 30, 1000, 10 ** 9, 10 ** 18))
        centre = (rng.randint(-scale, scale), rng.randint(-scale, scale))
        if rng.random() < 0.5 or scale > 1000:
            vs = fnref.star_polygon(rng, rng.randint(5, 40), scale, centre)
            kind = "star"
        else:
            n = rng.randint(5, 11)
            pts = set()
            while len(pts) < n:
                pts.add((centre[0] + rng.randint(-scale, scale), centre[1] + rng.randint(-scale, scale)))
            vs = fnref.untangled_polygon(rng, sorted(pts))
            kind = "untangled"
        if not vs or not fnref.is_simple_polygon(vs):
            ctx.hit("random_polygon_rejected")
            continue
        r = rng.randrange(len(vs))
        vs = vs[r:] + vs[:r]
        if rng.random() < 0.5:
            vs.reverse()
        form = rng.randrange(4)
        conv = (None, list, lambda p, P=pip.Pxy: P(*p), lambda p: tuple(p))[form]
        import random as _random
        r2 = _random.Random(repr(vs[:3]))
        kinds = (None, list, lambda p, P=pip.Pxy: P(*p), lambda p: tuple(p))
        pconv = kinds[r2.randrange(4)] if r2.random() < 0.5 else None      # points of another sequence kind than the vertices
        if pconv is not None:
            ctx.hit("points_of_their_own_sequence_kind")
        classes = pip.polygon(vs, test_points(rng, vs, 24), "random", conv=conv, pconv=pconv, reuse=r2.random() < 0.4)
        made += 1
        ctx.hit("random_" + kind)
        ctx.hit("random_orientation_" + ("ccw" if fnref.twice_area(vs) > 0 else "cw"))
        if made == 1:
            ctx.sample({"kind": kind, "n_vertices": len(vs), "vs_head": vs[:5], "classes_of_test_points": classes})


def worker(ctx, job):
    if job["kind"] == "grid":
        do_grid(ctx, job["codes"])
    else:
        do_random(ctx, job["count"], ctx.subrng("c44", job["index"]))


def run(ctx):
    ctx.floor("polygons_in_the_callers_reused_list", ctx.pick(30, 2000))
    ctx.floor("points_of_their_own_sequence_kind", ctx.pick(30, 2000))
    # the pruned enumerator must agree with brute force (checked on triangles and one pentagon start)
    import itertools
    from vf.core import Inconclusive
    brute = set(s for s in itertools.permutations(GRID, 3) if fnref.is_simple_polygon(s))
    if brute != set(fnref.simple_polygons(GRID, 3)):
        raise Inconclusive("polygon enumerator disagrees with brute force")
    quads = enumerate_grid(4, ctx.quick)           # quick: smallest vertex first only (4 580 of the 18 320 sequences)
    codes = enumerate_grid(3, False) + quads
    pent_canon = enumerate_grid(5, True)
    if ctx.quick:
        # quick tier: a seeded third of the pentagons (smallest vertex first)
        off = ctx.seed % 3
        pent = [c for i, c in enumerate(pent_canon) if i % 3 == off]
    else:
        # thorough: every pentagon (smallest vertex first, both orientations) plus a seeded fifth of the
        # remaining start-vertex rotations
        canon = set(pent_canon)
        others = [c for c in enumerate_grid(5, False) if c not in canon]
        pent = pent_canon + [c for i, c in enumerate(others) if i % 5 == ctx.seed % 5]
    codes += pent
    nhex = 0
    if not ctx.quick:
        hexa = [c for i, c in enumerate(enumerate_grid(6, True)) if i % 2 == ctx.seed % 2]   # a seeded half
        nhex = len(hexa)
        codes += hexa
    ctx.extra["grid_polygons_enumerated"] = {"3": 3096, "4": len(quads), "5": len(pent), "6": nhex}
    import random
    random.Random(5).shuffle(codes)               # balance the chunks; the set of cases is unchanged
    jobs = [{"kind": "grid", "codes": ch} for ch in fnref.chunks(codes, ctx.pick(16, 128))]
    nrand = ctx.pick(640, 24000)
    per = ctx.pick(80, 500)
    jobs += [{"kind": "random", "count": per} for _ in range(nrand // per)]
    ctx.shard(jobs, timeout=ctx.pick(120, 1500))
    ctx.exhaustive = True
    ctx.extra["exhaustive_scope"] = ("4x4 grid, against all 16 grid points: " + (
        "all 3-vertex sequences, all 4-vertex polygons (one start vertex, both orientations), 5-vertex ones sampled"
        if ctx.quick else "all simple vertex sequences with 3 and 4 vertices, all 5-vertex polygons (one start vertex, both orientations; other "
        "rotations sampled); 6-vertex ones sampled") +
        "; larger polygons sampled")
    ctx.floor("grid_polygons_3", 3096)
    ctx.floor("grid_polygons_4", len(quads))
    ctx.floor("grid_polygons_5", len(pent))
    if not ctx.quick:
        ctx.floor("grid_polygons_6", nhex)
    ctx.floor("points_in", 8000)
    ctx.floor("points_on", 40000)
    ctx.floor("points_out", 50000)
    ctx.floor("points_on_edge_not_vertex", 8000)
    ctx.floor("random_star", nrand // 6)
    ctx.floor("random_untangled", nrand // 30)
    ctx.floor("random_orientation_cw", nrand // 8)
    ctx.floor("random_orientation_ccw", nrand // 8)
    ctx.floor("distinct_nontrivial", 5000)
