"""C26 a TCP server keeps one live connection entry per peer address (engines B + D).

The real ``Server`` / ``ServerTls`` run on a listening-socket double
(``server.ss``) whose ``accept`` hands out connection doubles with chosen
peer addresses, so that the same peer address can come back.  A sequential
model (peer address -> the double of its newest connection; for TLS also the
connections still in handshake) is compared with ``.ixes`` / ``.cxes`` after
every operation.  A second workload repeats a peer address over real
loopback sockets (the client aborts with RST and re-binds the same port).
"""
import errno
import gc
import itertools
import socket
import struct
import time
import warnings

from vf.core import exc_key
from vf.iodoubles import (ERR, CONN, EOF, DATA, WANT_READ, WOULDBLOCK, FakeSocket, FakeContext)

LEVEL = "exploration"
RULE = ("operation sequences over {accept from A/B (repeats allowed), peer closes A, removeIx A/B, closeIx A, serviceAll} "
        "on Server and ServerTls (handshake completing after 0, 1 or 2 further service calls) standing on socket "
        "doubles: every sequence up to length 4 (thorough 6) plus seeded random sequences of 8..40 operations over three "
        "addresses; plus repeated-peer-address reconnects over real loopback sockets; distinct = distinct (class, "
        "handshake delay, sequence); non-trivial = a peer address is accepted while it still has an entry")
RULE = __import__("vf.core", fromlist=["rule_add"]).rule_add(RULE, 'entries whose peer has closed are removed with a shutdown that fails (ENOTCONN)')
META = {"engine": "B history + D doubles", "technique": "connection-table model compared after every operation",
        "level_text": "all short operation sequences are enumerated and longer ones sampled; the model is a plain dict",
        "level_note": "peer addresses repeat only because doubles (or an RST + re-bind over loopback) make them repeat"}

from vf import net
HOST = net.host()       # a loopback address of this process alone (see vf/net.py)
EHA = (HOST, 9000)
ADDR = {"A": (HOST, 40001), "B": (HOST, 40002), "C": (HOST, 40003)}


class Model(object):
    def __init__(self, tls, delay):
        self.tls = tls
        self.delay = delay
        self.live = {}      # ca -> double
        self.pending = {}   # ca -> [double, remaining would-blocks]   (TLS only)
        self.stale = []     # (double, why) replaced while still in a table: must have seen shutdown
        self.removed = []   # doubles removed with removeIx: must be closed
        self.closed = set() # id(double) closed on purpose (closeIx / removeIx)
        self.cut = set()    # id(double) whose peer closed

    def promote(self):
        for ca in list(self.pending):
            d, k = self.pending[ca]
            if k == 0:
                if ca in self.live and self.live[ca] is not d:
                    self.stale.append((self.live[ca], "live entry replaced after the newer connection's handshake"))
                self.live[ca] = d
                del self.pending[ca]
            else:
                self.pending[ca][1] = k - 1


def make_server(tls):
    from ioflo.aio.tcp import serving
    from ioflo.aid.timing import Stamper
    store = Stamper(stamp=0.0)
    if tls:
        srv = serving.ServerTls(context=FakeContext(), ha=EHA, eha=EHA, store=store)
    else:
        srv = serving.Server(ha=EHA, eha=EHA, store=store)
    lis = FakeSocket(name="listen", sockname=EHA, peername=None)
    srv.ss = lis                 # documented attribute: the listen socket
    srv.opened = True
    return srv, lis


def run_sequence(ctx, tls, delay, seq, kind):
    cls = "ServerTls" if tls else "Server"
    repeats = _run_sequence(ctx, cls, tls, delay, seq)
    ctx.case((cls, delay, kind, [list(o) for o in seq]), nontrivial=repeats > 0)
    return repeats


def _run_sequence(ctx, cls, tls, delay, seq):
    srv, lis = make_server(tls)
    m = Model(tls, delay)
    n_dbl = [0]
    repeats = 0
    trace = []

    def wit(extra=None):
        def f():
            w = {"class": cls, "handshake_delay": delay, "operations": [list(o) for o in seq], "executed": trace[-12:],
                 "ixes": {repr(k): repr(v.cs) for k, v in srv.ixes.items()},
                 "model_live": {repr(k): repr(v) for k, v in m.live.items()}}
            if tls:
                w["cxes"] = {repr(k): repr(v.cs) for k, v in srv.cxes.items()}
                w["model_pending"] = {repr(k): repr(v[0]) for k, v in m.pending.items()}
            if extra:
                w.update(extra)
            return w
        return f

    for op in seq:
        name = op[0]
        ca = ADDR[op[1]] if len(op) > 1 else None
        trace.append(list(op))
        expect_exc = None
        try:
            if name == "accept":
                n_dbl[0] += 1
                d = FakeSocket(name="%s#%d" % (op[1], n_dbl[0]), sockname=EHA, peername=ca,
                               defaults={"recv": WANT_READ if tls else WOULDBLOCK})
                if tls:
                    d.script("do_handshake", [WANT_READ] * delay)
                lis.script("accept", [CONN(d, ca)])
                if ca in m.live or ca in m.pending:
                    repeats += 1
                    ctx.hit("repeat_accept_%s" % cls)
                if tls:
                    if ca in m.pending:
                        m.stale.append((m.pending[ca][0], "pending handshake entry replaced by a newer connection"))
                    m.pending[ca] = [d, delay]
                    m.promote()
                else:
                    if ca in m.live:
                        m.stale.append((m.live[ca], "live entry replaced by a newer connection"))
                    m.live[ca] = d
                srv.serviceConnects()
            elif name == "peerclose":
                if ca in m.live and id(m.live[ca]) not in m.closed:
                    m.live[ca].script("recv", [EOF])
                    m.cut.add(id(m.live[ca]))
                    srv.serviceReceivesIx(ca)
            elif name == "removeIx":
                if ca in m.live:
                    d = m.live.pop(ca)
                    if id(d) in m.cut:
                        # the peer is gone already: shutting its socket down fails (ENOTCONN), closing it must still happen
                        d.script("shutdown", [ERR(errno.ENOTCONN)])
                        ctx.hit("entries_removed_whose_shutdown_fails")
                    m.removed.append(d)
                    m.closed.add(id(d))
                else:
                    expect_exc = ValueError
                srv.removeIx(ca)
            elif name == "closeIx":
                if ca in m.live:
                    if id(m.live[ca]) in m.cut and id(m.live[ca]) not in m.closed:
                        m.live[ca].script("shutdown", [ERR(errno.ENOTCONN)])
                        ctx.hit("entries_removed_whose_shutdown_fails")
                    m.closed.add(id(m.live[ca]))
                else:
                    expect_exc = ValueError
                srv.closeIx(ca)
            elif name == "serviceAll":
                if tls:
                    m.promote()
                # a closed entry's Incomer has cs None: servicing it is outside the property (closeIx keeps the entry)
                if any(id(d) in m.closed for d in m.live.values()):
                    srv.serviceConnects()
                else:
                    srv.serviceAll()
            raised = None
        except Exception as ex:   # noqa
            raised = ex
        ctx.event()
        if expect_exc is not None:
            ctx.check(isinstance(raised, expect_exc), "%s/%s/unknown-address-not-rejected" % (cls, name),
                      "%s.%s on an address without entry does not raise ValueError" % (cls, name),
                      wit({"raised": repr(raised)}))
        elif raised is not None:
            ctx.fail("%s/%s/raises/%s" % (cls, name, exc_key(raised)),
                     "%s: %s raised %r" % (cls, name, raised), wit({"raised": repr(raised)}))
            return repeats
        # table == model
        ok = ctx.check(set(srv.ixes.keys()) == set(m.live.keys())
                       and all(srv.ixes[k].cs is m.live[k] or (id(m.live[k]) in m.closed and srv.ixes[k].cs is None)
                               for k in m.live),
                       "%s/table-differs-from-model/ixes" % cls,
                       "%s: .ixes is not {peer address: its newest connection}" % cls, wit())
        if tls:
            ok = ctx.check(set(srv.cxes.keys()) == set(m.pending.keys())
                           and all(srv.cxes[k].cs is m.pending[k][0] for k in m.pending),
                           "%s/table-differs-from-model/cxes" % cls,
                           "%s: .cxes is not {peer address: its newest connection in handshake}" % cls, wit()) and ok
        for d, why in m.stale:
            ctx.check(len(d.shutdowns) > 0, "%s/stale-not-shutdown/%s" % (cls, why.split(" replaced")[0].replace(" ", "-")),
                      "%s: %s, but the replaced connection was never shut down" % (cls, why),
                      wit({"stale": repr(d), "stale_socket_calls": [(o, repr(r)) for (o, _, r) in d.log]}))
        for d in m.removed:
            ctx.check(d.closed, "%s/removeIx/socket-not-closed" % cls,
                      "%s.removeIx: the removed entry's socket was not closed" % cls, wit({"removed": repr(d)}))
        for k, d in list(m.live.items()) + [(k, v[0]) for k, v in m.pending.items()]:
            if id(d) in m.closed:
                ctx.check(d.closed, "%s/closeIx/socket-not-closed" % cls, "%s.closeIx did not close the socket" % cls, wit())
            else:
                ctx.check(not d.closed and not d.shutdowns, "%s/live-connection-closed" % cls,
                          "%s: the live connection of %r was shut down or closed by an operation on another entry"
                          % (cls, k), wit({"victim": repr(d)}))
        if not ok:
            return repeats
    return repeats


ALPHABET = [("accept", "A"), ("accept", "B"), ("peerclose", "A"), ("removeIx", "A"), ("removeIx", "B"),
            ("closeIx", "A"), ("serviceAll",)]
RANDOM_OPS = [("accept", x) for x in "ABC"] * 3 + [("peerclose", x) for x in "ABC"] + \
             [("removeIx", x) for x in "ABC"] + [("closeIx", x) for x in "AB"] + [("serviceAll",)] * 3


def rst_close(sock):
    sock.setsockopt(socket.SOL_SOCKET, socket.SO_LINGER, struct.pack("ii", 1, 0))
    sock.close()


def loopback_case(ctx, rng, rounds):
    """same peer address again over real sockets: the client aborts (RST, no
    TIME_WAIT) and a new socket bound to the same local port connects"""
    from ioflo.aio.tcp import serving
    from ioflo.aid.timing import Stamper
    srv = serving.Server(ha=(HOST, 0), store=Stamper(stamp=0.0))
    if not srv.reopen():
        ctx.inconclusive_case("cannot open loopback server")
        return
    olds = []
    cli = None
    seen_warnings = []
    try:
        with warnings.catch_warnings(record=True) as wl:
            warnings.simplefilter("always", ResourceWarning)
            port = None
            for r in range(rounds):
                cli = socket.socket(socket.AF_INET, socket.SOCK_STREAM)
                cli.setsockopt(socket.SOL_SOCKET, socket.SO_REUSEADDR, 1)
                try:
                    cli.bind((HOST, port or 0))
                    cli.settimeout(5.0)
                    cli.connect(srv.ha)
                except OSError as ex:
                    ctx.inconclusive_case("loopback re-bind/connect failed: %r" % (ex,))
                    return
                port = cli.getsockname()[1]
                ca = cli.getsockname()
                tag = bytes([0x30 + r]) * 4
                service_with_peerclose = r > 0 and rng.random() < 0.5
                raised = None
                try:
                    if service_with_peerclose:
                        srv.serviceReceivesAllIx()      # notices the RST of the previous connection first
                    for _ in range(50):
                        srv.serviceConnects()
                        if ca in srv.ixes and (not olds or srv.ixes[ca] is not olds[-1]):
                            break
                except Exception as ex:   # noqa
                    raised = ex
                w = {"round": r, "peer_address": ca, "raised": repr(raised), "ixes": [repr(k) for k in srv.ixes]}
                ctx.event()
                if r > 0:
                    ctx.hit("repeat_accept_loopback")
                if raised is not None:
                    ctx.fail("Server/accept/raises/%s" % exc_key(raised),
                             "Server.serviceConnects raised %r when peer address %r connected again" % (raised, ca), w)
                    return
                ctx.check(list(srv.ixes.keys()).count(ca) == 1 and len(srv.ixes) == 1, "Server/loopback/table-wrong",
                          "Server: after a reconnect from the same address .ixes does not hold exactly that one entry", w)
                ix = srv.ixes.get(ca)
                if ix is None:
                    return
                ctx.check(not olds or ix is not olds[-1], "Server/loopback/stale-entry-kept",
                          "Server: the entry still is the stale connection after the same address connected again", w)
                cli.sendall(tag)
                got = b""
                for _ in range(1000):
                    ix.serviceReceives()
                    got = bytes(ix.rxbs)
                    if len(got) >= len(tag):
                        break
                    time.sleep(0.001)       # pacing only; the verdict is about which connection the entry holds
                ctx.check(got == tag, "Server/loopback/entry-not-live",
                          "Server: the entry for the address does not carry the new connection's bytes",
                          dict(w, got=got.hex(), sent=tag.hex()))
                olds.append(ix)
                rst_close(cli)
                cli = None
            ctx.case(("loopback", rounds), nontrivial=rounds > 1)
            olds = []
            gc.collect()
            seen_warnings = [str(x.message) for x in wl if issubclass(x.category, ResourceWarning)]
    finally:
        if cli is not None:
            cli.close()
        srv.closeAll()
    if seen_warnings:
        ctx.extra.setdefault("resource_warnings_observed", [])
        ctx.extra["resource_warnings_observed"] = (ctx.extra["resource_warnings_observed"] + seen_warnings)[:5]


def worker(ctx, job):
    tls, delay = job["tls"], job["delay"]
    n = 0
    if job["what"] == "enum":
        L = job["L"]
        for length in range(1, L + 1):
            for i, seq in enumerate(itertools.product(ALPHABET, repeat=length)):
                if i % job["K"] != job["k"]:
                    continue
                run_sequence(ctx, tls, delay, seq, "enum")
                n += 1
    elif job["what"] == "random":
        rng = ctx.subrng("c26", tls, delay, job["k"])
        for i in range(job["N"]):
            seq = [rng.choice(RANDOM_OPS) for _ in range(rng.randint(8, 40))]
            run_sequence(ctx, tls, delay, seq, "random")
            if i == 0:
                ctx.sample({"class": "ServerTls" if tls else "Server", "handshake_delay": delay,
                            "operations": [list(o) for o in seq[:12]]})
    else:
        rng = ctx.subrng("c26", "loopback", job["k"])
        for i in range(job["N"]):
            loopback_case(ctx, rng, rng.randint(2, 5))


def run(ctx):
    L = ctx.pick(4, 6)
    K = ctx.pick(1, 6)
    jobs = []
    for tls, delay in ((False, 0), (True, 0), (True, 1), (True, 2)):
        for k in range(K):
            jobs.append({"what": "enum", "tls": tls, "delay": delay, "L": L, "K": K, "k": k})
        jobs.append({"what": "random", "tls": tls, "delay": delay, "k": 0, "N": ctx.pick(150, 15000)})
    jobs.append({"what": "loopback", "tls": False, "delay": 0, "k": 0, "N": ctx.pick(20, 200)})
    ctx.shard(jobs, timeout=ctx.pick(120, 1500))
    ctx.floor("repeat_accept_Server", ctx.pick(500, 25000))
    ctx.floor("repeat_accept_ServerTls", ctx.pick(1500, 80000))
    ctx.floor("repeat_accept_loopback", ctx.pick(10, 100))
    ctx.floor("distinct_nontrivial", ctx.pick(800, 60000))
