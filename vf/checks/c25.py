"""C25 transport errors are classified: connection loss cuts off, would-block
changes nothing, anything else propagates; datagram stacks retry (engine D).

A table {error} x {operation} x {class} x {how the operation is reached} x
{number of successful operations before the error} is executed completely
on the real classes standing on doubles.

Expectation per category (from the property statement only):

  loss        (ECONNRESET ENETRESET ENETUNREACH EHOSTUNREACH ENETDOWN EHOSTDOWN
               ETIMEDOUT ECONNREFUSED, TLS: + SSL EOF)
              no exception, ``cutoff`` True, the call returns no data / 0 bytes
  would-block (EAGAIN == EWOULDBLOCK on this platform; TLS: WANT_READ / WANT_WRITE;
               connect: EINPROGRESS / EALREADY)
              no exception, returns no data / 0 bytes, connection state unchanged
              (cutoff, connected, accepted, socket object, queue, buffer)
  other       (EPIPE EBADF ENOTCONN EINVAL ENOBUFS, TLS: + a protocol SSLError)
              the very exception object raised by the socket reaches the caller
  datagram stacks (GramStack on a handler double, UdpStack on the real
               SocketUdpNb whose .ss is a double):
              loss on send -> no exception, the packet stays queued and is sent
              exactly once by a later pass; loss on receive -> "nothing received";
              other -> propagates

Not judged (the statement is silent): TLS ZERO_RETURN (cut off or propagate
are both accepted), loss errnos at the bare SocketUdpNb level, would-block on a
datagram send; what the code does there is recorded in the evidence only.
"""
import errno

from vf.core import exc_key

from vf.iodoubles import (FULL, ERR, SSLE, DATA, GRAM, RET, WOULDBLOCK, WANT_READ, WANT_WRITE,
                          LOSS_ERRNOS, OTHER_ERRNOS, FakeSocket, FakeUdpHandler,
                          client_on_double, incomer_on_double, item_name, PEER)

LEVEL = "fault_enumeration"
RULE = ("complete table: every errno of the connection-loss set, EAGAIN/EWOULDBLOCK, five other errnos, and for TLS "
        "WANT_READ, WANT_WRITE, EOF, ZERO_RETURN and a protocol SSLError, raised from send, recv and do_handshake "
        "(connect_ex: returned or raised) of Client, ClientTls, Incomer, IncomerTls, reached directly (send()/receive()) "
        "and through serviceTxes()/serviceReceives(), after 0..2 (thorough 0..5) successful operations; the same errors from "
        "sendto/recvfrom under SocketUdpNb, UdpStack (real SocketUdpNb on a socket double) and GramStack (handler "
        "double); the stream rows also on reconnectable clients, and send / recv rows on connections already cut off by an earlier loss error or orderly close; distinct = distinct table row; every row injects one error, so every row is non-trivial")
RULE = __import__("vf.core", fromlist=["rule_add"]).rule_add(RULE, 'also service calls (incl. serviceConnect) after the cutoff: the mark must stay until a reopen; the idle / reconnect timer is part of the state a would-block must not change (time passes before the operation)')
META = {"engine": "D I/O doubles", "technique": "exhaustive classification table on socket doubles",
        "level_text": "the table of error x operation x class named by the property is finite and is executed completely",
        "level_note": "errors are produced by doubles with the errno / ssl error code a real socket would carry; "
                      "errnos outside the table are not tried"}

BLOCK_PLAIN = [WOULDBLOCK]
BLOCK_TLS = [WANT_READ, WANT_WRITE]
OBS = {}


def observe(name):
    OBS[name] = OBS.get(name, 0) + 1


def table(tls):
    """[(category, item)] for send / recv of one class"""
    rows = [("loss", ERR(c)) for c in LOSS_ERRNOS]
    rows += [("other", ERR(c)) for c in OTHER_ERRNOS]
    if tls:
        rows += [("loss", SSLE("eof")), ("block", WANT_READ), ("block", WANT_WRITE),
                 ("unjudged", SSLE("zero_return")), ("other", SSLE("ssl"))]
    else:
        rows += [("block", WOULDBLOCK)]
        if errno.EWOULDBLOCK != errno.EAGAIN:
            rows += [("block", ERR(errno.EWOULDBLOCK))]
    return rows


def snap(obj, fake):
    return {"idle_timer_start": getattr(getattr(obj, "timer", None), "start", None),      # (a restart of the idle / reconnect timer)
            "cutoff": obj.cutoff, "connected": getattr(obj, "connected", None),
            "accepted": getattr(obj, "accepted", None), "same_socket": obj.cs is fake,
            "closed": fake.closed, "shutdowns": len(fake.shutdowns),
            "txes": [bytes(d).hex() for d in obj.txes], "rxbs": bytes(obj.rxbs).hex()}


def build(cls):
    tls = "Tls" in cls
    if cls.startswith("Client"):
        # "...Reconnectable": the documented `reconnectable=True` option (the client may be connected again later)
        return client_on_double(tls=tls, **({"reconnectable": True} if cls.endswith("Reconnectable") else {}))
    return incomer_on_double(tls=tls)


def after_cutoff_case(ctx, cls, how, op, cat, item):
    """the same classification on a connection that is already marked cut off (by an earlier loss error or by the far
    side's orderly close): a later operation that fails with another error still propagates it"""
    tls = "Tls" in cls
    obj, fake = build(cls)
    name = item_name(item)
    row = {"class": cls, "cut_off_by": how, "operation": op, "error": name, "category": cat}
    ctx.case((cls, "after-cutoff", how, op, name), nontrivial=True)
    try:
        if how == "recv-loss":
            fake.script("recv", [ERR(errno.ECONNRESET)])
            obj.receive()
        elif how == "recv-eof":
            fake.script("recv", [DATA(b"")])
            obj.receive()
        else:
            fake.script("send", [ERR(errno.ETIMEDOUT)])
            obj.send(b"A")
    except Exception as ex:      # noqa  (a defect of the first step is the business of the plain rows)
        ctx.inconclusive_case("could not cut the connection off first: %r" % (ex,))
        return
    if obj.cutoff is not True:
        ctx.hit("after_cutoff_setup_did_not_cut_off")
        return
    if cls.startswith("Client") and not cls.endswith("Reconnectable") and hasattr(obj, "serviceConnect"):
        # the owner keeps servicing the client: the mark stays (only a reopen makes a new connection)
        same = obj.cs
        try:
            obj.serviceConnect()
            obj.serviceConnect()
        except Exception as ex:      # noqa
            ctx.fail("%s/serviceConnect-after-cutoff/raises/%s" % (cls, exc_key(ex)),
                     "%s.serviceConnect on the cut off connection raised %r" % (cls, ex), dict(row))
            return
        ctx.hit("service_connect_after_cutoff")
        if not ctx.check(obj.cutoff is True and obj.cs is same, "%s/cutoff-mark-lost-without-reopen" % cls,
                         "%s: after %s marked the connection cut off, serviceConnect() cleared the mark (cutoff=%s) without a reopen" % (
                             cls, how, obj.cutoff), lambda: dict(row, cutoff=obj.cutoff, connected=obj.connected)):
            return
    ctx.hit("after_cutoff_%s_%s" % (op, cat))
    fake.script("send" if op == "send" else "recv", [item])
    nraised = len(fake.raised)
    raised = result = None
    try:
        result = obj.send(b"B") if op == "send" else obj.receive()
    except Exception as ex:      # noqa
        raised = ex
    ctx.event(len(fake.log))

    def wit():
        return dict(row, raised=repr(raised), result=repr(result), cutoff_after=obj.cutoff,
                    socket_calls=[(o, r if not isinstance(r, bytes) else r.hex()) for (o, d, r) in fake.log])
    key = "%s/%s/after-cutoff/%s:%s/" % (cls, op, cat, name)
    if len(fake.raised) == nraised:
        ctx.hit("after_cutoff_operation_did_not_reach_the_socket")      # (a transport may refuse to touch a dead socket)
        ctx.check(raised is None or True, "ok")
        return
    injected = fake.raised[-1]
    if cat == "other":
        ctx.check(raised is injected, key + ("swallowed" if raised is None else "replaced"),
                  "%s.%s on a connection already cut off (%s): error %s does not propagate to the caller unchanged" % (cls, op, how, name), wit)
    elif cat == "loss":
        ctx.check(raised is None and obj.cutoff is True and not result, key + "raises-or-uncuts",
                  "%s.%s on a connection already cut off (%s): loss error %s raised / returned data / cleared cutoff" % (cls, op, how, name), wit)
    elif cat == "block":
        ctx.check(raised is None and not result and obj.cutoff is True, key + "state-changed",
                  "%s.%s on a connection already cut off (%s): would-block %s raised / returned data / cleared cutoff" % (cls, op, how, name), wit)


def stream_case(ctx, cls, op, via, prior, cat, item):
    """one table row on a stream transport"""
    tls = "Tls" in cls
    obj, fake = build(cls)
    name = item_name(item)
    row = {"class": cls, "operation": op, "via": via, "successful_operations_before": prior,
           "error": name, "category": cat}
    ctx.case((cls, op, via, prior, name), nontrivial=True)
    ctx.hit("%s_%s" % (op, cat))
    payload = bytes(range(0x41, 0x41 + prior + 1))        # unique bytes, one per operation
    if op == "send":
        fake.script("send", [FULL] * prior + [item])
        for i in range(prior):
            if via == "direct":
                obj.send(payload[i:i + 1])
            else:
                obj.tx(payload[i:i + 1])
        if via == "service" and prior:
            pass        # queued messages are sent by the same serviceTxes call that meets the error
    else:
        fake.script("recv", [DATA(payload[i:i + 1]) for i in range(prior)] + [item])
        if via == "direct":
            for i in range(prior):
                obj.receive()
    try:
        obj.store.stamp = obj.store.stamp + 1.5       # time has passed since the last successful operation
    except Exception:      # noqa
        pass
    before = snap(obj, fake)
    raised = None
    result = None
    try:
        if op == "send":
            if via == "direct":
                result = obj.send(payload[prior:prior + 1])
            else:
                obj.tx(payload[prior:prior + 1])
                before = snap(obj, fake)
                obj.serviceTxes()
        else:
            if via == "direct":
                result = obj.receive()
            else:
                obj.serviceReceives()
    except Exception as ex:      # noqa
        raised = ex
    after = snap(obj, fake)
    ctx.event(len(fake.log))
    injected = fake.raised[-1] if fake.raised else None

    def wit():
        return dict(row, raised=repr(raised), result=repr(result), before=before, after=after,
                    socket_calls=[(o, r if not isinstance(r, bytes) else r.hex()) for (o, d, r) in fake.log])

    key = "%s/%s/%s:%s/" % (cls, op, cat, name)
    if not ctx.check(injected is not None, "harness/error-not-injected",
                     "the scripted error was never raised by the double", wit):
        return
    if cat == "loss":
        if not ctx.check(raised is None, key + "raises",
                         "%s.%s: connection-loss error %s is raised to the caller instead of cutting the connection off"
                         % (cls, op, name), wit):
            return
        ctx.check(after["cutoff"] is True, key + "no-cutoff",
                  "%s.%s: connection-loss error %s does not set cutoff" % (cls, op, name), wit)
        if via == "direct":
            ctx.check(not result, key + "returns-data",
                      "%s.%s: connection-loss error %s returns %r" % (cls, op, name, result), wit)
        if op == "send" and via == "service":
            # nothing was accepted for the failing message, and nothing more reaches the socket
            n = fake.calls.get("send", 0)
            obj.serviceTxes()
            ctx.check(fake.calls.get("send", 0) == n, key + "send-after-cutoff",
                      "%s: serviceTxes keeps sending after the cut off" % cls, wit)
        if op == "recv":
            ctx.check(after["rxbs"] == payload[:prior].hex() if via == "service" else after["rxbs"] == before["rxbs"],
                      key + "buffer-changed", "%s.%s: receive buffer changed by a loss error" % (cls, op), wit)
    elif cat == "block":
        if not ctx.check(raised is None, key + "raises",
                         "%s.%s: would-block %s is raised to the caller" % (cls, op, name), wit):
            return
        if via == "direct":
            ctx.check(not result, key + "returns-data",
                      "%s.%s: would-block %s returns %r" % (cls, op, name, result), wit)
            ctx.check(after == before, key + "state-changed",
                      "%s.%s: would-block %s changed the connection state" % (cls, op, name), wit)
        else:
            exp = dict(before)
            if prior:
                exp["idle_timer_start"] = after["idle_timer_start"]    # the successful operations of the same call are activity
            if op == "send":
                exp["txes"] = [payload[prior:prior + 1].hex()]       # earlier ones were sent, the blocked one stays
            else:
                exp["rxbs"] = payload[:prior].hex()
            ctx.check(after == exp, key + "state-changed",
                      "%s.%s: would-block %s changed the connection state" % (cls, op, name),
                      lambda: dict(wit(), expected=exp))
    elif cat == "other":
        ctx.check(raised is injected, key + ("swallowed" if raised is None else "replaced"),
                  "%s.%s: error %s does not propagate to the caller unchanged" % (cls, op, name), wit)
    else:   # unjudged: cut off without raising, or propagate; anything else is wrong
        if raised is None:
            observe("%s.%s %s: cut off without raising" % (cls, op, name))
            ctx.check(after["cutoff"] is True, key + "ignored",
                      "%s.%s: %s neither cut the connection off nor propagated" % (cls, op, name), wit)
        else:
            observe("%s.%s %s: propagates" % (cls, op, name))
            ctx.check(raised is injected, key + "replaced",
                      "%s.%s: %s replaced by another exception" % (cls, op, name), wit)


def handshake_case(ctx, cls, prior, cat, item):
    name = item_name(item)
    fake = FakeSocket(defaults={"recv": WANT_READ})
    fake.script("do_handshake", [WANT_READ] * prior + [item])
    if cls == "ClientTls":
        obj, fake = client_on_double(tls=True, fake=fake, connect=False)
        step = obj.connect
    else:
        obj, fake = incomer_on_double(tls=True, fake=fake, handshake=False)
        step = obj.serviceHandshake
    ctx.case((cls, "do_handshake", prior, name), nontrivial=True)
    ctx.hit("do_handshake_%s" % cat)
    for _ in range(prior):
        step()
    if cls == "ClientTls" and prior == 0:
        # connect() = accept + wrap + first handshake in one call; take the snapshot of an accepted, unwrapped client
        before = None
    else:
        before = snap(obj, fake)
    raised = None
    result = None
    try:
        result = step()
    except Exception as ex:   # noqa
        raised = ex
    after = snap(obj, fake)
    ctx.event(len(fake.log))
    injected = fake.raised[-1] if fake.raised else None
    row = {"class": cls, "operation": "do_handshake", "would_blocks_before": prior, "error": name, "category": cat}

    def wit():
        return dict(row, raised=repr(raised), result=repr(result), before=before, after=after,
                    socket_calls=[(o, repr(r)) for (o, d, r) in fake.log])
    key = "%s/do_handshake/%s:%s/" % (cls, cat, name)
    if cat == "block":
        ctx.check(raised is None and not result, key + "raises-or-completes",
                  "%s: handshake would-block %s raised or reported completion" % (cls, name), wit)
        ctx.check(not after["connected"] and after["same_socket"] and not after["closed"] and not after["cutoff"]
                  and (before is None or after == before), key + "state-changed",
                  "%s: handshake would-block %s changed the connection state" % (cls, name), wit)
        # and the handshake can still complete afterwards
        ok = step()
        ctx.check(bool(ok) and obj.connected, key + "cannot-complete-later",
                  "%s: handshake does not complete after a would-block" % cls, wit)
    elif cat == "loss":
        # one key per class: the handshake treats every loss error alike
        k = "%s/do_handshake/loss/" % cls
        if ctx.check(raised is None, k + "raises",
                     "%s: a connection-loss error (%s) during the TLS handshake is raised to the caller instead of "
                     "cutting the connection off" % (cls, name), wit):
            ctx.check(after["cutoff"] is True or after["closed"], k + "no-cutoff",
                      "%s: handshake loss error %s neither cuts off nor closes" % (cls, name), wit)
            ctx.check(not after["connected"], k + "connected",
                      "%s: handshake loss error %s but connected" % (cls, name), wit)
    else:
        ctx.check(raised is injected, key + ("swallowed" if raised is None else "replaced"),
                  "%s: handshake error %s does not propagate unchanged" % (cls, name), wit)


def connect_case(ctx, cls, cat, item):
    """connect_ex returns an errno (or raises)"""
    from ioflo.aio.tcp import clienting  # noqa
    tls = cls.endswith("Tls")
    name = item_name(item)
    fake = FakeSocket(defaults={"recv": WANT_READ if tls else WOULDBLOCK})
    fake.script("connect_ex", [item])
    obj, fake = client_on_double(tls=tls, fake=fake, connect=False)
    ctx.case((cls, "connect_ex", name), nontrivial=True)
    ctx.hit("connect_ex_%s" % cat)
    before = snap(obj, fake)
    raised = None
    result = None
    try:
        result = obj.serviceConnect()
    except Exception as ex:   # noqa
        raised = ex
    after = snap(obj, fake)
    ctx.event(len(fake.log))
    injected = fake.raised[-1] if fake.raised else None
    row = {"class": cls, "operation": "connect_ex", "error": name, "category": cat}

    def wit():
        return dict(row, raised=repr(raised), result=repr(result), before=before, after=after)
    key = "%s/connect_ex/%s:%s/" % (cls, cat, name)
    try:
        if cat == "ok":
            ctx.check(raised is None and result and obj.connected and obj.ca == fake.sockname and obj.ha == fake.peername,
                      key + "not-connected", "%s: connect_ex result %s does not connect" % (cls, name), wit)
        elif cat == "block":
            ctx.check(raised is None and not result, key + "raises-or-connects",
                      "%s: in-progress connect result %s raised or connected" % (cls, name), wit)
            ctx.check(after == before, key + "state-changed",
                      "%s: in-progress connect result %s changed the connection state" % (cls, name), wit)
        elif cat == "loss":
            ctx.check(raised is None, key + "raises",
                      "%s: connect failure %s is raised instead of 'not connected, try later'" % (cls, name), wit)
            ctx.check(not result and not obj.connected, key + "connected",
                      "%s: connect failure %s but connected" % (cls, name), wit)
        else:
            ctx.check(raised is injected, key + ("swallowed" if raised is None else "replaced"),
                      "%s: connect error %s does not propagate unchanged" % (cls, name), wit)
    finally:
        if obj.cs is not None and obj.cs is not fake:
            obj.close()          # ECONNREFUSED / EINVAL make the client reopen a real (unconnected) socket


def mkpkt(stack, tag):
    from ioflo.aio.proto import packeting
    return packeting.Packet(stack=stack, packed=tag)


def gram_stack(kind):
    """-> (stack, double, sendop, recvop): GramStack on a handler double, or
    UdpStack on the real SocketUdpNb whose datagram socket is a double"""
    from ioflo.aio.proto import stacking
    from ioflo.aio.udp import udping
    if kind == "GramStack":
        h = FakeUdpHandler()
        st = stacking.GramStack(handler=h, name="g")
        return st, h, "send", "receive"
    h = udping.SocketUdpNb(ha=("127.0.0.1", 0))
    st = stacking.UdpStack(handler=h, name="u", ha=("127.0.0.1", 0))
    h.ss.close()
    fake = FakeSocket(sockname=h.ha)
    h.ss = fake                  # documented attribute: the datagram socket
    return st, fake, "sendto", "recvfrom"


DEST_A = ("127.0.0.1", 7101)
DEST_B = ("127.0.0.1", 7102)


def gram_case(ctx, kind, op, prior, cat, item, once=False, alone=False):
    """once: the owner services the queue with serviceTxPktsOnce (one packet per pass) instead of serviceTxPkts;
    alone: the packet whose send fails is the last one queued (nothing behind it)"""
    st, dbl, sendop, recvop = gram_stack(kind)
    name = item_name(item)
    ctx.case((kind, op, prior, name, once, alone), nontrivial=True)
    if once:
        ctx.hit("gram_send_once_path")
    if alone:
        ctx.hit("gram_send_failed_packet_is_last")
    ctx.hit("gram_%s_%s" % (op, cat))
    row = {"class": kind, "operation": op, "successful_operations_before": prior, "error": name, "category": cat}
    raised = None
    try:
        if op == "send":
            tags = [bytes([0x61 + i]) * 3 for i in range(prior + (1 if alone else 2))]
            for i, t in enumerate(tags):
                st.transmit(mkpkt(st, t), DEST_A if i <= prior else DEST_B)
            dbl.script(sendop, [FULL] * prior + [item])
            try:
                if once:
                    for _ in range(prior + 1):
                        st.serviceTxPktsOnce()
                else:
                    st.serviceTxPkts()
            except Exception as ex:   # noqa
                raised = ex
            sent1 = [d for (o, d, r) in dbl.log if o == sendop and isinstance(r, int)]
            injected = dbl.raised[-1] if dbl.raised else None

            def wit():
                return dict(row, raised=repr(raised), queued=[t.hex() for t in tags],
                            sends=[(d[0].hex(), repr(d[1]), repr(r)) for (o, d, r) in dbl.log if o == sendop],
                            left_in_txPkts=[bytes(p.packed).hex() for p, _ in st.txPkts])
            key = "%s/%s%s%s/%s:%s/" % (kind, sendop, "-once" if once else "", "-last" if alone else "", cat, name)
            if not ctx.check(injected is not None, "harness/error-not-injected", "error never raised by the double", wit):
                return
            if cat == "loss":
                if not ctx.check(raised is None, key + "raises",
                                 "%s: transient destination error %s on send is fatal (raised)" % (kind, name), wit):
                    return
                ctx.check([bytes(p.packed) for p, _ in st.txPkts].count(tags[prior]) == 1, key + "packet-not-kept",
                          "%s: the packet whose send failed with %s is not kept for retry" % (kind, name), wit)
                for _ in range(3 if not once else 3 * len(tags) + 3):
                    (st.serviceTxPktsOnce if once else st.serviceTxPkts)()
                sent = [d[0] for (o, d, r) in dbl.log if o == sendop and isinstance(r, int)]
                ctx.check(sorted(sent) == sorted(tags) and not st.txPkts, key + "retry-not-exactly-once",
                          "%s: after a transient send error %s the packets are not each sent exactly once" % (kind, name), wit)
            elif cat == "other":
                ctx.check(raised is injected, key + ("swallowed" if raised is None else "replaced"),
                          "%s: send error %s does not propagate unchanged" % (kind, name), wit)
            else:
                observe("%s.%s %s: %s" % (kind, sendop, name, "propagates" if raised is not None else "no exception"))
        else:
            grams = [(bytes([0x71 + i]) * 3, ("127.0.0.1", 7200 + i)) for i in range(prior)]
            dbl.script(recvop, [GRAM(d, a) for d, a in grams] + [item])
            try:
                st.serviceReceives()
            except Exception as ex:   # noqa
                raised = ex
            injected = dbl.raised[-1] if dbl.raised else None
            got = [(bytes(p.packed), a) for p, a in st.rxPkts]

            def wit():
                return dict(row, raised=repr(raised), datagrams=[(d.hex(), a) for d, a in grams],
                            rxPkts=[(d.hex(), a) for d, a in got])
            key = "%s/%s/%s:%s/" % (kind, recvop, cat, name)
            if not ctx.check(injected is not None, "harness/error-not-injected", "error never raised by the double", wit):
                return
            if cat in ("loss", "block"):
                # one key for the whole loss set: GramStack handles the set in one comparison
                k = "%s/%s/%s/" % (kind, recvop, cat) if cat == "loss" else key
                if ctx.check(raised is None, k + "raises",
                             "%s: %s error %s on receive is fatal (raised) instead of 'nothing received'"
                             % (kind, "transient" if cat == "loss" else "would-block", name), wit):
                    ctx.check(got == grams, k + "earlier-datagrams-lost",
                              "%s: datagrams received before the %s error are not all queued" % (kind, name), wit)
            elif cat == "other":
                ctx.check(raised is injected, key + ("swallowed" if raised is None else "replaced"),
                          "%s: receive error %s does not propagate unchanged" % (kind, name), wit)
    finally:
        ctx.event(len(dbl.log))
        st.close()


def udp_socket_case(ctx, op, cat, item):
    """bare SocketUdpNb on a datagram socket double"""
    from ioflo.aio.udp import udping
    h = udping.SocketUdpNb(ha=("127.0.0.1", 0))
    fake = FakeSocket(sockname=("127.0.0.1", 7000))
    h.ss = fake
    h.opened = True
    name = item_name(item)
    ctx.case(("SocketUdpNb", op, name), nontrivial=True)
    ctx.hit("udp_%s_%s" % (op, cat))
    raised = None
    result = None
    fake.script("sendto" if op == "send" else "recvfrom", [item])
    try:
        result = h.send(b"xyz", DEST_A) if op == "send" else h.receive()
    except Exception as ex:   # noqa
        raised = ex
    ctx.event(len(fake.log))
    injected = fake.raised[-1] if fake.raised else None
    wit = {"class": "SocketUdpNb", "operation": op, "error": name, "raised": repr(raised), "result": repr(result)}
    key = "SocketUdpNb/%s/%s:%s/" % (op, cat, name)
    if cat == "block" and op == "receive":
        ctx.check(raised is None and result == (b"", None) and h.opened and h.ss is fake and not fake.closed,
                  key + "state-changed-or-raised", "SocketUdpNb.receive: would-block is not 'nothing received'", wit)
    elif cat == "other":
        ctx.check(raised is injected, key + ("swallowed" if raised is None else "replaced"),
                  "SocketUdpNb.%s: error %s does not propagate unchanged" % (op, name), wit)
    else:
        observe("SocketUdpNb.%s %s: %s" % (op, name, "propagates" if raised is not None else "returns %r" % (result,)))


def run(ctx):
    from ioflo.aid.consoling import getConsole
    console = getConsole()
    console.reinit(verbosity=console.Wordage.mute)      # connect errors are reported with console.terse
    ctx.exhaustive = True
    priors = ctx.pick((0, 1, 2), (0, 1, 2, 3, 4, 5))
    for cls in ("Client", "ClientTls", "Incomer", "IncomerTls"):
        tls = cls.endswith("Tls")
        for op in ("send", "recv"):
            for via in ("direct", "service"):
                for prior in priors:
                    for cat, item in table(tls):
                        stream_case(ctx, cls, op, via, prior, cat, item)
    for cls in ("ClientReconnectable", "ClientTlsReconnectable"):
        for op in ("send", "recv"):
            for via in ("direct", "service"):
                for prior in priors[:2]:
                    for cat, item in table("Tls" in cls):
                        stream_case(ctx, cls, op, via, prior, cat, item)
                        ctx.hit("rows_on_reconnectable_clients")
    for cls in ("Client", "ClientTls", "Incomer", "IncomerTls", "ClientReconnectable"):
        for how in ("recv-loss", "recv-eof", "send-loss"):
            for op in ("send", "recv"):
                for cat, item in table("Tls" in cls):
                    if cat != "unjudged":
                        after_cutoff_case(ctx, cls, how, op, cat, item)
    for cls in ("ClientTls", "IncomerTls"):
        for prior in priors:
            rows = [("block", WANT_READ), ("block", WANT_WRITE), ("loss", SSLE("eof"))]
            rows += [("loss", ERR(c)) for c in LOSS_ERRNOS]
            rows += [("other", SSLE("ssl")), ("other", ERR(errno.EBADF)), ("other", ERR(errno.EINVAL))]
            for cat, item in rows:
                handshake_case(ctx, cls, prior, cat, item)
    for cls in ("Client", "ClientTls"):
        rows = [("ok", RET(0)), ("ok", RET(errno.EISCONN)),
                ("block", RET(errno.EINPROGRESS)), ("block", RET(errno.EALREADY)), ("block", RET(errno.EAGAIN))]
        rows += [("loss", RET(c)) for c in LOSS_ERRNOS]
        rows += [("other", ERR(c)) for c in (errno.EBADF, errno.ENOTSOCK, errno.EAFNOSUPPORT)]
        for cat, item in rows:
            connect_case(ctx, cls, cat, item)
    for kind in ("GramStack", "UdpStack"):
        for op in ("send", "receive"):
            for prior in priors:
                rows = [("loss", ERR(c)) for c in LOSS_ERRNOS] + [("other", ERR(c)) for c in OTHER_ERRNOS]
                if kind == "UdpStack" or op == "send":
                    rows += [("block" if op == "receive" else "unjudged", WOULDBLOCK)]
                for cat, item in rows:
                    gram_case(ctx, kind, op, prior, cat, item)
                    if op == "send":
                        gram_case(ctx, kind, op, prior, cat, item, alone=True)
                        gram_case(ctx, kind, op, prior, cat, item, once=True, alone=True)
                    if op == "send":
                        gram_case(ctx, kind, op, prior, cat, item, once=True)
    for op in ("send", "receive"):
        rows = [("unjudged", ERR(c)) for c in LOSS_ERRNOS] + [("other", ERR(c)) for c in OTHER_ERRNOS]
        rows += [("block" if op == "receive" else "unjudged", WOULDBLOCK)]
        for cat, item in rows:
            udp_socket_case(ctx, op, cat, item)
    ctx.extra["not_judged_observed"] = dict(sorted(OBS.items()))
    ctx.extra["platform_note"] = "errno.EWOULDBLOCK == errno.EAGAIN == %d here: one table row" % errno.EAGAIN
    ctx.sample({"class": "ClientTls", "operation": "send", "error": "SSL_EOF", "expected": "cutoff, returns 0, no raise"})
    ctx.sample({"class": "UdpStack", "operation": "recvfrom", "error": "ECONNREFUSED", "expected": "nothing received, no raise"})
    for name, floor in (("send_loss", 150), ("recv_loss", 150), ("send_block", 30), ("recv_block", 30),
                        ("send_other", 100), ("recv_other", 100), ("do_handshake_loss", 40), ("do_handshake_block", 10),
                        ("connect_ex_loss", 14), ("gram_send_loss", 40), ("gram_receive_loss", 40),
                        ("gram_send_other", 25), ("gram_receive_other", 25)):
        ctx.floor(name, floor)
    ctx.floor("distinct_nontrivial", 800)
    ctx.floor("rows_on_reconnectable_clients", 200)
    ctx.floor("after_cutoff_send_other", 40)
    ctx.floor("service_connect_after_cutoff", 100)
    ctx.floor("after_cutoff_recv_other", 40)
