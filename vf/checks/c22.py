"""C22 each log rule records exactly the runs and updates it promises (engine F).

A generated *history* = shares + logs (one or more per rule, random loggee /
field selections) + a tick list with writer steps placed before and/or after
the logger step of each tick, logger stepped every tick or every third tick,
optionally stopped and restarted.  The real Logger/Log objects run it under
virtual store time; the produced files are parsed and compared, logger run by
logger run, with a small model of the seven rules written from the property
statement.  For ``update`` and ``change`` the model is re-synchronised on the
last record the real log actually wrote, so that one divergence is reported
once (with a mechanism key) instead of cascading.
"""
import collections
import random
import os
import shutil

from vf import logx
from vf.core import scratch_dir, exc_key

LEVEL = "exploration"
RULE = ("random histories: 3 data shares + a streak queue + a deck, 7-10 logs covering every rule with random "
        "loggee sets (1-3) and field selections (all / subset / reordered / initially absent field), writer steps "
        "before / after / both sides of the logger step, repeated or fresh values, stamping and non-stamping writes, "
        "logger stepped every tick or every 3rd tick, optional STOP..START restart; START sent to a running logger; writes that create fields (Share.create as mapping / pairs / keywords); distinct = digest of the whole "
        "spec; non-trivial = at least 3 logger runs and at least one write after the first run")
RULE = __import__("vf.core", fromlist=["rule_add"]).rule_add(RULE, 'also a START control while the logger runs; also a field taken away from a watched share (last in every selection that names it)')
META = {"engine": "F logging", "technique": "history of unique-valued writes + per-rule sequential model on parsed log files",
        "level_text": "exploration: every generated history is decided exactly by the model; histories are sampled, not exhausted",
        "level_note": "virtual store time; logger runner driven directly (no Skedder); text logs only; values are ints/strings"}

FIELDS_B = ("x", "y", "z")
DECK_FIELDS = ("n", "e", "d")


# ------------------------------------------------------------------ generator

def gen_spec(rng, idx, quick):
    nticks = rng.randint(6, 20 if quick else 44)
    dt = rng.choice([0.125, 0.25, 0.5])
    every = rng.choice([1, 1, 3])
    placement = rng.choice(["before", "after", "after", "both", "mixed"])
    density = rng.choice([1.0, 0.7, 0.35])
    same_p = rng.choice([0.0, 0.3, 0.6])
    seqkind = rng.choice(["list", "deque", "dict"])
    shares = [
        {"path": "w.a", "init": [["value", 0]]},
        {"path": "w.b", "init": [[f, 0] for f in FIELDS_B]},
        {"path": "w.c", "init": [["value", "s0"], ["aux", 0]]},
        {"path": "q.s", "kind": "streak", "field": "value", "seq": seqkind},
        {"path": "q.d", "kind": "deck"},
    ]
    datashares = ["w.a", "w.b", "w.c"]
    fields_of = {"w.a": ["value"], "w.b": list(FIELDS_B), "w.c": ["value", "aux"]}

    def loggee_set():
        k = rng.choice([1, 1, 2, 3])
        chosen = rng.sample(datashares, k)
        out = []
        for j, sp in enumerate(chosen):
            sel = rng.choice(["all", "all", "one", "sub", "absent"])
            fl = fields_of[sp]
            if sel == "all":
                fields = None
            elif sel == "one":
                fields = [rng.choice(fl)]
            elif sel == "sub":
                fields = rng.sample(fl, max(1, len(fl) - 1))
            else:
                fields = [rng.choice(fl), "late"]      # 'late' does not exist at START
            out.append({"tag": "t%d" % j, "share": sp, "fields": fields})
        return out

    logs = []
    for rule in ("never", "once", "always", "update", "change"):
        logs.append({"name": "L%s" % rule, "rule": rule, "loggees": loggee_set()})
    for rule in rng.sample(["update", "change", "always", "update", "change"], rng.randint(0, 3)):
        logs.append({"name": "X%d%s" % (len(logs), rule), "rule": rule, "loggees": loggee_set()})
    logs.append({"name": "Lstreak", "rule": "streak",
                 "loggees": [{"tag": "q", "share": "q.s", "fields": rng.choice([None, ["value"]])}]})
    logs.append({"name": "Ldeck", "rule": "deck",
                 "loggees": [{"tag": "d", "share": "q.d",
                              "fields": rng.sample(DECK_FIELDS, rng.randint(1, 3))}]})

    # control sequence
    ctl = [None] * nticks
    ctl[0] = "START"
    restart = None
    if nticks >= 9 and rng.random() < 0.35:
        a = rng.randint(2, nticks - 5)
        restart = (a, a + 1 + rng.randint(0, 2))
    running = True
    for i in range(1, nticks):
        if restart and i == restart[0]:
            ctl[i] = "STOP"
            running = False
        elif restart and restart[0] < i < restart[1]:
            ctl[i] = None
        elif restart and i == restart[1]:
            ctl[i] = "START"
            running = True
        elif i == nticks - 1:
            ctl[i] = "STOP" if running else None
        elif running and i % every == 0:
            ctl[i] = "RUN"
    # a START sent to the logger while it is running (a `bid start` of a running logger): one more logger run
    again = None
    r2 = random.Random(repr((idx, nticks, every, restart)))
    if r2.random() < 0.3:
        cands = [i for i in range(1, nticks - 1) if ctl[i] == "RUN"]
        if cands:
            again = r2.choice(cands)
            ctl[again] = "START"

    # writer steps
    seq = [0]
    cur = {"w.a": {"value": 0}, "w.b": {f: 0 for f in FIELDS_B}, "w.c": {"value": "s0", "aux": 0}}

    def nxt():
        seq[0] += 1
        return seq[0]

    def data_ops():
        ops = []
        for sp in datashares:
            if rng.random() >= density:
                continue
            kind = rng.choice(["update", "update", "update", "value", "change", "stamp"])
            if kind == "value" and "value" not in cur[sp]:
                kind = "update"
            if kind == "stamp":
                ops.append(["stamp", sp])
                continue
            if kind == "value":
                flds = ["value"]
            else:
                pool = list(cur[sp]) + (["late"] if ("late" not in cur[sp] and rng.random() < 0.08) else [])
                flds = rng.sample(pool, rng.randint(1, min(2, len(pool))))
            pairs = []
            for f in flds:
                if f in cur[sp] and rng.random() < same_p:
                    v = cur[sp][f]
                else:
                    n = nxt()
                    v = ("s%d" % n) if (sp == "w.c" and f == "value") else n
                cur[sp][f] = v
                pairs.append([f, v])
            ops.append(["value", sp, pairs[0][1]] if kind == "value" else [kind, sp, pairs])
        return ops

    def queue_ops():
        ops = []
        for _ in range(rng.choice([0, 0, 1, 1, 2, 3])):
            n = nxt()
            ops.append(["append", "q.s", "value", ["k%d" % n, n] if seqkind == "dict" else n])
        for _ in range(rng.choice([0, 0, 1, 1, 2])):
            fl = [f for f in DECK_FIELDS if rng.random() < 0.8]
            ops.append(["push", "q.d", [[f, nxt()] for f in fl]])
            if rng.random() < 0.2:
                # an element that is not a mapping (the deck accepts anything, also None) sits between the entries: it has
                # no fields to log, the entries behind it are still logged in this run and the deck is left empty
                ops.insert(rng.randrange(len(ops) + 1), ["pushraw", "q.d", rng.choice([None, None, 7, [1, 2], "txt", 0])])
        return ops

    ticks = []
    for i in range(nticks):
        side = placement if placement != "mixed" else rng.choice(["before", "after", "both", "none"])
        pre = data_ops() if side in ("before", "both") else []
        post = data_ops() if side in ("after", "both") else []
        (pre if rng.random() < 0.5 else post).extend(queue_ops())
        # a write that *creates* a field (Share.create with a mapping / a list of pairs / keywords): the share is updated
        # -- stamped -- when a field was created, and left alone when every named field exists already
        r3 = random.Random(repr((idx, i, "create")))
        if i > 0 and r3.random() < 0.15:
            sp = r3.choice(datashares)
            pairs = [["c%d" % i, 900000 + i]] if r3.random() < 0.8 else []
            if r3.random() < 0.4:
                pairs.insert(r3.randint(0, len(pairs)), [r3.choice(list(cur[sp])), 800000 + i])      # exists: not written
            if pairs:
                for f, v in pairs:
                    cur[sp].setdefault(f, v)
                (pre if r3.random() < 0.5 else post).append(["create", sp, r3.choice(["dict", "pairs", "kw"]), pairs])
        # a field taken away from a share while logs watch it (`del share[field]`): only a field that stands last in every
        # selection that names it -- what a log does with the fields *behind* a missing one is not stated -- and never the
        # only field of a share; records written meanwhile have an empty column for it, its absence alone is not a change
        if i == 0:
            start_order = {sp_: list(cur[sp_]) for sp_ in datashares} if side in ("before", "both") else \
                          {sp_: list(fields_of[sp_]) for sp_ in datashares}      # fields a default selection has at the first START
        r4 = random.Random(repr((idx, i, "del")))
        if i > 1 and r4.random() < 0.10:
            sp = r4.choice(datashares)
            sels = [(le["fields"] or list(start_order[sp])) for lg_ in logs for le in lg_["loggees"] if le["share"] == sp]
            cands = [f for f in cur[sp] if len(cur[sp]) > 1 and f in fields_of[sp]
                     and all((f not in sel) or sel[-1] == f for sel in sels)]
            if cands:
                f = r4.choice(cands)
                del cur[sp][f]
                (pre if r4.random() < 0.5 else post).append(["del", sp, f])
        ticks.append({"pre": pre, "ctl": ctl[i], "post": post})

    return {"house": "H%d" % idx, "logger": "lgr", "dt": dt, "t0": 0.0,
            "lkw": {"reuse": rng.random() < 0.5, "flushPeriod": rng.choice([1.0, 2.0, 30.0])},
            "shares": shares, "logs": logs, "ticks": ticks,
            "gen": {"every": every, "placement": placement, "density": density, "same_p": same_p,
                    "restart": restart, "start_while_running": again}}


# ------------------------------------------------------------------ model

class MShare(object):
    def __init__(self, sh):
        self.data = collections.OrderedDict()
        self.kind = sh.get("kind", "data")
        self.queue = []
        self.field = sh.get("field")
        self.seqkind = sh.get("seq")
        if self.kind == "data":
            for k, v in sh["init"]:
                self.data[k] = v
        elif self.kind == "streak":
            self.data[self.field] = None     # the container itself, never logged as a value
        self.updates = []                    # (event number, tick) of every stamping write


def fmt(v):
    return "%s" % (v,)


def simulate(spec):
    """Walk the history; returns per logger run a snapshot of what each rule
    needs: values of every data share, queued streak elements and deck entries
    drained at that run, the event number of the run."""
    shares = collections.OrderedDict((sh["path"], MShare(sh)) for sh in spec["shares"])
    ev = [0]
    runs = []
    st = logx.stamps(spec)

    def apply(op, tick):
        ev[0] += 1
        s = shares[op[1]]
        k = op[0]
        if k in ("update", "change"):
            for f, v in op[2]:
                s.data[f] = v
            if k == "update":
                s.updates.append((ev[0], tick))
        elif k == "create":
            made = False
            for f, v in op[3]:
                if f not in s.data:
                    s.data[f] = v
                    made = True
            if made:
                s.updates.append((ev[0], tick))
        elif k == "del":
            s.data.pop(op[2], None)
            s.gone = getattr(s, "gone", set()) | {op[2]}
        elif k == "value":
            s.data["value"] = op[2]
            s.updates.append((ev[0], tick))
        elif k == "stamp":
            s.updates.append((ev[0], tick))
        elif k == "append":
            s.queue.append(tuple(op[3]) if s.seqkind == "dict" else op[3])
        elif k == "push":
            s.queue.append(collections.OrderedDict((f, v) for f, v in op[2]))
        elif k == "pushraw":
            s.queue.append(("__raw__", op[2]))

    for i, tick in enumerate(spec["ticks"]):
        for op in tick["pre"]:
            apply(op, i)
        if tick["ctl"]:
            ev[0] += 1
            snap = {"tick": i, "ctl": tick["ctl"], "ev": ev[0], "stamp": st[i], "time": fmt(st[i]),
                    "data": {p: dict(s.data) for p, s in shares.items() if s.kind == "data"},
                    "order": {p: list(s.data) for p, s in shares.items() if s.kind == "data"},
                    "gone": {p: sorted(getattr(s, "gone", ())) for p, s in shares.items() if s.kind == "data"},
                    "drained": {p: list(s.queue) for p, s in shares.items() if s.kind != "data"}}
            for s in shares.values():
                if s.kind != "data":
                    s.queue = []
            runs.append(snap)
        for op in tick["post"]:
            apply(op, i)
    return shares, runs


def resolve_fields(lg, first):
    """Field lists as frozen at the first START (defaults: all fields of the loggee then)."""
    out = []
    for le in lg["loggees"]:
        if lg["rule"] == "streak":
            out.append((le["tag"], [le["fields"][0] if le["fields"] else "value"]))
        elif le["fields"]:
            out.append((le["tag"], list(le["fields"])))
        else:
            out.append((le["tag"], list(first["order"][le["share"]])))
    return out


def value_line(lg, tagfields, snap):
    parts = [snap["time"]]
    for le, (tag, fields) in zip(lg["loggees"], tagfields):
        d = snap["data"][le["share"]]
        for f in fields:
            parts.append(fmt(d[f]) if f in d else "")
    return "\t".join(parts)


def selected(lg, tagfields, snap):
    out = {}
    for le, (tag, fields) in zip(lg["loggees"], tagfields):
        d = snap["data"][le["share"]]
        for f in fields:
            out[(tag, f)] = d.get(f, _ABSENT)
    return out


_ABSENT = "<absent>"


def check_log(ctx, spec, lg, shares, runs, parsed, witness):
    """Compare one log file with the model, run by run."""
    rule = lg["rule"]
    name = lg["name"]
    tagfields = resolve_fields(lg, runs[0])

    def wit(extra):
        w = dict(witness)
        w.update({"log": lg, "observed_lines": parsed["lines"][:60] if parsed else None})
        w.update(extra)
        return w

    if not ctx.check(parsed is not None, "file/missing", "log file %s was not created" % name, lambda: wit({})):
        return
    ctx.check(parsed["tail"] == "", "file/unterminated-last-line", "log %s ends without newline after STOP" % rule,
              lambda: wit({}))
    hdr = logx.expected_header(name, rule, tagfields)
    ctx.check(parsed["header"] == hdr, "header/%s-wrong-or-missing" % rule,
              "log file of rule %s does not start with the header" % rule, lambda: wit({"expected_header": hdr}))
    recs = parsed["lines"][2:]
    ctx.check(hdr[0] not in recs and hdr[1] not in recs, "header/duplicate",
              "a header line is repeated inside the %s log file" % rule, lambda: wit({"expected_header": hdr}))
    ctx.event(len(recs))

    # group the observed records by logger run (every run has its own stamp)
    by_time = collections.OrderedDict((r["time"], []) for r in runs)
    order_ok, foreign, last_pos = True, [], -1
    times = list(by_time)
    for line in recs:
        t = line.split("\t", 1)[0]
        if t not in by_time:
            foreign.append(line)
            continue
        pos = times.index(t)
        if pos < last_pos:
            order_ok = False
        last_pos = max(last_pos, pos)
        by_time[t].append(line)
    ctx.check(not foreign, "%s-rule/record-at-no-logger-run" % rule,
              "%s log holds a record whose time is not the stamp of any logger run" % rule,
              lambda: wit({"foreign": foreign[:5], "run_times": times}))
    ctx.check(order_ok, "%s-rule/records-out-of-order" % rule, "%s log records are not in run order" % rule,
              lambda: wit({}))

    prev = None          # index of the run of the last record the real log wrote
    lastvals = None      # change rule: the values the model takes as "last logged"
    for ri, snap in enumerate(runs):
        obs = by_time[snap["time"]]
        line = value_line(lg, tagfields, snap) if rule not in ("streak", "deck") else None
        key = "%s-rule/mismatch" % rule
        info = {}
        if rule == "never":
            exp = []
        elif rule == "once":
            exp = [line] if ri == 0 else []
        elif rule == "always":
            exp = [line]
        elif rule == "update":
            if ri == 0:
                exp = [line]
            else:
                base = runs[prev if prev is not None else 0]
                ups = [(e, t, le["share"]) for le in lg["loggees"] for (e, t) in shares[le["share"]].updates
                       if base["ev"] < e < snap["ev"]]
                exp = [line] if ups else []
                info = {"updates_since_previous_record": ups[:6], "previous_record_run": base["tick"]}
                if exp and not obs:
                    if all(t == base["tick"] for (e, t, p) in ups):
                        key = "update-rule/same-tick-after-logger"
                    else:
                        key = "update-rule/missed-update"
                elif obs and not exp:
                    key = "update-rule/spurious-record"
        elif rule == "change":
            now = selected(lg, tagfields, snap)
            if ri == 0:
                exp = [line]
            else:
                # a field that was taken away at some time: its absence is no change, and what counts as its "last logged value"
                # when it comes back is not stated -- differences of such a field alone are not judged
                gone = {(tag, f) for le, (tag, fields) in zip(lg["loggees"], tagfields) for f in fields
                        if f in snap["gone"].get(le["share"], ())}
                diff = sorted(k for k in now if now[k] != lastvals[k] and k not in gone)
                exp = [line] if diff else []
                if not diff and any(now[k] != lastvals[k] for k in gone):
                    exp = list(obs)
                    ctx.hit("change_runs_not_judged_for_a_field_that_was_taken_away")
                info = {"fields_differing_from_last_logged": [list(k) for k in diff[:6]],
                        "last_logged": {"%s.%s" % k: v for k, v in lastvals.items()}}
                if exp and not obs:
                    key = ("change-rule/restart-forgets-last-logged" if snap["ctl"] == "START"
                           else "change-rule/missed-change")
                elif obs and not exp:
                    key = "change-rule/spurious-record"
            if obs or ri == 0 or (exp and not obs and snap["ctl"] == "START"):
                lastvals = now      # re-synchronise on what the real log holds / believes
        elif rule == "streak":
            exp = ["%s\t%s" % (snap["time"], fmt(e)) for e in snap["drained"][lg["loggees"][0]["share"]]]
            if len(obs) != len(exp):
                key = "streak-rule/element-count"
            elif obs != exp and sorted(obs) == sorted(exp):
                key = "streak-rule/not-fifo"
        else:  # deck
            fields = tagfields[0][1]
            exp = ["\t".join([snap["time"]] + [fmt(e[f]) if f in e else "" for f in fields])
                   for e in snap["drained"][lg["loggees"][0]["share"]] if isinstance(e, dict)]
            if any(not isinstance(e, dict) for e in snap["drained"][lg["loggees"][0]["share"]]):
                ctx.hit("deck_runs_with_non_mapping_element")
            if len(obs) != len(exp):
                key = "deck-rule/element-count"
            elif obs != exp and sorted(obs) == sorted(exp):
                key = "deck-rule/not-fifo"
        if obs != exp and key.endswith("/mismatch"):
            if obs and exp:
                key = "%s-rule/record-content" % rule if len(obs) == len(exp) else "%s-rule/record-count" % rule
            elif obs:
                key = "%s-rule/spurious-record" % rule
            else:
                key = "%s-rule/missing-record" % rule
        ctx.check(obs == exp, key,
                  "rule %s, logger %s at tick %d (t=%s): expected %d record(s), file has %d" % (
                      rule, snap["ctl"], snap["tick"], snap["time"], len(exp), len(obs)),
                  lambda: wit(dict(info, run=ri, tick=snap["tick"], ctl=snap["ctl"], expected=exp, observed=obs)))
        ctx.hit("runs_%s" % rule)
        if exp:
            ctx.hit("records_expected_%s" % rule, len(exp))
        if obs and rule in ("update", "change", "once", "always"):
            prev = ri


# ------------------------------------------------------------------ one case

def run_case(ctx, spec, prefix):
    shares, runs = simulate(spec)
    nwrites_after_first = sum(len(t["pre"]) + len(t["post"]) for t in spec["ticks"][1:]) + len(spec["ticks"][0]["post"])
    nontrivial = len(runs) >= 3 and nwrites_after_first >= 1
    gen = spec["gen"]
    ctx.case({k: v for k, v in spec.items() if k != "house"}, nontrivial=nontrivial)
    witness = {"spec": spec}
    rig = logx.build(spec, prefix)
    queue_state = []

    def on_step(phase, i):
        if phase == "ran":
            s, d = rig.shares["q.s"], rig.shares["q.d"]
            queue_state.append((i, len(s["value"]), len(d.deck)))

    try:
        logx.run_spec(spec, rig, on_step)
    except Exception as ex:
        ctx.fail("exception/" + exc_key(ex), "the logger raised %r while running a generated history" % (ex,),
                 dict(witness, error=repr(ex)))
        try:
            rig.logger.runner.close()
        except Exception:
            pass
        return
    from ioflo.base import globaling
    want = {"START": globaling.STARTED, "RUN": globaling.RUNNING, "STOP": globaling.STOPPED}
    bad = [(i, c, s) for (i, c, s) in rig.statuses if s != want[c]]
    ctx.check(not bad, "runner/status", "logger runner answered a control with an unexpected status",
              lambda: dict(witness, bad=bad))
    for (i, ns, nd) in queue_state:
        ctx.check(ns == 0, "streak-rule/queue-not-empty", "streak queue not empty after a logger run",
                  lambda: dict(witness, tick=i, left=ns))
        ctx.check(nd == 0, "deck-rule/queue-not-empty", "deck not empty after a logger run",
                  lambda: dict(witness, tick=i, left=nd))
    dirpath = rig.logger.path
    for lg in spec["logs"]:
        parsed = logx.parse_file(os.path.join(dirpath, lg["name"] + ".txt"))
        check_log(ctx, spec, lg, shares, runs, parsed, witness)
    # mechanism counters for the floors
    if gen["placement"] in ("after", "both", "mixed"):
        ctx.hit("cases_writer_after_logger")
    if gen["placement"] in ("before", "both", "mixed"):
        ctx.hit("cases_writer_before_logger")
    if gen["every"] == 3:
        ctx.hit("cases_logger_period_3P")
    if gen["restart"]:
        ctx.hit("cases_restart")
    if gen.get("start_while_running") is not None:
        ctx.hit("cases_start_while_running")
    ctx.hit("logger_runs", len(runs))
    shutil.rmtree(os.path.join(prefix, spec["house"]), ignore_errors=True)
    return len(runs)


def probe_case(ctx, prefix):
    """The scenario DESIGN.md predicts: one update per tick, written after the
    logger step.  Deterministic, run once per worker 0; its result is sampled."""
    n = 9
    ticks = [{"pre": [], "ctl": "START" if i == 0 else ("STOP" if i == n - 1 else "RUN"),
              "post": [["value", "w.a", i + 1]]} for i in range(n)]
    spec = {"house": "Hprobe", "logger": "lgr", "dt": 0.25, "t0": 0.0, "lkw": {"reuse": True},
            "shares": [{"path": "w.a", "init": [["value", 0]]}],
            "logs": [{"name": "Lupdate", "rule": "update",
                      "loggees": [{"tag": "t0", "share": "w.a", "fields": None}]}],
            "ticks": ticks}
    rig = logx.build(spec, prefix)
    logx.run_spec(spec, rig)
    parsed = logx.parse_file(os.path.join(rig.logger.path, "Lupdate.txt"))
    ctx.sample({"probe": "one update per tick written after the logger step, update rule, ticks 0..8 (dt 0.25)",
                "file": parsed["lines"] if parsed else None})
    shutil.rmtree(os.path.join(prefix, spec["house"]), ignore_errors=True)


def worker(ctx, job):
    logx.quiet()
    prefix = scratch_dir("c22")
    try:
        if job["index"] == 0:
            probe_case(ctx, prefix)
        for k in range(job["n"]):
            idx = job["base"] + k
            rng = ctx.subrng("c22", idx)
            spec = gen_spec(rng, idx, ctx.quick)
            run_case(ctx, spec, prefix)
            if k == 0 and job["index"] < 2:
                ctx.sample({"gen": spec["gen"], "dt": spec["dt"],
                            "logs": [(l["name"], l["rule"], [(e["share"], e["fields"]) for e in l["loggees"]])
                                     for l in spec["logs"]],
                            "first_ticks": spec["ticks"][:3]})
    finally:
        shutil.rmtree(prefix, ignore_errors=True)


def run(ctx):
    nshards = ctx.pick(8, 16)
    per = ctx.pick(40, 2500)
    jobs = [{"n": per, "base": i * per} for i in range(nshards)]
    ctx.shard(jobs, timeout=ctx.pick(60, 1500))
    total = nshards * per
    ctx.extra["histories"] = total
    ctx.floor("distinct_nontrivial", total // 3)
    ctx.floor("logger_runs", total * 2)
    ctx.floor("cases_start_while_running", total // 20)
    for rule in logx.RULES:
        ctx.floor("runs_%s" % rule, total * 2)
    for rule in ("once", "always", "update", "change", "streak", "deck"):
        ctx.floor("records_expected_%s" % rule, total // 3)
    ctx.floor("cases_writer_after_logger", total // 6)
    ctx.floor("cases_writer_before_logger", total // 6)
    ctx.floor("cases_logger_period_3P", total // 10)
    ctx.floor("cases_restart", total // 20)
    ctx.floor("deck_runs_with_non_mapping_element", total // 20)
