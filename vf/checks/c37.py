"""C37 RemoteStack remote indexes (engine B).

A RemoteStack without handler (local device uid 1, name 'local', ha 'h0') and
a pool of device slots.  Model: three ordered maps uid / name / ha -> device.
"""
from vf import hist
from vf.hist import RET, OK, REJECT, EITHER, UNJUDGED

LEVEL = "exploration"
RULE = ("operation sequences new device (explicit or automatic uid / name) / addRemote / moveRemote / renameRemote / "
        "rehaRemote / removeRemote / removeAllRemotes over 3 device slots, uids {1(local),2,3,4}, names "
        "{local,r2,r3,Device2,Device3}, addresses {h0(local),h1,h2,''}: (1) every sequence up to length 3 (quick) / 4 "
        "(thorough) over a core alphabet and up to length 2 over the full alphabet; (2) seeded random sequences of "
        "4..40 operations.  distinct = distinct operation list; non-trivial = at least two operations of which at "
        "least one changed an index or a device")
META = {"engine": "B history",
        "technique": "runtime monitoring: real RemoteStack and a three-index model stepped together; the three "
                     "indexes (order, keys, identity), every device's uid / name / ha and the local device compared "
                     "after every step, snapshot equality on rejection",
        "level_text": "bounded-exhaustive short histories plus seeded random long histories over a small colliding "
                      "universe of uids, names and addresses; decides the property only for the histories produced",
        "level_note": "trusts the model in vf/checks/c37.py; a move / rename / re-address to the current key of a "
                      "device that is not in the stack may be a no-op or be rejected (statement silent); the value of "
                      "an automatically assigned uid is not judged, only that it collides with nothing"}

UIDS = [1, 2, 3, 4]
NAMES = ["local", "r2", "r3", "Device2", "Device3"]
HAS = ["h0", "h1", "h2", ""]
SLOTS = ["A", "B", "C"]


INVARIANT_EVALS = [0]


def indexes_consistent(self):
    """class invariant attached with icontract (DESIGN 2.B): the three indexes hold the same remotes,
    each under its current key, and no key is the local device's"""
    INVARIANT_EVALS[0] += 1
    rs = list(self.remotes.values())
    if not (len(rs) == len(self.nameRemotes) == len(self.haRemotes)):
        return False
    for r in rs:
        if self.remotes.get(r.uid) is not r or self.nameRemotes.get(r.name) is not r or \
                self.haRemotes.get(r.ha) is not r:
            return False
    loc = self.local
    return loc.uid not in self.remotes and loc.name not in self.nameRemotes and loc.ha not in self.haRemotes


def attach_contract(stacking):
    """re-bind RemoteStack's public methods with the invariant (no source edit); idempotent"""
    import icontract
    cls = stacking.RemoteStack
    if not getattr(cls, "_vf_contract", False):
        icontract.invariant(indexes_consistent)(cls)
        cls._vf_contract = True
    return icontract.ViolationError


class MDev(object):
    def __init__(self, token, uid, name, ha):
        self.token, self.uid, self.name, self.ha = token, uid, name, ha


class Run(object):
    def __init__(self, spec):
        self.spec = spec
        self.stack = spec.stacking.RemoteStack(uid=1, name="local", ha="h0")
        self.slots = {}            # slot -> real device
        self.tok = {}              # id(real device) -> token
        self.keep = []
        self.ntok = 0
        self.mslots = {}           # slot -> MDev
        self.idx = {"uid": {}, "name": {}, "ha": {}}     # key -> MDev (insertion ordered)
        self.local = (1, "local", "h0")
        self.broken = None         # text of an icontract ViolationError raised by the real stack

    def member(self, d):
        return d is not None and self.idx["uid"].get(d.uid) is d

    def model(self, op):
        n = op[0]
        if n == "new":
            slot, uid, name, ha = op[1:5]
            t = self.ntok
            self.ntok += 1
            d = MDev(t, uid, name if name is not None else ("Device%s" % uid), ha if ha is not None else "")
            self.mslots[slot] = d
            if uid is None:
                return UNJUDGED      # automatic uid: only judged for not colliding (see resync)
            return OK
        if n == "removeAll":
            for k in self.idx:
                self.idx[k].clear()
            return OK
        if n in ("localha", "localname", "localuid"):
            # the local device is re-keyed through the stack's public setter (to a key no remote holds: the setters
            # do not validate, and the statement is about operations on remotes) -- afterwards "the local device's
            # key" is the new one, the old one is free
            which = {"localha": "ha", "localname": "name", "localuid": "uid"}[n]
            if op[1] in self.idx[which]:
                return REJECT        # the harness raises LookupError itself, nothing reaches the stack
            lu, ln, lh = self.local
            self.local = {"uid": (op[1], ln, lh), "name": (lu, op[1], lh), "ha": (lu, ln, op[1])}[which]
            return OK
        d = self.mslots.get(op[1])
        if d is None:
            return REJECT            # the harness raises LookupError itself, nothing reaches the stack
        lu, ln, lh = self.local
        if n == "add":
            if d.uid in self.idx["uid"] or d.uid == lu or d.name in self.idx["name"] or d.name == ln or \
                    d.ha in self.idx["ha"] or d.ha == lh:
                return REJECT
            self.idx["uid"][d.uid] = d
            self.idx["name"][d.name] = d
            self.idx["ha"][d.ha] = d
            return OK
        if n in ("move", "rename", "reha"):
            which = {"move": "uid", "rename": "name", "reha": "ha"}[n]
            new = op[2]
            old = getattr(d, which)
            if new == old:
                return EITHER(None) if not self.member(d) else RET(None)
            if not self.member(d):
                return REJECT
            if new in self.idx[which] or new == {"uid": lu, "name": ln, "ha": lh}[which]:
                return REJECT
            items = list(self.idx[which].items())
            pos = [k for k, _ in items].index(old)
            items[pos] = (new, d)
            self.idx[which].clear()
            self.idx[which].update(items)
            setattr(d, which, new)
            return RET(None)
        if n == "remove":
            if not self.member(d):
                return REJECT
            del self.idx["uid"][d.uid]
            del self.idx["name"][d.name]
            del self.idx["ha"][d.ha]
            return OK
        raise ValueError(op)

    def real(self, op):
        verr = self.spec.violation_error
        if verr is None:
            return self._real(op)
        try:
            return self._real(op)
        except verr as e:
            self.broken = str(e)[:300]
            raise

    def _real(self, op):
        n = op[0]
        st = self.stack
        if n == "new":
            slot, uid, name, ha = op[1:5]
            kw = {}
            if name is not None:
                kw["name"] = name
            if ha is not None:
                kw["ha"] = ha
            d = self.spec.devicing.RemoteDevice(stack=st, uid=uid, **kw)
            self.slots[slot] = d
            self.tok[id(d)] = len(self.keep)
            self.keep.append(d)
            return None
        if n == "removeAll":
            return st.removeAllRemotes()
        if n in ("localha", "localname", "localuid"):
            index = {"localha": st.haRemotes, "localname": st.nameRemotes, "localuid": st.remotes}[n]
            if op[1] in index:
                raise LookupError("key held by a remote")
            setattr(st, {"localha": "ha", "localname": "name", "localuid": "uid"}[n], op[1])
            return None
        d = self.slots.get(op[1])
        if d is None:
            raise LookupError("empty slot")
        if n == "add":
            r = st.addRemote(d)
            if r is not d:
                raise AssertionError("addRemote returned something else")
            return None
        if n == "move":
            return st.moveRemote(d, op[2])
        if n == "rename":
            return st.renameRemote(d, op[2])
        if n == "reha":
            return st.rehaRemote(d, op[2])
        if n == "remove":
            return st.removeRemote(d)
        raise ValueError(op)

    def real_state(self):
        st = self.stack

        def index(od):
            return [[k, self.tok.get(id(v), -1)] for k, v in od.items()]
        return {"uid": index(st.remotes), "name": index(st.nameRemotes), "ha": index(st.haRemotes),
                "alias": st.remotes is st.uidRemotes,
                "devices": [[s, self.tok[id(d)], d.uid, d.name, d.ha] for s, d in sorted(self.slots.items())],
                "member_stack": all(v.stack is st for v in st.remotes.values()),
                "local": [st.local.uid, st.local.name, st.local.ha], "class_invariant_broken": self.broken}

    def model_state(self):
        def index(m):
            return [[k, d.token] for k, d in m.items()]
        return {"uid": index(self.idx["uid"]), "name": index(self.idx["name"]), "ha": index(self.idx["ha"]),
                "alias": True,
                "devices": [[s, d.token, d.uid, d.name, d.ha] for s, d in sorted(self.mslots.items())],
                "member_stack": True, "local": list(self.local), "class_invariant_broken": None}

    def resync(self):
        """after an automatic uid: adopt it, but it must collide with nothing"""
        problem = None
        for slot, d in self.slots.items():
            m = self.mslots[slot]
            if m.uid is None:
                m.uid = d.uid
                m.name = d.name
                if d.uid == self.local[0] or d.uid in self.idx["uid"]:
                    problem = "automatically assigned uid %r collides with %s" % (
                        d.uid, "the local device" if d.uid == self.local[0] else "a remote in the stack")
        return problem


class Spec(object):
    name = "remotestack"
    tag = "rs"

    def __init__(self, contract=False):
        from ioflo.aio.proto import stacking, devicing
        self.stacking, self.devicing = stacking, devicing
        self.violation_error = attach_contract(stacking) if contract else None

    def key(self, div):
        exc = div.get("exc")
        if (self.violation_error is not None and isinstance(exc, self.violation_error)) or \
                "class_invariant_broken" in str(div.get("observed")):
            return "remotestack/%s/class-invariant" % div["op"][0]
        return None

    def new(self):
        return Run(self)

    def prologue(self, rng):
        """most random histories start from a populated stack (otherwise nearly every step is a rejection)"""
        if rng.random() < 0.2:
            return []
        ops = []
        for slot, uid, name, ha in (("A", 2, "r2", "h1"), ("B", 3, "r3", "h2"), ("C", None, None, "")):
            ops.append(["new", slot, uid, name, ha])
            if rng.random() < 0.8:
                ops.append(["add", slot])
        return ops

    def random_op(self, rng):
        slot = rng.choice(SLOTS)
        n = rng.choice(["new", "add", "add", "add", "move", "move", "rename", "rename", "reha", "reha", "remove",
                        "removeAll", "local"])
        if n == "local":
            k = rng.choice(["localha", "localha", "localname", "localuid"])
            return [k, rng.choice({"localha": ["h0", "h9", "h1"], "localname": ["local", "other", "r2"], "localuid": [1, 5, 2]}[k])]
        if n == "new":
            uid = rng.choice(UIDS + [None, None])
            return [n, slot, uid, rng.choice(NAMES + [None]), rng.choice(HAS + [None])]
        if n == "removeAll":
            return [n] if rng.random() < 0.3 else ["add", slot]
        if n == "move":
            return [n, slot, rng.choice(UIDS)]
        if n == "rename":
            return [n, slot, rng.choice(NAMES)]
        if n == "reha":
            return [n, slot, rng.choice(HAS)]
        return [n, slot]

    def core_alphabet(self):
        return [["new", "A", 2, "r2", "h1"], ["new", "B", 3, "r3", "h2"], ["new", "B", 2, "r3", "h2"],
                ["new", "B", 3, "r2", "h2"], ["new", "B", 3, "r3", "h1"], ["new", "B", None, None, "h2"],
                ["add", "A"], ["add", "B"], ["move", "A", 3], ["move", "A", 1], ["move", "B", 2],
                ["rename", "A", "r3"], ["rename", "A", "local"], ["reha", "A", "h2"], ["reha", "B", "h0"],
                ["remove", "A"], ["remove", "B"], ["removeAll"], ["localha", "h9"], ["localha", "h0"], ["reha", "A", "h9"],
                ["reha", "A", "h0"]]

    def full_alphabet(self):
        al = []
        for slot in ("A", "B"):
            for uid in (1, 2, 3, None):
                for name in ("local", "r2", "r3", None):
                    for ha in ("h0", "h1", "h2", None):
                        al.append(["new", slot, uid, name, ha])
            al += [["add", slot], ["remove", slot]]
            al += [["move", slot, u] for u in UIDS]
            al += [["rename", slot, x] for x in NAMES]
            al += [["reha", slot, x] for x in HAS]
        al += [["removeAll"], ["add", "C"], ["localha", "h9"], ["localha", "h0"], ["localname", "other"], ["localuid", 5],
               ["reha", "A", "h9"], ["rename", "A", "other"], ["move", "A", 5]]
        return al


def worker(ctx, job):
    spec = Spec(contract=job["mode"] == "contract")
    rep = hist.Reporter(ctx)
    if job["mode"] == "contract":
        # same histories, RemoteStack additionally carrying the icontract class invariant
        rng = ctx.subrng("c37-contract", job["chunk"])
        hist.random_runs(ctx, rep, spec, job["nseq"], 40, rng)
        ctx.hit("contract_sequences", job["nseq"])
        ctx.hit("class_invariant_evaluations", INVARIANT_EVALS[0])
        ctx.oracle_evaluations += INVARIANT_EVALS[0]
    elif job["mode"] == "exh":
        al = spec.core_alphabet() if job["alphabet"] == "core" else spec.full_alphabet()
        n = hist.exhaustive(ctx, rep, spec, al, job["maxlen"], firsts=job["firsts"])
        ctx.hit("exhaustive_sequences", n)
        if job["index"] < 3:
            ctx.sample({"exhaustive_alphabet": job["alphabet"], "size": len(al), "maxlen": job["maxlen"],
                        "first_ops": [al[i] for i in job["firsts"][:3]]})
    else:
        rng = ctx.subrng("c37", job["chunk"])
        hist.random_runs(ctx, rep, spec, job["nseq"], 40, rng)
        ctx.hit("random_sequences", job["nseq"])
    rep.flush()
    oc = ctx.extra.get("op_outcomes", {})
    for n in ("add", "move", "rename", "reha", "remove"):
        for what in ("changed", "rejected"):
            v = oc.get("remotestack.%s:%s" % (n, what))
            if v:
                ctx.hit("%s_%s" % (n, what), v)


def run(ctx):
    spec = Spec()
    nc, nf = len(spec.core_alphabet()), len(spec.full_alphabet())
    core_len = ctx.pick(3, 4)
    jobs = []
    for firsts in hist.split(nc, ctx.pick(6, 9)):
        jobs.append({"mode": "exh", "alphabet": "core", "maxlen": core_len, "firsts": firsts})
    for firsts in hist.split(nf, ctx.pick(4, 8)):
        jobs.append({"mode": "exh", "alphabet": "full", "maxlen": 2, "firsts": firsts})
    for chunk in range(ctx.pick(6, 16)):
        jobs.append({"mode": "rnd", "chunk": chunk, "nseq": ctx.pick(1500, 20000)})
    for chunk in range(ctx.pick(2, 6)):
        jobs.append({"mode": "contract", "chunk": chunk, "nseq": ctx.pick(300, 1500)})
    ctx.extra["alphabet_sizes"] = {"core": nc, "full": nf}
    ctx.exhaustive = False
    ctx.extra["exhaustive_part"] = "all sequences of length <= %d over the core alphabet and <= 2 over the full " \
                                   "alphabet (not extended past a divergence)" % core_len
    ctx.shard(jobs, timeout=ctx.pick(120, 1500))
    ctx.floor("exhaustive_sequences", ctx.pick(8000, 50000))
    ctx.floor("random_sequences", ctx.pick(4500, 40000))
    for h in ("add_changed", "add_rejected", "move_changed", "move_rejected", "rename_changed", "rename_rejected",
              "reha_changed", "reha_rejected", "remove_changed", "remove_rejected"):
        ctx.floor(h, ctx.pick(500, 5000))
    ctx.floor("class_invariant_evaluations", ctx.pick(5000, 60000))     # zero => the attachment got lost
    ctx.floor("distinct_nontrivial", ctx.pick(10000, 60000))
