"""C02 scheduler: once per tick, on period, in declared order (engine A).

Events: every runner send (tick, position, tasker, control, status) from the
runner proxies, tick numbers from the store-stamp hook, and the position of a
period-changing bid from a recorder action placed just before it.
Oracle: exact-rational ideal schedule (DESIGN 3 C02, Appendix A.2).
"""
import itertools
from fractions import Fraction
from math import ceil

from vf.flo import prog as P

LEVEL = "exploration"
RULE = ("grid of tick period x per-tasker periods (zero, smaller, equal, multiples, non-multiples, decimal) x "
        "declaration orders x front/mid/back x optional period-changing bid / abort bid; one case = one skedder run; "
        "distinct = distinct (P, periods, orders, bid) tuple; non-trivial = at least 2 taskers ran >= 3 times")
RULE = __import__("vf.core", fromlist=["rule_add"]).rule_add(RULE, 'also period-raising grids: a tasker that ran with a period below the tick is given a period of 2, 3 or 8 ticks by a bid (its own or another tasker\'s) and follows its accumulated due times')
META = {"engine": "A floscript", "technique": "runtime trace monitor vs exact-rational schedule model",
        "level_text": "Every send of every tasker in every tick of each generated run is compared with the ideal schedule "
                      "computed in exact rational arithmetic; grid part is enumerated exhaustively, the rest seeded random.",
        "level_note": "Runs are observed through runner proxies and the store-stamp hook; ideal model is Appendix A.2 of DESIGN.md."}

TICKS = ["0.0625", "0.125", "0.25", "0.0078125", "0.1", "0.05", "0.2", "0.3"]   # 1/128: exact, but 7 decimals


def dyadic(fr):
    d = Fraction(fr).denominator
    return d & (d - 1) == 0


def periods_for(Pstr):
    Pf = Fraction(Pstr)
    out = ["0", str(float(Pf / 2)), Pstr, str(float(2 * Pf)), str(float(3 * Pf)), str(float(Pf * 5 / 2)),
           "0.1", "0.3", "0.7", "1.0"]
    return out


def fstr(x):
    # decimal literal whose Fraction is what we mean
    return x


def make_case(rng, Pstr, n, nticks, bid=None, grid_periods=None):
    pers = periods_for(Pstr)
    taskers = []
    for i in range(n):
        p = grid_periods[i] if grid_periods else rng.choice(pers)
        order = rng.choice(["front", "mid", "mid", "back"])
        sched = "active" if rng.random() < 0.85 else "inactive"
        taskers.append({"name": "t%d" % i, "period": p, "order": order, "sched": sched})
    drv_order = rng.choice(["front", "mid", "back"])
    # start time of the skedder (Skedder(stamp=t0)): the statement's t0; every ideal time is t0 + k*p
    t0 = rng.choice(["0", "0", "2.0", "7.5", "0.375"])
    case = {"P": Pstr, "taskers": taskers, "nticks": nticks, "drv_order": drv_order, "bid": bid,
            "drv_pos": rng.randint(0, n), "t0": t0}
    return case


def build_prog(case):
    framers = []
    bid = case["bid"]
    for t in case["taskers"]:
        fr = [P.frame("f0", [P.rec(t["name"] + ".r")])]
        if bid and bid.get("self") and bid["who"] == t["name"]:
            # the tasker changes its own period, in the middle of one of its own runs: after bid["tick"] runs it enters a
            # frame whose enter action is `bid run me at <new period>`; that very run is rescheduled with the new period
            fr = [P.frame("f0", [P.rec(t["name"] + ".r"), {"v": "repeat", "n": bid["tick"]}]),
                  P.frame("f1", [P.rec(t["name"] + ".r"), P.rec("drv.bid", "enter"),
                                 {"v": "bid", "ctl": bid["ctl"], "who": ["me"], "at": bid["newp"], "ctx": None}])]
        framers.append(P.framer(t["name"], fr, sched=t["sched"], period=t["period"], order=t["order"]))
    selfbid = bid if (bid and bid.get("self")) else None
    if selfbid:
        bid = None            # (the driver only waits and stops everybody)
    n1 = case["nticks"]
    frames = []
    if bid:
        k = bid["tick"]
        frames.append(P.frame("w1", [{"v": "repeat", "n": k}]))
        st = [P.rec("drv.bid", "enter")]
        if bid["kind"] == "period":
            st.append({"v": "bid", "ctl": bid["ctl"], "who": [bid["who"]], "at": bid["newp"], "ctx": None})
        else:
            st.append({"v": "bid", "ctl": "abort", "who": [bid["who"]], "ctx": None})
        if bid.get("then_start"):
            # some ticks after the abort the same tasker is bid to start: a tasker that has aborted never runs again,
            # whatever state it was in when the abort reached it (running, or stopped / never started)
            d = bid["then_start"]
            st.append({"v": "repeat", "n": d})
            frames.append(P.frame("chg", st))
            st = [P.rec("drv.bid2", "enter"), {"v": "bid", "ctl": "start", "who": [bid["who"]], "ctx": None},
                  {"v": "repeat", "n": max(1, n1 - k - d)}]
            frames.append(P.frame("chg2", st))
        else:
            st.append({"v": "repeat", "n": max(1, n1 - k)})
            frames.append(P.frame("chg", st))
    else:
        frames.append(P.frame("w1", [{"v": "repeat", "n": n1}]))
    frames.append(P.frame("fin", [P.rec("drv.fin", "enter"), {"v": "bid", "ctl": "stop", "who": ["all"], "ctx": None}]))
    drv = P.framer("drv", frames, sched="active", period="0", order=case["drv_order"])
    framers.insert(case["drv_pos"], drv)
    return P.program([P.house("h", framers)], period=case["P"])


def declared_order(prog):
    fr = prog["houses"][0]["framers"]
    out = []
    for o in ("front", "mid", "back"):
        for f in fr:
            if (f["order"] or "mid") == o and f["sched"] in ("active", "inactive"):
                out.append(f["name"])
    return out


def check_case(ctx, case):
    from vf.flo import runner
    prog = build_prog(case)
    text = P.render(prog)
    Pf = Fraction(case["P"])
    allp = [Fraction(t["period"]) for t in case["taskers"]]
    if case["bid"] and case["bid"]["kind"] == "period":
        allp.append(Fraction(case["bid"]["newp"]))
    # a stopped-by-bid tasker only sees the stop at its next due tick: cap well after that
    cap = case["nticks"] + 12 + 2 * int(ceil(max(allp) / Pf))
    res = runner.run_text(text, period=float(Pf), maxticks=cap, stamp=float(case.get("t0", "0")))
    if float(case.get("t0", "0")):
        ctx.hit("nonzero_start_time_cases")
        ctx.check(bool(res.ticks) and res.ticks[0]["stamp"] == float(case["t0"]), "start-stamp-not-t0",
                  "the store was not initialised with the skedder's start stamp", lambda: {"case": case})
    key = [case["P"], case.get("t0"), [(t["period"], t["order"], t["sched"]) for t in case["taskers"]], case["drv_order"], case["drv_pos"], case["bid"]]
    if not res.built:
        ctx.inconclusive_case("generated program did not build: %r\n%s" % (res.build_error, text))
        return
    wit = lambda extra=None: {"case": case, "program": text, "detail": extra}
    if res.capped or res.exc is not None:
        ctx.fail("run-did-not-end", "skedder run hit the tick cap or raised %r" % (res.exc,), wit())
        return
    order = declared_order(prog)
    rank = {n: i for i, n in enumerate(order)}
    runs = {n: [] for n in order}
    per_tick = {}
    aborted_at = {}
    for s in res.sends:
        ctx.event()
        if s["caller"] != "run" or s["depth"] != 0:
            continue
        per_tick.setdefault(s["tick"], []).append(s["tasker"])
        runs[s["tasker"]].append(s)
    last_tick = res.nticks
    # (i) once per tick, in declared order
    for tick, names in per_tick.items():
        ctx.check(len(set(names)) == len(names), "tasker-ran-twice-in-tick",
                  "a tasker ran more than once in tick %d: %s" % (tick, names), lambda: wit({"tick": tick, "names": names}))
        ranks = [rank[n] for n in names]
        ctx.check(ranks == sorted(ranks), "tick-order-not-front-mid-back",
                  "run order in tick %d is %s, declared order %s" % (tick, names, order),
                  lambda: wit({"tick": tick, "names": names, "declared": order}))
    # position of bid in the send sequence
    bid = case["bid"]
    bid_seq = None
    if bid:
        for e in res.trace:
            if e["tag"] == "drv.bid":
                bid_seq = res.trace.index(e)
                ctx.hit("bids_observed")
                if bid.get("self"):
                    ctx.hit("self_bids_observed")
                break
        if bid.get("then_start") and any(e["tag"] == "drv.bid2" for e in res.trace):
            ctx.hit("start_bid_after_abort")
    ntask_ok = 0
    for t in case["taskers"]:
        name = t["name"]
        period = Fraction(t["period"])
        rs = runs[name]
        # (ii) nothing after ABORTED; an abort control always ends in ABORTED
        for i, s in enumerate(rs):
            if s.get("control") == "abort":
                ctx.hit("abort_controls_delivered")
                ctx.check(s.get("status") == "aborted", "abort-delivered-but-not-aborted",
                          "%s received the abort control and returned status %s" % (name, s.get("status")),
                          lambda: wit({"runs": rs[max(0, i - 2):i + 3]}))
            if s.get("status") == "aborted":
                ctx.hit("aborted_runs")
                ctx.check(i == len(rs) - 1, "ran-after-aborted",
                          "%s ran again after a run that returned aborted" % name, lambda: wit({"runs": rs}))
                sweep = [x for x in res.sends if x["tasker"] == name and x["caller"] == "sweep"]
                ctx.check(not sweep, "ran-after-aborted", "%s got the final sweep although it had aborted" % name,
                          lambda: wit({"runs": rs}))
                break
        # (iii) k-th run on the ideal tick
        due = Fraction(0)
        prev = None
        inexact = not (dyadic(Pf) and dyadic(period))
        ended_aborted = bool(rs) and rs[-1].get("status") == "aborted"
        for k, s in enumerate(rs):
            need = int(ceil(due / Pf)) if due > 0 else 0
            exp = need if prev is None else max(prev + 1, need)
            got = s["tick"]
            ctx.hit("runs_checked")
            if got != exp:
                # float accumulation can only matter when some number that went into the accumulated due time or
                # tick time is not binary-exact: the tick period, or any period this tasker has been rescheduled
                # with so far (a period changed by a bid leaves the earlier inexact sums in `retime`)
                # ... and only for a period above the tick period: a tasker whose period equals the tick period adds the
                # very same numbers to its due time as the skedder adds to its clock (the sums are equal), and with a smaller
                # period the due time never gets ahead of the clock: such a tasker runs in every tick
                late = (got == exp + 1 and due == exp * Pf and inexact and period > Pf)
                key_ = ("decimal-period-late-by-one-tick/exact-coincidence" if late
                        else "run-%s-than-ideal" % ("later" if got > exp else "earlier"))
                ctx.fail(key_, "%s (period %s, tick %s): run #%d at tick %d, ideal tick %d (due %s)" % (
                    name, t["period"], case["P"], k, got, exp, float(due)),
                    lambda: wit({"tasker": name, "run_ticks": [x["tick"] for x in rs], "k": k, "ideal": exp}))
            else:
                ctx.check(True, "ok")
            # period in force when this run is rescheduled: the skedder reads tasker.period
            # right after the run returns; the bid executed right after trace event bid_seq
            if (bid and bid["kind"] == "period" and bid["who"] == name and bid_seq is not None
                    and s.get("seq_end", s["seq"]) > bid_seq):
                period = Fraction(bid["newp"])
            inexact = inexact or not dyadic(period)
            due += period
            prev = got
        if not rs:
            ctx.fail("run-missing", "%s never ran at all (first run is due at tick 0)" % name, lambda: wit({"tasker": name}))
        elif not ended_aborted:
            need = int(ceil(due / Pf)) if due > 0 else 0
            exp = max(prev + 1, need)
            if exp + 1 <= last_tick:
                ctx.fail("run-missing", "%s never made run #%d expected at tick %d (run ended at tick %d)" % (
                    name, len(rs), exp, last_tick), lambda: wit({"tasker": name, "run_ticks": [x["tick"] for x in rs]}))
        if len(rs) >= 3:
            ntask_ok += 1
        if period and (Fraction(t["period"]) / Pf).denominator != 1:
            ctx.hit("non_multiple_periods")
    ctx.case(key, nontrivial=ntask_ok >= 2,
             sample={"P": case["P"], "t0": case.get("t0"), "taskers": case["taskers"], "bid": bid,
                     "run_ticks": {n: [x["tick"] for x in r][:12] for n, r in runs.items()}})


def worker(ctx, job):
    rng = ctx.rng
    for c in job["cases"]:
        check_case(ctx, c)


def run(ctx):
    rng = ctx.rng
    cases = []
    # exhaustive grid: every tick period x every period value, 2 taskers (one on the grid value, one fixed at P)
    for Pstr in TICKS:
        for p in periods_for(Pstr):
            for drv in ("front", "back"):
                c = make_case(rng, Pstr, 2, ctx.pick(24, 60), grid_periods=[p, Pstr])
                c["drv_order"] = drv
                for t in c["taskers"]:
                    t["sched"] = "active"
                cases.append(c)
    ctx.extra["grid_cases"] = len(cases)
    # all declaration orders for 3 taskers in mixed front/mid/back
    for perm in itertools.permutations(["front", "mid", "back"]):
        c = make_case(rng, "0.125", 3, 12)
        for t, o in zip(c["taskers"], perm):
            t["order"] = o
        cases.append(c)
    # random: 1-5 taskers, with bids
    for i in range(ctx.pick(150, 8000)):
        Pstr = rng.choice(TICKS)
        n = rng.randint(1, 5)
        nt = rng.randint(10, ctx.pick(30, 100))
        bid = None
        r = rng.random()
        if r < 0.4:
            bid = {"kind": "period", "ctl": rng.choice(["run", "start"]), "who": "t%d" % rng.randrange(n),
                   "newp": rng.choice(periods_for(Pstr)), "tick": rng.randint(1, nt - 3)}
            if rng.random() < 0.35:
                bid["self"] = True
                bid["ctl"] = "run"
                bid["tick"] = rng.randint(1, 4)       # (counted in the tasker's own runs)
        elif r < 0.55:
            bid = {"kind": "abort", "who": "t%d" % rng.randrange(n), "tick": rng.randint(1, nt - 3)}
            if rng.random() < 0.6 and nt - bid["tick"] > 6:
                bid["then_start"] = rng.randint(1, 4)
        c = make_case(rng, Pstr, n, nt, bid=bid)
        if bid and bid.get("then_start") and rng.random() < 0.5:
            for t in c["taskers"]:
                if t["name"] == bid["who"]:
                    t["sched"] = "inactive"        # the abort reaches a tasker that was never started
        if bid and bid["kind"] == "period":
            for t in c["taskers"]:
                if t["name"] == bid["who"]:
                    t["sched"] = "active"
        cases.append(c)
    # a tasker that ran with a period below the tick (its due time lags behind the clock) gets a period above the tick
    # by a bid: it catches up along its accumulated due times (t0 + sum of the periods in force) before it slows down
    import random as _random
    r2 = _random.Random(ctx.seed * 31 + 5)
    for Pstr in TICKS:
        Pf = Fraction(Pstr)
        for p0 in ("0", str(float(Pf / 2))):
            for mult in (2, 3, 8):
                for who_self in (False, True):
                    nt = ctx.pick(40, 80)
                    bid = {"kind": "period", "ctl": "run", "who": "t0", "newp": str(float(mult * Pf)), "tick": r2.randint(3, 9)}
                    if who_self:
                        bid["self"] = True
                    c = make_case(r2, Pstr, 2, nt, bid=bid, grid_periods=[p0, Pstr])
                    for t in c["taskers"]:
                        t["sched"] = "active"
                    c["raised"] = True
                    cases.append(c)
    nshards = 16
    jobs = [{"cases": cases[i::nshards]} for i in range(nshards)]
    ctx.shard(jobs, timeout=ctx.pick(120, 1500))
    ctx.floor("runs_checked", 1000)
    ctx.floor("non_multiple_periods", 1)
    ctx.floor("bids_observed", 1)
    ctx.floor("aborted_runs", 1)
    ctx.floor("abort_controls_delivered", 5)
    ctx.floor("start_bid_after_abort", 5)
    ctx.floor("self_bids_observed", 5)
    ctx.floor("nonzero_start_time_cases", 20)
