"""C23 log rotation and flushing never lose or duplicate retained records (engine F).

Fault enumeration: configuration (keep, cycle period, size threshold, flush
period, reuse, plain / in-process restart) x crash point.  A workload process
(forked by the ``vf.logx serve`` launcher, which the worker starts with
``subprocess.run(timeout=)``) runs a real Logger with two ``always`` logs whose
records carry consecutive ids and reports through its stdout pipe every record
written (W), every completed Log.flush (F) and every Log.cycle begin / end
(CB / CE).  At every crash point -- the start of tick K (both tiers) or the
n-th execution of a source line of Log.cycle / Log.reopen / Log.flush /
Log.close / Logger.log / Logger.cycle / ocfn (thorough, sys.monitoring LINE
callback) -- it forks, the twin process (same memory, same unflushed buffers,
same descriptors) kills itself with os._exit(137), the survivor checks the
exit status and copies the log tree: the files a process killed there leaves.
The parent replays the report up to the crash point on a model of the retained
files and compares it with that copy.  With reuse a second process (fresh
fork of the launcher, no ioflo object inherited) resumes in a copy of the
state left at the end or at a kill.  (One process per crash point that
re-runs the prefix was the first implementation; process creation costs
100-600 ms CPU on this machine, the twin costs one fork.)
"""
import collections
import json
import os
import re
import shutil

from vf import logx
from vf.core import scratch_dir

LEVEL = "fault_enumeration"
RULE = ("configurations: keep {0,1,2,3} x cyclePeriod {P,3P,10P} x fileSize {0,200,2000} x flushPeriod {1,2} x reuse {F,T} "
        "x schedule {plain, in-process STOP..START restart} (224; a seeded sample per run in which every value of every "
        "dimension occurs); crash points per configuration: normal end, a kill at the start of every tick K (1..N-1), and in "
        "thorough (3 configurations) the 1st/2nd/middle/last execution of every executed source line of Log.cycle, Log.reopen, "
        "Log.flush, Log.close, Logger.log, Logger.cycle, ocfn; with reuse the state left at the end and at some kills is "
        "resumed by a second process; distinct = (configuration, crash point, resumed?); non-trivial = a twin of the workload "
        "process really died at the crash point (exit status 137 observed) after at least one record had been written, or the "
        "normal end was reached with >=1 flush")
RULE = __import__("vf.core", fromlist=["rule_add"]).rule_add(RULE, 'a START sent to the running logger before anything was flushed')
META = {"engine": "F logging", "technique": "forked twin killed with os._exit(137) at enumerated crash points + retained-files model replayed from the child's report; strace for flush->fsync order",
        "level_text": "fault enumeration: every tick boundary (and in thorough every executed line of the rotation/flush code) of each sampled configuration is a crash point",
        "level_note": "process death only (page cache survives); the killed process is a forked twin of the workload process, the files are copied right after its death; fsync is observed with strace, not tested by power loss; two always logs, a manual (never) log listed first and a once log listed last"}

DT = 0.25
PAD_A = 60
PAD_B = 10
LOGS = ("nev", "alw", "duo", "dek", "onc")      # logger order: a manual (never) log first, a deck-rule log, a once log last


# ------------------------------------------------------------------ workload

def all_configs():
    out = []
    for flush in (1.0, 2.0):
        for reuse in (False, True):
            for sched in ("plain", "restart"):
                out.append({"keep": 0, "cycle": 0.0, "size": 0, "flush": flush, "reuse": reuse, "sched": sched})
                for keep in (1, 2, 3):
                    for cycle in (DT, 3 * DT, 10 * DT):
                        for size in (0, 200, 2000):
                            out.append({"keep": keep, "cycle": cycle, "size": size, "flush": flush,
                                        "reuse": reuse, "sched": sched})
    return out


def pick_configs(rng, n):
    """Seeded sample in which every value of every dimension occurs."""
    confs = all_configs()
    rng.shuffle(confs)
    chosen, need = [], {(d, c[d]) for c in confs for d in c}
    for c in confs:
        gain = {(d, c[d]) for d in c} & need
        if gain:
            chosen.append(c)
            need -= gain
    for c in confs:
        if len(chosen) >= n:
            break
        if c not in chosen:
            chosen.append(c)
    return chosen[:n]


def make_spec(conf, nticks, base_id, house="Hc", resume=False):
    ctl = ["RUN"] * nticks
    ctl[0] = "START"
    ctl[-1] = "STOP"
    if conf["sched"] == "restart" and not resume and nticks >= 10:
        h = nticks // 2
        ctl[h], ctl[h + 1], ctl[h + 2] = "STOP", None, "START"
    elif conf["sched"] == "plain" and not resume and nticks >= 6 and (conf["keep"] + int(conf["flush"] * 10) + int(conf["size"])) % 2 == 0:
        # a START sent to the running logger right after its first (a `bid start` of a running logger), before anything was
        # flushed: one more logger run, the file just created keeps its one header
        ctl[1] = "START"
    ids, ticks, rid = [], [], base_id
    for i in range(nticks):
        if ctl[i]:
            ids.append(rid)
            pre = [["value", "r.a", logx.record_value(rid, PAD_A)],
                   ["update", "r.b", [["u", logx.record_value(rid, PAD_B)], ["v", rid]]],
                   ["push", "r.d", [["u", logx.record_value(rid, PAD_A)]]]]
            rid += 1
        else:
            ids.append(None)
            pre = []
        ticks.append({"pre": pre, "ctl": ctl[i], "post": []})
    spec = {"house": house, "logger": "lgr", "dt": DT, "t0": 0.0,
            "lkw": {"keep": conf["keep"], "cyclePeriod": conf["cycle"], "fileSize": conf["size"],
                    "flushPeriod": conf["flush"], "reuse": conf["reuse"]},
            "shares": [{"path": "r.a", "init": [["value", "init"]]},
                       {"path": "r.b", "init": [["u", "init"], ["v", -1]]},
                       {"path": "r.d", "kind": "deck"}],
            "logs": [{"name": "nev", "rule": "never", "loggees": [{"tag": "a", "share": "r.a", "fields": None}]},
                     {"name": "alw", "rule": "always", "loggees": [{"tag": "a", "share": "r.a", "fields": None}]},
                     {"name": "duo", "rule": "always", "loggees": [{"tag": "b", "share": "r.b", "fields": None}]},
                     {"name": "dek", "rule": "deck", "loggees": [{"tag": "d", "share": "r.d", "fields": ["u"]}]},
                     {"name": "onc", "rule": "once", "loggees": [{"tag": "a", "share": "r.a", "fields": None}]}],
            "ticks": ticks}
    return spec, ids, rid


HEADERS = {"nev": logx.expected_header("nev", "never", [("a", ["value"])]),
           "onc": logx.expected_header("onc", "once", [("a", ["value"])]),
           "alw": logx.expected_header("alw", "always", [("a", ["value"])]),
           "duo": logx.expected_header("duo", "always", [("b", ["u", "v"])]),
           "dek": logx.expected_header("dek", "deck", [("d", ["u"])])}


# ------------------------------------------------------------------ disk and model

def read_disk(dirpath, name, keep):
    """[main, 01, ..] -> None (missing) or {'size','hdr','ids','tail','bad'}"""
    out = []
    for p in logx.log_file_paths(dirpath, name, keep):
        pf = logx.parse_file(p)
        if pf is None:
            out.append(None)
            continue
        ids, bad = [], []
        hdr = pf["lines"][:2] == HEADERS[name]
        for line in pf["lines"][2 if hdr else 0:]:
            rec = line.split("\t")
            rid = logx.record_id(rec[1]) if len(rec) >= 2 else None
            if rid is None:
                bad.append(line[:60])
            else:
                ids.append(rid)
        out.append({"size": pf["size"], "hdr": hdr, "ids": ids,
                    "tail": pf["tail"], "bad": bad, "nlines": len(pf["lines"]),
                    "head": pf["lines"][:2]})
    return out


def fresh_model(keep):
    return [{"hdr": True, "ids": []}] + [{"hdr": False, "ids": []} for _ in range(keep)]


def model_from_disk(disk):
    """State a resuming process starts from: what is on disk; a missing or empty
    main file gets its header from the new process (every file that receives
    records starts with the header), missing rotate copies are re-created empty."""
    m = []
    for k, f in enumerate(disk):
        if f is None or f["size"] == 0:
            m.append({"hdr": k == 0, "ids": []})
        else:
            m.append({"hdr": f["hdr"], "ids": list(f["ids"])})
    return m


def rotate(m):
    return [{"hdr": True, "ids": []}] + m[:-1]


def replay(report, models):
    """Apply the child's report to the per-log file models.  Returns flushed id,
    in-progress-cycle flag and counters per log."""
    st = {n: {"flushed": -1, "incycle": False, "rot": 0, "flushes": 0, "written": -1, "w": 0,
              "pre_cycle": None} for n in models}
    for tok in report:
        if tok[0] == "W":
            s = st[tok[1]]
            models[tok[1]][0]["ids"].append(int(tok[2]))
            s["written"] = int(tok[2])
            s["w"] += 1
        elif tok[0] == "F":
            st[tok[1]]["flushed"] = max(st[tok[1]]["flushed"], int(tok[2]))
            st[tok[1]]["flushes"] += 1
        elif tok[0] == "CB":
            st[tok[1]]["incycle"] = True
        elif tok[0] == "CE":
            st[tok[1]]["incycle"] = False
            if tok[2] == "1":
                models[tok[1]] = rotate(models[tok[1]])
                st[tok[1]]["rot"] += 1
    return st


def same(obs, mod):
    """Does an on-disk file equal a model file?  mod None = must be missing."""
    if mod is None:
        return obs is None
    if not mod["hdr"] and not mod["ids"]:
        return obs is None or obs["size"] == 0
    if obs is None:
        return False
    return obs["hdr"] and obs["ids"] == mod["ids"] and not obs["bad"] and obs["tail"] == ""


def main_after_kill_ok(obs, mod, flushed):
    """Main file after a kill: a prefix of what was written, containing at
    least everything covered by a completed flush."""
    need = [i for i in mod["ids"] if i <= flushed]
    if obs is None or obs["size"] == 0:
        return not need, "flushed-record-lost"
    if not obs["hdr"]:
        return False, "header"
    if obs["bad"]:
        return False, "garbled-record"
    if obs["ids"] != mod["ids"][:len(obs["ids"])]:
        return False, "not-a-prefix"
    if len(obs["ids"]) < len(need):
        return False, "flushed-record-lost"
    return True, ""


def mid_rotation_states(m):
    """File sets that the rename chain of Log.cycle passes through, oldest
    renamed first, then a new (empty or header only) main file."""
    k = len(m) - 1
    if k == 0:
        return []
    states = []
    cur = list(m)
    for j in range(k):
        src = k - 1 - j
        cur = list(cur)
        cur[src + 1] = cur[src]
        cur[src] = None
        states.append(list(cur))
    done = list(cur)
    done[0] = {"hdr": False, "ids": []}      # created, header still buffered
    states.append(done)
    done2 = list(cur)
    done2[0] = {"hdr": True, "ids": []}
    states.append(done2)
    return states


# ------------------------------------------------------------------ oracles

def generic_invariants(ctx, name, disk, conf, wit):
    for k, f in enumerate(disk):
        if f is None or f["size"] == 0:
            continue
        ctx.check(f["hdr"], "header/file-does-not-start-with-header",
                  "a non-empty log file does not start with the header",
                  lambda: wit({"log": name, "file_index": k, "first_lines": f["head"], "ids": f["ids"][:8]}))
        ctx.check(not f["bad"], "records/garbled", "a log file holds a line that is not a record",
                  lambda: wit({"log": name, "file_index": k, "bad": f["bad"][:4]}))
        if k >= 1:
            ctx.check(f["size"] >= conf["size"], "rotation/rotated-below-size-threshold",
                      "a rotated file is smaller than the size threshold",
                      lambda: wit({"log": name, "file_index": k, "size": f["size"], "threshold": conf["size"]}))
    seq = []
    for f in reversed(disk):
        if f:
            seq.extend(f["ids"])
    ctx.check(all(a < b for a, b in zip(seq, seq[1:])), "rotation/record-duplicated-or-out-of-order",
              "reading the retained files oldest to newest the record ids are not strictly increasing",
              lambda: wit({"log": name, "ids_oldest_to_newest": [f["ids"] if f else None for f in reversed(disk)]}))
    ctx.event(len(seq))
    ctx.hit("records_parsed", len(seq))


def describe(files):
    return [None if f is None else {"hdr": f.get("hdr"), "ids": f["ids"], "size": f.get("size")} for f in files]


def exact_oracle(ctx, name, disk, model, wit):
    """Normal end: every retained file holds exactly what the model says."""
    for k, (o, m) in enumerate(zip(disk, model)):
        if same(o, m):
            ctx.check(True, "rotation/ok")
            continue
        oi = o["ids"] if o else []
        if k == 0 and o is not None and o["size"] and not o["hdr"] and oi == m["ids"]:
            key = "header/missing-in-main-file"
        elif set(m["ids"]) - set(oi):
            key = "rotation/newest-file-misses-records-since-last-rotation" if k == 0 else "rotation/retained-record-lost"
        elif set(oi) - set(m["ids"]):
            key = "rotation/file-holds-records-of-another-segment"
        elif m["hdr"] and (o is None or not o["hdr"]):
            key = "header/missing-in-rotated-or-new-file"
        else:
            key = "rotation/file-content-differs"
        ctx.fail(key, "after a normal end file #%d of log %s differs from the retained-files model" % (k, name),
                 wit({"log": name, "file_index": k, "on_disk": describe(disk), "model": describe(model)}))


def crash_oracle(ctx, name, disk, model, st, wit):
    flushed = st["flushed"]

    def w(extra):
        return wit(dict({"log": name, "flushed_upto": flushed, "written_upto": st["written"],
                         "cycle_in_progress": st["incycle"], "on_disk": describe(disk),
                         "model_before_kill": describe(model)}, **extra))

    if st["written"] > flushed:
        ctx.hit("kills_with_unflushed_records")
    if not st["incycle"]:
        ok, why = main_after_kill_ok(disk[0], model[0], flushed)
        ctx.check(ok, "crash/" + (why or "ok"),
                  "after a kill the main file is not a prefix of the written records covering every flushed one (%s)" % why,
                  lambda: w({}))
        for k in range(1, len(model)):
            ctx.check(same(disk[k], model[k]), "crash/rotated-file-differs",
                      "after a kill a rotated file differs from what was rotated into it",
                      lambda: w({"file_index": k}))
        return
    ctx.hit("kills_mid_rotation")
    # a cycle was in progress: before the renames, between them, or after
    ok, why = main_after_kill_ok(disk[0], model[0], flushed)
    if ok and all(same(disk[k], model[k]) for k in range(1, len(model))):
        ctx.check(True, "crash/ok")
        return
    for state in mid_rotation_states(model):
        if all(same(o, m) for o, m in zip(disk, state)):
            ctx.check(True, "crash/ok")
            return
    have = set()
    for f in disk:
        if f:
            have.update(f["ids"])
    need = set()
    for m in model[:-1] if len(model) > 1 else model:
        need.update(i for i in m["ids"] if i <= flushed)
    key = "crash/flushed-record-lost-mid-rotation" if need - have else "crash/illegal-file-set-mid-rotation"
    ctx.fail(key, "after a kill inside Log.cycle the files match no state of the rename chain", w({"missing": sorted(need - have)[:8]}))


# ------------------------------------------------------------------ one scenario

def logger_dir(report, prefix, spec):
    for tok in report:
        if tok[0] == "P" and len(tok) > 1 and tok[1]:
            return tok[1]
    dirs = logx.find_logger_dirs(prefix, spec["house"], spec["logger"])
    return dirs[-1] if dirs else None


def killdesc(kill):
    if kill is None:
        return "none"
    if kill["kind"] == "tick":
        return "tick%d" % kill["tick"]
    return "%s+%d#%d" % (kill["func"], kill["rel"], kill["nth"])


def plan_group(conf, nticks, crashes, resume_of, workdir, tag, census=False):
    """One workload process of a configuration with all its crash points, plus the
    processes that resume (reuse) on the state left at some of them / at the end."""
    prefix = os.path.join(workdir, "p-%s" % tag)
    os.makedirs(prefix)
    spec, ids, next_id = make_spec(conf, nticks, 0)
    cs = [dict(c, id="k%d" % j, snap=os.path.join(workdir, "s-%s-k%d" % (tag, j))) for j, c in enumerate(crashes)]
    main = {"tag": tag, "spec": spec, "prefix": prefix, "crashes": cs, "ids": ids, "census": census}
    jobs, resumes = [main], {}
    if conf["reuse"]:
        for cid in resume_of:
            src = prefix if cid == "end" else cs[cid]["snap"]
            cid = "end" if cid == "end" else cs[cid]["id"]
            rprefix = os.path.join(workdir, "r-%s-%s" % (tag, cid))
            spec2, ids2, _ = make_spec(conf, 12, next_id, resume=True)
            rtag = "%s/%s" % (tag, cid)
            jobs.append({"tag": rtag, "spec": spec2, "prefix": rprefix, "ids": ids2, "copy_from": src})
            resumes[cid] = {"tag": rtag, "prefix": rprefix, "spec": spec2}
    return {"tag": tag, "conf": conf, "n": nticks, "prefix": prefix, "spec": spec, "jobs": jobs,
            "crashes": cs, "resumes": resumes}


def judge_group(ctx, g, results, count=True):
    conf, prefix = g["conf"], g["prefix"]
    rc, report = results.get(g["tag"], (None, []))
    if rc != 0:
        x = [t for t in report if t[0] == "X"]
        if x:
            info = json.loads(" ".join(x[0][1:]))
            ctx.case({"conf": conf, "n": g["n"], "kill": "none", "resume": False}, nontrivial=True)
            ctx.fail("exception/" + info["key"], "the logger raised inside the child",
                     {"config": conf, "traceback": info["tb"]})
        else:
            ctx.inconclusive_case("workload process %s rc=%s" % (g["tag"], rc))
        return
    tree = [t for t in report if t[0] == "TREE"]
    from vf.core import REPO
    if not tree or not os.path.realpath(tree[0][1]).startswith(os.path.realpath(REPO)):
        ctx.inconclusive_case("child imported ioflo from %s" % (tree[0][1] if tree else "?"))
        return
    if any(c["kind"] == "line" for c in g["crashes"]) and not any(t[0] == "MON" for t in report):
        ctx.inconclusive_case("line monitor not attached in child %s" % g["tag"])
        return
    # every crash point: the report up to it, the snapshot taken when the twin had died
    for c in g["crashes"]:
        casekey = {"conf": conf, "n": g["n"], "kill": killdesc(c), "resume": c["id"] in g["resumes"]}
        at = [i for i, t in enumerate(report) if t[0] == "KILL" and t[1] == c["id"]]
        if not at:
            if count:
                ctx.case(casekey, nontrivial=False)     # crash point never reached
            continue
        dead = [t for t in report[at[0]:at[0] + 3] if t[0] == "DEAD" and t[1] == c["id"]]
        if not dead or dead[0][2] != "137" or not os.path.isdir(c["snap"]):
            ctx.inconclusive_case("twin of %s/%s did not die with 137: %s" % (g["tag"], c["id"], dead))
            continue
        judge_state(ctx, g, casekey, c, report[:at[0]], c["snap"], g["resumes"].get(c["id"]), results, count)
    casekey = {"conf": conf, "n": g["n"], "kill": "none", "resume": "end" in g["resumes"]}
    judge_state(ctx, g, casekey, None, report, prefix, g["resumes"].get("end"), results, count)


def judge_state(ctx, g, casekey, kill, report, root, resume, results, count):
    """Decide the files under ``root`` against the report up to that point.
    kill None = state after a normal end."""
    conf, prefix, spec = g["conf"], g["prefix"], g["spec"]
    killed = kill is not None

    def wit(extra):
        d = {"config": conf, "ticks": g["n"], "kill": {k: v for k, v in kill.items() if k != "snap"} if kill else None,
             "resumed": resume is not None,
             "report_tail": [" ".join(t) for t in report if t[0] not in ("L", "T", "DEAD", "SNAP")][-12:]}
        d.update(extra)
        return d

    rel = None
    for tok in report:
        if tok[0] == "P" and len(tok) > 1 and tok[1]:
            rel = os.path.relpath(tok[1], prefix)
    if rel is None:
        dirs = logx.find_logger_dirs(root, spec["house"], spec["logger"])
        rel = os.path.relpath(dirs[-1], root) if dirs else None
    dirpath = os.path.join(root, rel) if rel else None
    models = {n: fresh_model(conf["keep"]) for n in LOGS}
    st = replay(report, models)
    nw = sum(s["w"] for s in st.values())
    nontrivial = (killed and nw > 0) or (not killed and any(s["flushes"] for s in st.values()))
    if count:
        ctx.case(casekey, nontrivial=nontrivial)
    if killed and kill["kind"] == "tick" and kill["tick"] in (7, 13) and conf["keep"]:
        ctx.sample({"config": conf, "killed_at_start_of_tick": kill["tick"],
                    "per_log": {n_: {"last_written": st[n_]["written"], "last_flushed": st[n_]["flushed"],
                                     "rotations": st[n_]["rot"]} for n_ in LOGS}})
    if killed:
        ctx.hit("kills_performed")
        ctx.hit("kills_at_line" if kill["kind"] == "line" else "kills_at_tick")
    else:
        ctx.hit("normal_ends")
        ctx.check(any(t[0] == "END" for t in report), "harness/no-end", "child exited 0 without END", lambda: wit({}))
        ctx.hit("rotations_observed", sum(s["rot"] for s in st.values()))
        ctx.hit("flushes_observed", sum(s["flushes"] for s in st.values()))
    if dirpath is None or not os.path.isdir(dirpath):
        # killed before the directory was made: nothing written, nothing to lose
        ctx.check(nw == 0, "crash/no-directory-but-records-written", "records reported but no log directory", lambda: wit({}))
        return
    disks = {}
    for name in LOGS:
        disk = read_disk(dirpath, name, conf["keep"])
        disks[name] = disk
        w = (lambda name: (lambda extra: wit(dict(extra, dir=rel))))(name)
        generic_invariants(ctx, name, disk, conf, w)
        if killed:
            crash_oracle(ctx, name, disk, models[name], st[name], w)
        else:
            exact_oracle(ctx, name, disk, models[name], w)
    extra_files = sorted(set(os.listdir(dirpath)) -
                         {os.path.basename(p) for n in LOGS for p in logx.log_file_paths(dirpath, n, conf["keep"])})
    ctx.check(not extra_files, "rotation/unexpected-file", "the log directory holds a file outside the rotation set",
              lambda: wit({"files": extra_files}))

    if resume is None:
        return
    rc2, report2 = results.get(resume["tag"], (None, []))
    models2 = {n: model_from_disk(disks[n]) for n in LOGS}
    empty_main = [n for n in LOGS if disks[n][0] is not None and disks[n][0]["size"] == 0]
    if rc2 != 0:
        x = [t for t in report2 if t[0] == "X"]
        if x:
            info = json.loads(" ".join(x[0][1:]))
            ctx.fail("exception-on-resume/" + info["key"], "the logger raised when resuming in the same directory",
                     wit({"traceback": info["tb"]}))
        else:
            ctx.inconclusive_case("resuming process %s rc=%s" % (resume["tag"], rc2))
        return
    ctx.hit("resumes")
    if killed:
        ctx.hit("resumes_after_kill")
    st2 = replay(report2, models2)
    ctx.hit("rotations_observed", sum(s["rot"] for s in st2.values()))
    ctx.hit("flushes_observed", sum(s["flushes"] for s in st2.values()))
    p2 = [t[1] for t in report2 if t[0] == "P" and len(t) > 1]
    rel2 = os.path.relpath(p2[0], resume["prefix"]) if p2 else None
    if not ctx.check(rel2 == rel, "reuse/different-directory", "with reuse the resuming logger used another directory",
                     lambda: wit({"first": rel, "second": rel2})):
        return
    dir2 = os.path.join(resume["prefix"], rel2)
    for name in LOGS:
        disk2 = read_disk(dir2, name, conf["keep"])

        def w2(extra, name=name, disk2=disk2):
            return wit(dict(extra, phase="resumed by a second process", after_first_process=describe(disks[name]),
                            main_was_empty_file=name in empty_main,
                            report2_tail=[" ".join(t) for t in report2[-8:]]))
        if name in empty_main:
            ctx.hit("resumes_on_empty_main_file")
        bad_hdr = [k for k, f in enumerate(disk2) if f and f["size"] and not f["hdr"] and not f["bad"]]
        if name in empty_main:
            # the first process died before its header reached the disk: the main file existed, empty
            ctx.check(not bad_hdr, "header/not-written-when-resuming-on-empty-file",
                      "a process resuming (reuse) on a main log file left empty by a killed process appends records without ever writing the header",
                      lambda: w2({"log": name, "headerless_files": bad_hdr, "on_disk": describe(disk2)}))
            for k in bad_hdr:      # judge everything else with that header set aside
                disk2[k] = dict(disk2[k], hdr=True)
        generic_invariants(ctx, name, disk2, conf, w2)
        exact_oracle(ctx, name, disk2, models2[name], w2)


def fsfault_case(ctx, conf, nticks, fault, workdir, tag):
    """A rotate copy is deleted by an outside actor while the logger runs (so a rename in the middle of the rotation chain
    fails): what that file held is gone, but every retained file must still start with the header and the files, read
    oldest to newest, must still be in order with no record twice, and the newest record must be in the newest files."""
    prefix = os.path.join(workdir, "p-%s" % tag)
    os.makedirs(prefix)
    spec, ids, _ = make_spec(conf, nticks, 0)
    spec["ticks"][fault["tick"]]["pre"].insert(0, ["unlink", fault["log"], fault["copy"]])
    res, why = logx.run_batch([{"tag": tag, "spec": spec, "prefix": prefix, "crashes": [], "ids": ids}], workdir, tag, timeout=200)
    if res is None:
        ctx.inconclusive_case("launcher %s failed: %s" % (tag, why))
        return
    rc, report = res.get(tag, (None, []))
    casekey = {"conf": conf, "n": nticks, "fsfault": fault}

    def wit(extra):
        return dict({"config": conf, "ticks": nticks, "fault": fault,
                     "report_tail": [" ".join(t) for t in report if t[0] not in ("L", "T")][-12:]}, **extra)
    if rc != 0:
        x = [t for t in report if t[0] == "X"]
        if x:
            info = json.loads(" ".join(x[0][1:]))
            ctx.case(casekey, nontrivial=True)
            ctx.fail("fsfault/exception/" + info["key"], "the logger raised after a rotate copy was deleted",
                     wit({"traceback": info["tb"]}))
        else:
            ctx.inconclusive_case("workload process %s rc=%s" % (tag, rc))
        return
    happened = any(t[0] == "U" for t in report)
    ctx.case(casekey, nontrivial=happened)
    if not happened:
        return
    ctx.hit("fsfault_rotate_copy_deleted")
    dirs = logx.find_logger_dirs(prefix, spec["house"], spec["logger"])
    if not dirs:
        ctx.inconclusive_case("no logger directory in %s" % tag)
        return
    for name in LOGS:
        disk = read_disk(dirs[-1], name, conf["keep"])
        w = lambda extra, name=name, disk=disk: wit(dict(extra, on_disk=describe(disk)))
        generic_invariants(ctx, name, disk, dict(conf, size=0), lambda extra, w=w: w(extra))
        written = [int(t[2]) for t in report if t[0] == "W" and t[1] == name]
        if written and name in ("alw", "duo", "dek"):
            # nothing but what the deleted copy held may be missing between the oldest and the newest retained record
            gone = set()
            for t in report:
                if t[0] == "U" and t[1] == name and len(t) > 3 and t[3] != "-":
                    gone.update(int(x) for x in t[3].split(","))
            have = set(i for f in disk if f for i in f["ids"])
            if have:
                missing = sorted(w_ for w_ in written if w_ >= min(have) and w_ not in have and w_ not in gone)
                ctx.check(not missing, "fsfault/records-lost-beyond-the-deleted-copy",
                          "after a rotate copy was deleted, records that copy did not hold are missing from the retained files",
                          lambda: w({"log": name, "missing": missing[:20], "deleted_copy_held": sorted(gone)[:20]}))
        if written and name in ("alw", "duo", "dek"):     # (an `always` / `deck` log: its newest record is from the final logger run)
            newest = [f for f in disk[:2] if f]
            ctx.check(any(written[-1] in f["ids"] for f in newest), "fsfault/newest-record-not-in-newest-files",
                      "after a rotate copy was deleted the newest record is not in the main file or the first copy",
                      lambda: w({"log": name, "newest_record": written[-1]}))


def run_group(ctx, g, workdir, count=True):
    res, why = logx.run_batch(g["jobs"], workdir, g["tag"], timeout=320)
    if res is None:
        ctx.inconclusive_case("launcher %s failed: %s" % (g["tag"], why))
        return {}
    judge_group(ctx, g, res, count=count)
    return res


# ------------------------------------------------------------------ strace (thorough)

ST_LINE = re.compile(r'^(\d+)\s+(\w+)\((.*)$')


def strace_scenario(ctx, conf, nticks, workdir, tag):
    prefix = os.path.join(workdir, "p-%s" % tag)
    os.makedirs(prefix)
    spec, ids, _ = make_spec(conf, nticks, 0)
    out = os.path.join(workdir, "strace-%s.txt" % tag)
    rc, report, err = logx.run_child({"spec": spec, "prefix": prefix, "kill": None, "ids": ids}, workdir, tag,
                                     timeout=120, strace_out=out)
    if rc != 0 or not os.path.exists(out) or not any(t[0] == "END" for t in report):
        ctx.extra["strace"] = "not available (rc=%s): %s" % (rc, err[-200:])
        return
    fds = {}                      # fd -> path
    window = None                 # open FB..F window: {'log','fd','writes','fsyncs','pending'}
    pending = collections.Counter()
    nwin = 0
    with open(out, errors="replace") as f:
        for raw in f:
            m = ST_LINE.match(raw)
            if not m:
                continue
            call, rest = m.group(2), m.group(3)
            if call == "openat":
                mm = re.search(r'"([^"]*)".*=\s*(\d+)\s*$', rest)
                if mm and mm.group(1).endswith(".txt") and mm.group(1).startswith(prefix):
                    fds[int(mm.group(2))] = mm.group(1)
            elif call == "close":
                mm = re.match(r'(\d+)\)', rest)
                if mm:
                    fds.pop(int(mm.group(1)), None)
            elif call == "write":
                mm = re.match(r'(\d+), "((?:[^"\\]|\\.)*)"', rest)
                if not mm:
                    continue
                fd, data = int(mm.group(1)), mm.group(2)
                if fd == 1 and data.startswith(logx.MARK):
                    tok = data[len(logx.MARK):].replace("\\n", "").split(" ")
                    if tok[0] == "W":
                        pending[tok[1]] += 1
                    elif tok[0] == "FB":
                        path = os.path.join(logger_dir(report, prefix, spec), tok[1] + ".txt")
                        fd_of = [k for k, v in fds.items() if v == path]
                        window = {"log": tok[1], "fds": fd_of, "writes": 0, "fsyncs": 0, "write_after_fsync": 0,
                                  "pending": pending[tok[1]]}
                    elif tok[0] == "F" and window and window["log"] == tok[1]:
                        nwin += 1
                        wnd = window
                        ctx.check(wnd["fsyncs"] >= 1, "flush/no-fsync-of-the-descriptor",
                                  "a Log.flush completed without an fsync of the log's descriptor (strace)",
                                  lambda: {"config": conf, "window": wnd})
                        ctx.check(wnd["pending"] == 0 or wnd["writes"] >= 1, "flush/buffered-records-not-written-before-fsync",
                                  "a Log.flush with buffered records completed without a write to the descriptor (strace)",
                                  lambda: {"config": conf, "window": wnd})
                        ctx.check(wnd["write_after_fsync"] == 0, "flush/write-after-fsync-inside-flush",
                                  "inside Log.flush a write followed the fsync (strace)",
                                  lambda: {"config": conf, "window": wnd})
                        pending[tok[1]] = 0
                        window = None
                elif window and fd in window["fds"]:
                    window["writes"] += 1
                    if window["fsyncs"]:
                        window["write_after_fsync"] += 1
            elif call == "fsync":
                mm = re.match(r'(\d+)\)', rest)
                if mm and window and int(mm.group(1)) in window["fds"]:
                    window["fsyncs"] += 1
    ctx.hit("strace_flush_windows", nwin)
    ctx.extra["strace"] = "available"
    ctx.case({"strace": conf}, nontrivial=nwin > 0)


# ------------------------------------------------------------------ sharding

def line_points(report):
    """Crash points from a census run: (func, rel line) x {1st, 2nd, middle, last} execution."""
    cnt = collections.Counter((t[1], int(t[2])) for t in report if t[0] == "L")
    pts = []
    for (fn, rel), c in sorted(cnt.items()):
        for nth in sorted({1, 2, c // 2 + 1, c}):
            if 1 <= nth <= c:
                pts.append({"kind": "line", "func": fn, "rel": rel, "nth": nth})
    return pts, cnt


def worker(ctx, job):
    workdir = scratch_dir("c23")
    try:
        conf, n, ix = job["conf"], job["n"], job["index"]
        if job["mode"] == "ticks":
            crashes = [{"kind": "tick", "tick": K} for K in job["kills"]]
            resume_of = ["end"] + [j for j, K in enumerate(job["kills"]) if K in job["resume_ticks"]]
            run_group(ctx, plan_group(conf, n, crashes, resume_of, workdir, "t%d" % ix), workdir)
            if job.get("sample"):
                ctx.sample({"config": conf, "ticks": n, "crash_points": ["no kill"] + ["start of tick %d" % k for k in job["kills"]][:5] + ["..."]})
        elif job["mode"] == "lines":
            cg = plan_group(conf, n, [], [], workdir, "census%d" % ix, census=True)
            res = run_group(ctx, cg, workdir, count=job["part"] == 0)
            pts, cnt = line_points(res.get(cg["tag"], (None, []))[1])
            ctx.hit("census_lines", len(cnt))
            mine = pts[job["part"]::job["parts"]]
            resume_of = [j for j in range(len(mine)) if j % 8 == 0]
            run_group(ctx, plan_group(conf, n, mine, resume_of, workdir, "l%d" % ix), workdir)
            if job["part"] == 0:
                ctx.sample({"config": conf, "line_crash_points": len(pts), "first": pts[:4],
                            "executed_lines_per_function": {fn: sum(1 for (f, r) in cnt if f == fn) for fn in logx.LINE_TARGETS}})
        elif job["mode"] == "strace":
            strace_scenario(ctx, conf, n, workdir, "c%dst" % ix)
        elif job["mode"] == "fsfault":
            for j, fault in enumerate(job["faults"]):
                fsfault_case(ctx, conf, n, fault, workdir, "f%d-%d" % (ix, j))
    finally:
        shutil.rmtree(workdir, ignore_errors=True)


def run(ctx):
    n = ctx.pick(24, 40)
    allc = all_configs()
    confs = pick_configs(ctx.subrng("c23-configs"), ctx.pick(12, 36))
    jobs = []
    if not ctx.quick:       # the longest jobs first
        lconfs = [c for c in confs if c["keep"] >= 1 and c["cycle"] <= 3 * DT][:3]
        for conf in lconfs:
            for part in range(6):
                jobs.append({"mode": "lines", "conf": conf, "n": 16, "part": part, "parts": 6})
        for conf in [c for c in confs if c["keep"] >= 1][:2] + [c for c in confs if c["keep"] == 0][:1]:
            jobs.append({"mode": "strace", "conf": conf, "n": 24})
    for ci, conf in enumerate(confs):
        jobs.append({"mode": "ticks", "conf": conf, "n": n, "kills": list(range(1, n)), "sample": ci == 0,
                     "resume_ticks": ctx.pick([1, 2, 9], [1, 2, 3, 9, 17, 25, 33])})
    # file-system faults: a rotate copy deleted mid-run (keep >= 2 so that the failing rename is inside the chain)
    frng = ctx.subrng("c23-fsfault")
    fconfs = [c for c in allc if c["keep"] >= 2 and c["cycle"] <= 3 * DT and not c["reuse"] and c["sched"] == "plain"]
    for conf in frng.sample(fconfs, ctx.pick(6, 16)):
        faults = [{"tick": frng.randint(6, n - 6), "log": frng.choice(["alw", "duo", "dek"]), "copy": frng.randint(1, conf["keep"] - 1)}
                  for _ in range(ctx.pick(2, 6))]
        if conf["keep"] >= 3:     # the failing rename is not the first one of the chain (copy 02 -> 03 succeeds, 01 -> 02 fails)
            faults[0]["copy"] = 1
        jobs.append({"mode": "fsfault", "conf": conf, "n": n, "faults": faults})
    ctx.shard(jobs, timeout=ctx.pick(150, 340))
    ctx.floor("fsfault_rotate_copy_deleted", ctx.pick(4, 30))
    ctx.extra["configurations"] = len(confs)
    ctx.extra["configuration_space"] = len(allc)
    ctx.extra["ticks_per_run"] = n
    nk = len(confs) * (n - 1)
    ctx.floor("kills_performed", nk // 2)
    ctx.floor("kills_at_tick", nk // 2)
    ctx.floor("normal_ends", len(confs) // 2)
    ctx.floor("distinct_nontrivial", nk // 2)
    ctx.floor("rotations_observed", len(confs) * 3)      # counted once per process (normal end / resumed), not per kill
    ctx.floor("flushes_observed", len(confs) * 20)
    ctx.floor("records_parsed", nk * 4)
    ctx.floor("kills_with_unflushed_records", nk // 20)
    ctx.floor("resumes", ctx.pick(4, 30))
    ctx.floor("resumes_after_kill", ctx.pick(3, 20))
    if not ctx.quick:
        ctx.floor("kills_at_line", 200)
        ctx.floor("kills_mid_rotation", 50)
        ctx.floor("census_lines", 100)
        if ctx.extra.get("strace") == "available":
            ctx.floor("strace_flush_windows", 20)
