"""C31 keep-alive connections carry N requests to N ordered, framed responses (engines D+E).

One real ``Patron`` and one real ``Valet`` on one persistent connection
(in-memory socket-pair doubles with partial sends and trickling delivery, or
real loopback sockets on an ephemeral port).  N <= 8 requests with unique
ids; the WSGI application answers each id with its own generated shape (fixed
length, fixed in pieces, streamed without length, streamed with empty yields,
empty, empty with length 0, generator return value, write() callable).  The
service calls of both sides (``serviceAll`` and their parts) and the
delivery of bytes are interleaved at random, followed by a bounded number of
fair rounds.

Oracle: exactly N responses, in request order, each carrying the id of the
request that caused it and the application's status / headers / body; the
bytes the server put on the wire split into exactly N self-delimited messages
(independent reference parser); a probe request N+1 on the same connection
succeeds; responses handed out earlier are unchanged at the end; no service
call raises.
"""
import zlib
import time

from vf import httpgen as hg
from vf.core import exc_key

LEVEL = "exploration"
RULE = ("history = N in 1..8 requests (GET/POST/PUT/PATCH/DELETE/OPTIONS, none|binary|JSON payload) x per-request "
        "response shape (8 shapes, mixed) x transport (memory doubles with partial sends + trickled delivery | real "
        "loopback) x random interleaving of 12 service actions (1500 steps max) then <=400 fair rounds; requests queued "
        "up front or appended while running; distinct = distinct (request list, shape list, schedule seed); non-trivial "
        "= N >= 2 with at least one response without a length after the first response or mixed shapes")
RULE = __import__("vf.core", fromlist=["rule_add"]).rule_add(RULE, 'also a second life of the patron after a close request and a reconnect, streams whose application fails with an ordinary exception after its last piece, HEAD / 304 responses that declare the length of their entity')
META = {"engine": "D+E io/http", "technique": "history checking with unique ids, independent wire re-parse, schedule fuzzing",
        "level_text": "exploration: sampled sequences and schedules; every shape as first and as later response floor-counted",
        "level_note": "HEAD and 204/304 are generated with applications that produce no body (no-body semantics belong to the application), 1xx are not; "
                      "liveness is bounded progress in service calls, the wall clock only yields inconclusive"}

SHAPES = ("fixed", "fixed-pieces", "stream", "stream-gaps", "empty", "empty-cl0", "genreturn", "write")
NOLEN = ("stream", "stream-gaps", "empty", "genreturn", "write")
METHODS = ("GET", "POST", "PUT", "PATCH", "DELETE", "OPTIONS")
ALLOWED_EXTRA = {"server", "date", "transfer-encoding", "content-length", "content-type"}


def jsonable(o):
    if isinstance(o, (bytes, bytearray)):
        return bytes(o).decode("latin-1")
    if isinstance(o, dict):
        return {str(k): jsonable(v) for k, v in o.items()}
    if isinstance(o, (list, tuple)):
        return [jsonable(v) for v in o]
    if isinstance(o, (str, int, float, bool)) or o is None:
        return o
    return repr(o)


def _od(pairs):
    from ioflo.aid.odicting import odict
    return odict(pairs)


def send_request(patron, req):
    kw = {"method": req["method"], "path": req["path"], "qargs": _od(req["qargs"]), "headers": _od(req["headers"])}
    if req["kind"] == "body":
        kw["body"] = req["body"]
    elif req["kind"] == "json":
        kw["data"] = req["data"]
    patron.request(**kw)


def snap(r):
    rq = r.get("request") or {}
    rh = rq.get("headers") or {}
    return {"status": r["status"], "reason": r["reason"], "body": bytes(r["body"]), "errored": bool(r["errored"]),
            "headers": {str(k).lower(): v for k, v in r["headers"].items()},
            "request_id": rh.get("x-vf-id") if hasattr(rh, "get") else None}


def one_case(ctx, rng, idx, mem, deadline):
    tag = "k%d-%d" % (ctx.job["index"] if ctx.job else 0, idx)
    n = rng.choice([1, 2, 2, 3, 3, 4, 5, 6, 8])
    reqs, specs = [], {}
    bodiless = False
    for i in range(n + 1):               # the last one is the probe
        rid = "%s-%d" % (tag, i)
        rq = hg.gen_request(rng, rid, methods=METHODS)
        if rq["kind"] not in ("none", "body", "json"):
            rq["kind"] = "none"
            rq.pop("fargs", None)
            rq["headers"] = [h for h in rq["headers"] if h[0].lower() != "content-type"]
        reqs.append(rq)
        if i < n and rng.random() < 0.12:
            # a response that has no body by definition (to a HEAD request, or 204 / 304): the application produces none,
            # with or without a Content-Length; the next response on the connection must still be found
            if rng.random() < 0.5:
                rq["method"] = "HEAD"
                rq["kind"] = "none"
                rq.pop("body", None)
                rq.pop("data", None)
                rq["headers"] = [h for h in rq["headers"] if h[0].lower() != "content-type"]
                specs[rid] = hg.gen_appspec(rng, rid, shapes=("empty", "empty-cl0"), statuses=[200, 404], bodiless="HEAD")
            else:
                specs[rid] = hg.gen_appspec(rng, rid, shapes=("empty", "empty-cl0"), statuses=[204, 304], bodiless=True)
            bodiless = True
            continue
        specs[rid] = hg.gen_appspec(rng, rid, shapes=SHAPES, statuses=[200, 201, 202, 203, 206, 400, 404, 500])
        if specs[rid]["shape"] in ("stream", "stream-gaps") and zlib.crc32(rid.encode()) % 3 == 0:
            # the application fails with an ordinary exception after its last piece: the response is still delimited
            specs[rid]["crash_end"] = True
            ctx.hit("streams_whose_application_fails_at_the_end")
    shapes = [specs[r["id"]]["shape"] for r in reqs]
    seen = []
    app = hg.make_app(lambda environ: specs[environ.get("HTTP_X_VF_ID")], seen)
    schedseed = rng.randrange(1 << 30)
    srng = __import__("random").Random(schedseed)
    upfront = rng.random() < 0.6
    wit = lambda extra=None: jsonable(dict({"n": n, "shapes": shapes, "requests": [{k: v for k, v in r.items()} for r in reqs],
                                            "transport": "memory" if mem else "loopback", "schedule_seed": schedseed,
                                            "queued_up_front": upfront}, **(extra or {})))
    pair = hg.Pair(app, rng=srng, mem=mem, choppy=mem)
    escaped = []
    arrived = []
    try:
        patron = pair.patron()
        valet, conn, servant, store = pair.valet, patron.connector, pair.servant, pair.store
        tosend = list(reqs[:n])
        if upfront:
            for r in tosend:
                send_request(patron, r)
            tosend = []
        actions = [("p.all", patron.serviceAll), ("p.connect", conn.serviceConnect), ("p.requests", patron.serviceRequests),
                   ("p.txes", conn.serviceTxes), ("p.response", patron.serviceResponse),
                   ("v.all", valet.serviceAll), ("v.connects", valet.serviceConnects),
                   ("v.receives", servant.serviceReceivesAllIx), ("v.reqs", valet.serviceReqs), ("v.reps", valet.serviceReps),
                   ("v.txes", servant.serviceTxesAllIx), ("net", pair.deliver)]
        weights = [3, 1, 1, 1, 2, 3, 1, 1, 1, 1, 1, 4]
        trace = []

        def collect():
            while len(arrived) < len(patron.responses):
                arrived.append(snap(patron.responses[len(arrived)]))

        def step(name, fn):
            try:
                fn()
            except Exception as ex:
                if len(escaped) < 3:
                    escaped.append((name, exc_key(ex), "%s: %s" % (type(ex).__name__, str(ex)[:120])))
            collect()

        steps = 0
        maxsteps = rng.choice([50, 200, 600, 1500])
        while steps < maxsteps and len(arrived) < n and not escaped:
            steps += 1
            if steps % 64 == 0 and time.time() > deadline:
                ctx.inconclusive_case("wall-clock watchdog")
                return
            if tosend and srng.random() < 0.05:
                send_request(patron, tosend.pop(0))
            name, fn = srng.choices(actions, weights)[0]
            if len(trace) < 40:
                trace.append(name)
            step(name, fn)
            store.advanceStamp(0.0005)
            if not mem and steps % 8 == 0:
                time.sleep(0.0002)
        for r in tosend:
            send_request(patron, r)

        def doomed():
            """A response without any frame is already on the wire: the verdict is decided, stop spending rounds."""
            if not mem:
                return False
            try:
                ms, _ = hg.ref_parse_stream(bytes(pair.net.conns[0][3].total), "response", [r["method"] for r in reqs])
            except hg.WireError:
                return True
            return any(m.get("undelimited") for m in ms)

        fair = 0
        while fair < 400 and len(arrived) < n and not escaped:
            if fair % 50 == 0 and doomed():
                break
            fair += 1
            if fair % 32 == 0 and time.time() > deadline:
                ctx.inconclusive_case("wall-clock watchdog")
                return
            step("p.all", patron.serviceAll)
            pair.deliver()
            step("v.all", valet.serviceAll)
            pair.deliver()
            store.advanceStamp(0.001)
            if not mem:
                time.sleep(0.0002)
        if not mem and len(arrived) < n and not escaped:
            # real sockets: give the kernel real time before judging; still nothing => inconclusive, never a verdict
            t0 = time.time()
            while len(arrived) < n and time.time() - t0 < 0.4 and not escaped:
                time.sleep(0.002)
                step("p.all", patron.serviceAll)
                step("v.all", valet.serviceAll)
                store.advanceStamp(0.001)
            ctx.hit("loopback_drain")
            if len(arrived) < n and not escaped:
                ctx.inconclusive_case("loopback exchange incomplete after 400 fair rounds + 0.4 s (wall-clock watchdog)")
                return
        got_n = len(arrived)
        # probe N+1 on the same connection
        probe_ok = None
        if got_n == n and not escaped:
            send_request(patron, reqs[n])
            k = 0
            while k < 400 and len(arrived) < n + 1 and not escaped:
                k += 1
                step("p.all", patron.serviceAll)
                pair.deliver()
                step("v.all", valet.serviceAll)
                pair.deliver()
                store.advanceStamp(0.001)
                if not mem:
                    time.sleep(0.0002)
            if not mem and len(arrived) < n + 1 and not escaped:
                t0 = time.time()
                while len(arrived) < n + 1 and time.time() - t0 < 0.4 and not escaped:
                    time.sleep(0.002)
                    step("p.all", patron.serviceAll)
                    step("v.all", valet.serviceAll)
                if len(arrived) < n + 1 and not escaped:
                    ctx.inconclusive_case("loopback probe incomplete after 400 fair rounds + 0.4 s (wall-clock watchdog)")
                    return
            probe_ok = len(arrived) == n + 1
        # ---- second life (real sockets): the connection is ended by a `Connection: close` request, the same patron is
        # connected again and the new persistent connection carries a sequence of its own -- streamed responses first
        if not mem and probe_ok and not escaped and srng.random() < 0.6:
            import socket as _socket
            base = len(arrived)
            seen_base = len(seen)
            extra = []
            for j in range(3):
                rid = "%s-x%d" % (tag, j)
                rq = {"id": rid, "method": "GET", "path": "/again/%d" % j, "qargs": [], "kind": "none",
                      "headers": [("X-Vf-Id", rid)] + ([("Connection", "close")] if j == 0 else [])}
                specs[rid] = hg.gen_appspec(rng, rid, shapes=("fixed",) if j == 0 else ("stream-gaps", "stream", "write"), statuses=[200])
                extra.append(rq)
            send_request(patron, extra[0])

            def rounds(until, cap=400):
                k = 0
                while k < cap and not until() and not escaped:
                    k += 1
                    step("p.all", patron.serviceAll)
                    step("v.all", valet.serviceAll)
                    store.advanceStamp(0.001)
                    time.sleep(0.0003)
                return until()
            if rounds(lambda: len(arrived) > base and conn.cutoff):
                step("p.all", patron.serviceAll)
                conn.reopen()
                conn.cs.setsockopt(_socket.IPPROTO_TCP, _socket.TCP_NODELAY, 1)
                if rounds(lambda: conn.connected):
                    for rq in extra[1:]:
                        send_request(patron, rq)
                    done = rounds(lambda: len(arrived) >= base + 3, cap=800)
                    ctx.hit("sequences_continued_after_reconnect")
                    got = arrived[base + 1:base + 3]
                    want = [specs[rq["id"]]["expect"] for rq in extra[1:]]
                    ok = done and len(got) == 2 and all(
                        not a["errored"] and a["status"] == e["status"] and a["body"] == e["body"] and a["headers"].get("x-vf-id") == rq["id"]
                        for a, e, rq in zip(got, want, extra[1:]))
                    ctx.check(ok and not escaped, "keepalive/after-reconnect/responses-differ",
                              "after the patron was connected again, its two requests did not get their two responses in order "
                              "(got %d, errored: %s)" % (len(got), [a["errored"] for a in got]),
                              lambda: wit({"arrived_after_reconnect": got, "expected": want, "escaped": escaped}))
            del arrived[base:]          # (the verdicts below are about the first connection)
            del seen[seen_base:]
        ctx.event(steps + fair)
        # ---- wire view (memory transport records every byte the server sent)
        wire = None
        undelimited = None
        if mem:
            total = bytes(pair.net.conns[0][3].total)
            try:
                msgs, rest = hg.ref_parse_stream(total, "response", [r["method"] for r in reqs])
                wire = {"messages": len(msgs), "framings": [m["framing"] for m in msgs], "rest": rest[:200]}
                for i, m in enumerate(msgs):
                    if m.get("undelimited"):
                        undelimited = i
            except hg.WireError as ex:
                wire = {"error": str(ex)}
        w2 = lambda extra=None: wit(dict({"arrived": arrived, "wire": wire, "escaped": escaped, "first_actions": trace,
                                          "random_steps": steps, "fair_rounds": fair}, **(extra or {})))
        # ---- verdicts
        first = escaped[0] if escaped else None
        ctx.check(not escaped, "exception/%s" % (first[1] if first else ""),
                  "%s escapes %s during a keep-alive exchange" % (first[2] if first else "", first[0] if first else ""), w2)
        if mem:
            if wire and "error" in wire:
                ctx.fail("wire/unparseable", "the bytes sent by the server are not a sequence of HTTP responses: " + wire["error"], w2)
            else:
                cls = "-"
                if undelimited is not None:
                    sh = shapes[undelimited] if undelimited < len(shapes) else "?"
                    cls = "%s/%s" % ("without-length" if sh in NOLEN else "with-length", "first" if undelimited == 0 else "reused-connection")
                ctx.check(undelimited is None, "wire/undelimited-response/" + cls,
                          "response %s on the persistent connection is neither chunked nor length delimited" % undelimited, w2)
                if not escaped and undelimited is None:
                    want = n + (1 if probe_ok is not None else 0)
                    ctx.check(len(msgs) >= min(want, got_n + (1 if probe_ok else 0)) and len(msgs) <= want and rest == b"",
                              "wire/message-count", "server sent %d framed responses (+%d stray bytes) for %d requests" % (
                                  len(msgs), len(rest), want), w2)
                    for i, m in enumerate(msgs[:n + 1]):
                        exp = specs[reqs[i]["id"]]["expect"]
                        ctx.check(m["body"] == exp["body"] and m["status"] == exp["status"], "wire/body-or-status",
                                  "response %d on the wire differs from what the application produced" % i,
                                  lambda i=i, m=m: w2({"index": i, "wire_body": m["body"], "expected": exp}))
        after = "/after-undelimited-response" if undelimited is not None else ("/after-exception" if escaped else "")
        ctx.check(got_n == n, "keepalive/response-count" + after,
                  "client received %d responses for %d requests within %d random steps + %d fair rounds" % (got_n, n, steps, fair), w2)
        ids = [a["headers"].get("x-vf-id") for a in arrived[:n]]
        want_ids = [r["id"] for r in reqs[:len(ids)]]
        ctx.check(ids == want_ids, "keepalive/order" + after, "responses are not in request order", lambda: w2({"ids": ids}))
        for i, a in enumerate(arrived[:n + 1]):
            exp = specs[reqs[i]["id"]]["expect"]
            sh = shapes[i]
            pos = "first" if i == 0 else "later"
            ctx.check(a["request_id"] == reqs[i]["id"], "keepalive/matched-request" + after,
                      "response %d is attached to request %s instead of %s" % (i, a["request_id"], reqs[i]["id"]),
                      lambda i=i: w2({"index": i}))
            ok = (not a["errored"] and a["status"] == exp["status"] and a["reason"] == exp["reason"] and a["body"] == exp["body"]
                  and all(a["headers"].get(k) == v for k, v in exp["headers"].items())
                  and not (set(a["headers"]) - set(exp["headers"]) - ALLOWED_EXTRA))
            ctx.check(ok, "keepalive/response-content/%s/%s%s" % (sh, pos, after),
                      "response %d (%s) differs from what the application produced for its id" % (i, sh),
                      lambda i=i, exp=exp: w2({"index": i, "expected": exp}))
        if probe_ok is not None:
            ctx.check(probe_ok, "keepalive/probe-after-N", "the connection is not usable for request N+1 after N responses", w2)
        # responses handed out earlier must not change afterwards
        held = [snap(r) for r in list(patron.responses)[:len(arrived)]]
        changed = [i for i, (h, a) in enumerate(zip(held, arrived)) if h["body"] != a["body"]]
        ctx.check(not changed, "client/earlier-response-body-changed",
                  "the body of response(s) %s in Patron.responses changed after later responses were parsed" % changed,
                  lambda: w2({"changed": changed, "held_now": held}))
        # bookkeeping
        ctx.check(len(seen) == len(arrived) or bool(after), "keepalive/application-calls",
                  "application called %d times for %d responses" % (len(seen), len(arrived)), w2)
        nolen_later = any(s in NOLEN for s in shapes[1:n])
        ctx.case((reqs, shapes, schedseed, mem, upfront), nontrivial=(n >= 2 and (nolen_later or len(set(shapes[:n])) > 1)))
        ctx.hit("transport:" + ("memory" if mem else "loopback"))
        ctx.hit("n:%d" % n)
        if bodiless:
            ctx.hit("sequences_with_bodiless_response")
        for i, s in enumerate(shapes[:n]):
            ctx.hit("shape:%s:%s" % (s, "first" if i == 0 else "later"))
        if mem:
            cs, ss = pair.net.conns[0][0], pair.net.conns[0][1]
            ctx.hit("partial_sends", cs.partial + ss.partial)
        if probe_ok:
            ctx.hit("probe_ok")
        if steps >= maxsteps:
            ctx.hit("needed_fair_rounds")
        if len(ctx.samples) < 2:
            ctx.sample(w2())
    finally:
        pair.close()


def worker(ctx, job):
    deadline = time.time() + job["budget"]
    rng = ctx.rng
    errs = []
    for i in range(job["n"]):
        if time.time() > deadline:
            ctx.inconclusive_case("wall-clock watchdog")
            break
        try:
            one_case(ctx, rng, i, mem=(i % 5 != 0), deadline=deadline)
        except (OSError, RuntimeError) as ex:      # the harness's own sockets (bind / connect), never a verdict
            errs.append("%s: %s" % (type(ex).__name__, ex))
    hg.tolerate_socket_errors(ctx, errs, job["n"])


def run(ctx):
    n = ctx.pick(50, 4000)
    jobs = [{"n": n, "budget": ctx.pick(25, 900)} for _ in range(16)]
    ctx.shard(jobs, timeout=ctx.pick(60, 1500))
    total = 16 * n
    ctx.floor("distinct_nontrivial", total // 3)
    ctx.floor("transport:loopback", total // 15)
    ctx.floor("transport:memory", total // 4)
    ctx.floor("probe_ok", total // 3)
    ctx.floor("sequences_continued_after_reconnect", total // 40)
    ctx.floor("partial_sends", total)
    ctx.floor("needed_fair_rounds", total // 10)
    ctx.floor("events", total * 50)
    for sh in SHAPES:
        ctx.floor("shape:%s:first" % sh, total // 30)
        ctx.floor("shape:%s:later" % sh, total // 10)
    ctx.floor("n:8", total // 30)
    ctx.floor("sequences_with_bodiless_response", total // 10)
    ctx.floor("streams_whose_application_fails_at_the_end", 30)
