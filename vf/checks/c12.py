"""C12 cloned framers run like their originals and never share relative state (engine A).

Every generated case is rendered three ways and really run on ioflo:

  Q1  the program with moot framers cloned by `aux M as name|mine [via inode]` (also inside other moots)
      and by `rear M [as mine] [be aux] in frame F`, with `raze all|first|last [in frame F|me]`;
  Q2  the same program in which every clone that existed in the Q1 run (static or reared) is replaced by a
      hand-expanded ordinary auxiliary framer with the same body (main-relative references written with the
      explicit host names, inode-relative references written as the documented prepend rule gives them) and
      the rear / raze statements are dropped;
  Q3  (when the case has one) the program in which a moot that is cloned exactly once is scheduled `be aux`
      and used directly: the original itself, alone, under the same inputs.

Observation: the recorder behaviour of vf.flo.clones (events per framer object with the values of every share
its built acts refer to; registry of hosted framer objects with birth / death at rear / raze markers; resolved
paths from a walk of the built acts; Framer.Names and frame.auxes at every marker).
"""
import random

from vf import core

LEVEL = "exploration"
RULE = ("seeded random programs: 1-2 active main framers (3-5 station frames, optionally under a common top frame, cycling on "
        "clock and driver-written conditions), 2-5 moot framers (1-4 frames, nested outlines, recorder actions in every context, "
        "pokes to framer-, frame-, named-frame- and inode(me)-relative shares, transitions on own / main-framer / main-frame / "
        "absolute / clock conditions, `done me`), cloned statically as named and insular clones with 10 forms of `via`, nested "
        "up to depth 3 inside other moots, reared at run time (4 spellings of `rear`) into frames that also hold static clones, "
        "and razed (`all|first|last`, from another frame, from the host frame itself at enter / exit, or while it is active); a "
        "driver framer flips the condition shares at generated ticks; twin clones of one moot framer (under one frame / in two framers under one tag) with update / change conditions, named marks included, against the marker-rule model; framer goals set and tested inside clones; distinct = distinct Q1 program text; non-trivial = at "
        "least 3 clones ran and at least one of them was nested, reared or given a via inode")
META = {"engine": "A floscript",
        "technique": "metamorphic runtime check (clones vs hand-expanded ordinary auxes vs the original itself) + resolved-path walk "
                     "+ rear/raze registry model + share-interference monitor",
        "level_text": "Each clone's recorded sequence of (tick, frame, context, action, elapsed, recurred, values of all shares it "
                      "refers to) must equal that of its stand-in over the clone's lifetime (from the rear marker to the raze marker); "
                      "resolved paths must equal the stand-in's modulo the clone/stand-in name map, own-relative paths must lie under "
                      "the clone's own name and be pairwise distinct between clones alive together; a share owned by one framer may "
                      "only change at that framer's own actions; rear adds exactly one fresh clone at the end of the named frame, raze "
                      "removes exactly the reared clones selected by all/first/last, leaves static insular and named clones, frees "
                      "the names (also of nested clones) and no razed object emits a later event.",
        "level_note": "Main framers never read clone state, so they behave identically in Q1/Q2/Q3 (checked) and give every clone the "
                      "same inputs. Moots initialise their relative shares on entry, so a stand-in's history before the clone was "
                      "reared cannot leak into the compared interval. Inode-relative expectations use the prepend rule of "
                      "Act.resolvePath as documented and as annotated in the example plans (testNestedViaMe.flo)."}

OWN = ("framer", "frame", "framen")


def evt(e, mask=()):
    vals = e.get("vals") or ()
    return (e["tick"], e["frame"], e["ctx"], e["tag"], e["el"], e["rc"],
            tuple("~" if j in mask else repr(v) for j, v in enumerate(vals)))


def first_diff(a, b):
    for i in range(min(len(a), len(b))):
        if a[i] != b[i]:
            return {"at": i, "clone": [list(x) for x in a[max(0, i - 3):i + 2]], "reference": [list(x) for x in b[max(0, i - 3):i + 2]]}
    return {"clone_len": len(a), "reference_len": len(b), "clone_tail": [list(x) for x in a[-3:]],
            "reference_tail": [list(x) for x in b[-3:]]}


def paths_of(info):
    from ioflo.base import storing
    return [(f, c, i, ("node:" if isinstance(sh, storing.Node) else "") + str(getattr(sh, "name", "?"))) for (f, c, i, sh) in info.refs]


def exc_sig(exc):
    """exception type + innermost ioflo function (the source line is left out: ioflo formats the message on one
    line and raises on the next, and which of the two the traceback shows varies)"""
    return core.exc_key(exc).rsplit(":", 1)[0]


def whose(info):
    """razed | nested-insular | nested-named: what a framer object was when its tree was razed
    (nested-named: a named clone nested in the razed clone, or anything below such a named clone)"""
    if info.kind == "reared":
        return "razed"
    i = info
    while i is not None and i.kind != "reared":
        if i.kind == "static" and not i.flags.get("insular"):
            return "nested-named"
        i = i.host
    return "nested-insular"


def name_class(obs, msg):
    """for 'Framer X already exists': whose name X is (part of the mechanism, not of the random case)"""
    import re
    m = re.search(r"Framer '(\w+)' already exists", msg)
    if not m:
        return ""
    same = [i for i in obs.infos if i.name == m.group(1)]
    if any(i.live for i in same):
        return "/name-of-live-framer"
    if same:
        return "/name-of-%s-clone" % whose(same[-1])
    return "/name-never-hosted"


def run_ok(ctx, obs, label, wit):
    res = obs.res
    if not res.built:
        return "did not build: %s" % (res.build_msgs[-1:],)
    if res.exc is not None:
        return "raised %r" % (res.exc,)
    if obs.problems:
        return "harness: %s" % obs.problems[:2]
    return None


def judge(ctx, case):
    from vf.flo import clones as C
    cap = case["ticks"] + 8
    o1 = C.run(case, "q1", cap)
    t1 = o1.text
    W = {"program": t1}

    def w(**kw):
        d = dict(W)
        d.update(kw)
        return d

    res = o1.res
    if not res.built:
        ctx.fail("clone-program-does-not-build", "generated clone program is refused: %s" % (res.build_msgs[-1:],), w())
        return None
    if res.exc is not None:
        exc = res.exc          # the first exception: what the abort sweep raises afterwards only hides it
        seen = 0
        while exc.__context__ is not None and seen < 10:
            exc = exc.__context__
            seen += 1
        msg = "".join(map(str, exc.args))[:200]
        ctx.fail("run-raised/" + exc_sig(exc) + name_class(o1, msg), "running the clone program raised %s: %s" % (
            type(exc).__name__, msg), w(later_exception=repr(res.exc)[:200] if exc is not res.exc else None))
        return None
    if o1.problems:
        ctx.inconclusive_case("Q1 harness problem: %s" % o1.problems[:2])
        return None
    ctx.event(len(o1.events))
    infos = o1.infos
    clones = [i for i in infos if i.kind != "main"]
    evs1 = {}
    for e in o1.events:
        evs1.setdefault(e["fid"], []).append(e)

    # ---- build-time structure: one object per static aux statement, in statement order
    for i in infos:
        if i.body is None:
            continue
        for f in i.body["frames"]:
            want = len([s for s in f["stmts"] if s["k"] == "aux"])
            got = len([c for c in clones if c.host is i and c.hostframe == f["name"] and c.kind == "static"])
            ctx.check(got == want, "static-clone-count", "frame %s of %s holds %d static clones, script has %d aux statements"
                      % (f["name"], i.name, got, want), lambda: w())

    # ---- rear / raze registry model
    reared_live = {}          # (main fid, frame) -> [fid] in creation order
    razed_names = set()
    mk = [o1.events[k] for k in o1.markers]
    for k in range(0, len(mk) - 1):
        pre, post = mk[k], mk[k + 1]
        if not pre["tag"].endswith(":pre"):
            continue
        kind, sid, _ = pre["tag"][1:].split(":")
        if post["tag"] != "@%s:%s:post" % (kind, sid) or post["fid"] != pre["fid"]:
            ctx.inconclusive_case("marker pairing broken at %s / %s" % (pre["tag"], post["tag"]))
            return None
        stmt = case["markers"][sid]
        F = stmt["frame"]
        before, after = pre["auxes"].get(F, []), post["auxes"].get(F, [])
        key = (pre["fid"], F)
        live = reared_live.setdefault(key, [])
        if pre["fresh"] or pre["gone"]:
            ctx.fail("hosted-framers-changed-outside-rear-raze", "clones appeared / vanished before the %s statement ran" % kind,
                     w(marker=pre["tag"], fresh=pre["fresh"], gone=pre["gone"]))
        other_before = {f: v for f, v in pre["auxes"].items() if f != F}
        other_after = {f: v for f, v in post["auxes"].items() if f != F}
        ctx.check(other_before == other_after, "%s-touches-other-frame" % kind,
                  "%s in frame %s changed the auxes of another frame" % (kind, F), lambda: w(marker=pre["tag"]))
        if kind == "rear":
            ctx.hit("rear_ops")
            new = [x for x in after if x not in before]
            ok = len(new) == 1 and after == before + new and -1 not in after
            if not ctx.check(ok, "rear-does-not-append-one-clone", "rear in frame %s: auxes %s -> %s" % (F, before, after),
                             lambda: w(marker=pre["tag"])):
                continue
            ni = infos[new[0]]
            top_new = [infos[x] for x in post["fresh"]]
            ctx.check(ni.kind == "reared" and all(x is ni or x.kind == "static" for x in top_new), "rear-registry",
                      "rear created unexpected objects", lambda: w(marker=pre["tag"]))
            for x in top_new:
                ctx.check(x.name not in pre["names"] and x.name in post["names"], "reared-clone-name-not-fresh-or-unregistered",
                          "reared clone %s: in Framer.Names before=%s after=%s" % (x.name, x.name in pre["names"], x.name in post["names"]),
                          lambda: w(marker=pre["tag"]))
                if x.name in razed_names:
                    ctx.hit("name_reused_after_raze")
            live.append(ni.fid)
            ctx.hit("clones_reared")
        else:
            ctx.hit("raze_ops")
            ctx.hit("raze_" + stmt["who"])
            cand = [x for x in before if x in live]          # the reared (razeable insular) clones of that frame, in order
            if stmt["who"] == "all":
                rm = list(cand)
            elif stmt["who"] == "first":
                rm = cand[:1]
            else:
                rm = cand[-1:]
            expect = [x for x in before if x not in rm]
            if [x for x in before if x not in live]:
                ctx.hit("raze_with_static_clones_present")
            ctx.hit("raze_removed", len(rm))
            if not rm:
                ctx.hit("raze_nothing_to_raze")
            if rm and F in pre["active"]:
                ctx.hit("raze_removed_in_active_host", len(rm))
            if not ctx.check(after == expect, "raze-removes-wrong-clones/%s" % stmt["who"],
                             "raze %s in frame %s: auxes %s -> %s, expected %s (reared: %s)" % (stmt["who"], F, before, after, expect, cand),
                             lambda: w(marker=pre["tag"], names={x: infos[x].name for x in before if x >= 0})):
                for x in rm:
                    if x in live:
                        live.remove(x)
                continue
            gone = set(post["gone"])
            for x in rm:
                live.remove(x)
                tree = [i for i in infos if i.fid == x or _under(i, infos[x])]
                for i in tree:
                    ctx.check(i.fid in gone, "razed-clone-still-hosted", "%s still hosted after raze" % i.name, lambda: w(marker=pre["tag"]))
                    ctx.check(i.name not in post["names"], "razed-clone-name-not-freed/" + whose(i),
                              "name %s of a razed clone is still in Framer.Names" % i.name, lambda: w(marker=pre["tag"]))
                    razed_names.add(i.name)
            extra = [infos[x].name for x in gone if not any(x == r or _under(infos[x], infos[r]) for r in rm)]
            ctx.check(not extra, "raze-removes-wrong-clones/nested", "raze also removed %s" % extra, lambda: w(marker=pre["tag"]))
            keep = [infos[x].name for x in expect if x >= 0]
            ctx.check(all(n in post["names"] for n in keep), "raze-unregisters-surviving-clone",
                      "a clone that was not razed lost its name", lambda: w(marker=pre["tag"]))
    # no two framers alive together under one name
    for a in infos:
        for b in infos:
            if a.fid < b.fid and a.name == b.name and _overlap(a, b):
                ctx.fail("two-live-framers-one-name", "two hosted framers named %s are alive together" % a.name, w())

    # ---- razed objects never emit again
    for c in clones:
        if c.died is None:
            continue
        post_i = o1.markers[c.died]
        pre_i = o1.markers[c.died - 1] if c.died > 0 else -1
        late = [e for e in evs1.get(c.fid, []) if e["i"] > post_i]
        ctx.check(not late, "razed-clone-ran-again", "razed clone %s emitted %d events after its raze" % (c.name, len(late)),
                  lambda: w(clone=c.name, events=[list(evt(e)) for e in late[:5]]))
        forced = [e for e in evs1.get(c.fid, []) if pre_i < e["i"] < post_i]
        ctx.check(all(e["ctx"] in ("exit", "rexit") for e in forced), "raze-runs-non-exit-actions",
                  "raze ran non-exit actions of %s" % c.name, lambda: w(clone=c.name))
        if forced:
            ctx.hit("forced_exit_events", len(forced))

    # ---- own-relative paths lie under the clone's own name; distinct clones, distinct paths
    kinds = {c.fid: C.ref_kinds(c.body) for c in infos if c.body is not None}
    P1 = {c.fid: paths_of(c) for c in infos}
    for c in clones:
        kd = kinds.get(c.fid, {})
        ctx.check(len(kd) == len(P1[c.fid]), "harness-ref-enumeration", "reference walk and generator disagree for %s" % c.name,
                  lambda: w(clone=c.name, walked=P1[c.fid], described=sorted(map(str, kd.items()))))
        for (f, cx, i, p) in P1[c.fid]:
            k = kd.get((f, cx, i))
            ctx.hit("refs_" + str(k))
            if k in ("framer", "clock"):
                ctx.check(p.startswith("framer.%s." % c.name), "own-relative-path-not-under-clone/%s" % k,
                          "%s-relative reference of clone %s resolved to %s" % (k, c.name, p), lambda: w(clone=c.name))
            elif k in ("frame", "framen"):
                ctx.check(p.startswith("framer.%s.frame." % c.name), "own-relative-path-not-under-clone/%s" % k,
                          "%s-relative reference of clone %s resolved to %s" % (k, c.name, p), lambda: w(clone=c.name))
            elif k == "fmain":
                ctx.check(p.startswith("framer.%s." % c.host.name), "main-relative-path-not-under-host/%s" % k,
                          "main framer reference of clone %s (host %s) resolved to %s" % (c.name, c.host.name, p), lambda: w(clone=c.name))
            elif k == "frmain":
                ctx.check(p.startswith("framer.%s.frame.%s." % (c.host.name, c.hostframe)), "main-relative-path-not-under-host/%s" % k,
                          "main frame reference of clone %s (host %s.%s) resolved to %s" % (c.name, c.host.name, c.hostframe, p),
                          lambda: w(clone=c.name))
    own1 = {}
    for c in clones:
        kd = kinds.get(c.fid, {})
        own1[c.fid] = {}
        for (f, cx, i, p) in P1[c.fid]:
            k = kd.get((f, cx, i))
            if k in OWN or k == "me" or k == "clock":
                own1[c.fid].setdefault(p, k)
    ctx.check(not o1.interference, "clone-share-changed-by-another-framer",
              "a share owned by one framer changed at another framer's action: %s" % (o1.interference[:1],),
              lambda: w(interference=o1.interference[:5]))
    ctx.hit("interference_watch_events", len(o1.events))

    # ---- Q2: hand expansion
    reared = []
    for c in infos:
        if c.kind == "reared":
            reared.append((c.host.name, c.hostframe, c.body["name"]))
    case2, names = C.expand(case, reared)
    o2 = C.run(case2, "q2", cap)
    bad = run_ok(ctx, o2, "q2", W)
    if bad:
        ctx.inconclusive_case("hand-expanded program %s\n%s" % (bad, o2.text[:1500]))
        return None
    if o2.interference:
        ctx.inconclusive_case("interference rule broken by ordinary auxes: %s" % o2.interference[:1])
        return None
    ctx.event(len(o2.events))
    stats = compare(ctx, case, o1, o2, names, "standin", w)
    if stats is None:
        return None

    # disjointness between clones alive together (me-relative: only where the hand-written paths differ too)
    by2 = {i.name: i for i in o2.infos}
    name12 = {}
    for c in clones:
        n2 = names.get(c.sid)
        if n2:
            name12[n2] = c.name
    P2 = {}
    for c in clones:
        i2 = by2.get(names.get(c.sid))
        if i2 is not None:
            P2[c.fid] = [(f, cx, i, _map(p, name12)) for (f, cx, i, p) in paths_of(i2)]
    for a in clones:
        for b in clones:
            if a.fid >= b.fid or not _overlap(a, b):
                continue
            common = set(own1[a.fid]) & set(own1[b.fid])
            ctx.hit("disjointness_pairs")
            for p in sorted(common):
                k = own1[a.fid][p]
                if k == "me":
                    pa = {q for (_f, _c, _i, q) in P2.get(a.fid, [])}
                    pb = {q for (_f, _c, _i, q) in P2.get(b.fid, [])}
                    if p in pa and p in pb:
                        ctx.hit("me_paths_shared_by_rule")
                        continue
                ctx.fail("relative-paths-of-distinct-clones-collide/%s" % k,
                         "clones %s and %s both resolve a %s-relative reference to %s" % (a.name, b.name, k, p),
                         w(clones=[a.name, b.name], path=p))
            if not common:
                ctx.check(True, "disjoint")

    # ---- Q3: the original itself as an ordinary aux
    case3 = C.solo_variant(case)
    if case3 is not None:
        o3 = C.run(case3, "q3", cap)
        bad = run_ok(ctx, o3, "q3", W)
        if bad:
            ctx.inconclusive_case("original-as-aux program %s\n%s" % (bad, o3.text[:1500]))
        else:
            ctx.event(len(o3.events))
            names3 = {i.sid: i.name for i in o3.infos}
            if compare(ctx, case, o1, o3, names3, "original", w, by_sid=True) is not None:
                ctx.hit("original_alone_compared")

    # ---- counters
    ran = [c for c in clones if evs1.get(c.fid)]
    ctx.hit("clones_run", len(ran))
    for c in ran:
        if c.kind == "static" and c.depth == 1:
            ctx.hit("clones_static_insular" if c.flags["insular"] else "clones_static_named")
        if c.depth >= 2:
            ctx.hit("clones_nested_run")
        if c.depth >= 3:
            ctx.hit("clones_depth3_run")
        if c.kind == "reared":
            ctx.hit("clones_reared_run")
        if c.flags["inode"]:
            ctx.hit("clones_with_inode_run")
        r = c
        while r.host is not None and r.kind != "reared":
            r = r.host
        if r.kind == "reared" and c is not r:
            ctx.hit("clones_nested_in_reared_run")
    nontrivial = len(ran) >= 3 and any(c.depth >= 2 or c.kind == "reared" or c.flags["inode"] for c in ran)
    return {"nontrivial": nontrivial, "clones": len(clones), "ran": len(ran), "reared": len(reared),
            "events": len(o1.events), "text": t1}


def _under(i, anc):
    h = i.host
    while h is not None:
        if h is anc:
            return True
        h = h.host
    return False


def _overlap(a, b):
    INF = 1 << 30
    ab, ad = (-1 if a.born is None else a.born), (INF if a.died is None else a.died)
    bb, bd = (-1 if b.born is None else b.born), (INF if b.died is None else b.died)
    return ab < bd and bb < ad


def _map(path, name12):
    return ".".join(name12.get(seg, seg) for seg in path.split("."))


def compare(ctx, case, o1, o2, names, label, w, by_sid=False):
    """o1: clone run; o2: reference run (stand-ins, or the original as aux). names: sid -> framer name in o2."""
    from vf.flo import clones as C
    ev2 = {}
    for e in o2.events:
        ev2.setdefault(e["fid"] if by_sid else e["framer"], []).append(e)
    by2 = {i.name: i for i in o2.infos}
    if by_sid:
        sid2 = {i.sid: i for i in o2.infos}
    # hosts behave identically (their inputs to the clones are the same)
    m1 = [(e["framer"],) + evt(e) for e in o1.events if e["fid"] is not None and o1.infos[e["fid"]].kind == "main"]
    m2 = [(e["framer"],) + evt(e) for e in o2.events if e["fid"] is not None and o2.infos[e["fid"]].kind == "main"]
    if not ctx.check(m1 == m2, "host-framers-behave-differently/%s" % label,
                     "the main framers' traces differ between the clone program and the %s program" % label,
                     lambda: w(reference_program=o2.text, diff=first_diff(m1, m2))):
        return None
    if len(o1.markers) != len(o2.markers):
        ctx.inconclusive_case("marker counts differ")
        return None
    evs1 = {}
    for e in o1.events:
        evs1.setdefault(e["fid"], []).append(e)
    name12 = {}
    for c in o1.infos:
        n2 = names.get(c.sid)
        if n2:
            name12[n2] = c.name
    # inode-relative shares that the hand-written paths give to more than one framer are shared by rule: their
    # values depend on who else is alive (a stand-in lives longer than the reared clone it stands for) and they
    # never decide a transition, so they are left out of the value comparison (their paths are still compared)
    users = {}
    for i2 in o2.infos:
        kd2 = C.ref_kinds(i2.body) if i2.body else {}
        for (f, cx, i, p) in paths_of(i2):
            if kd2.get((f, cx, i)) == "me":
                users.setdefault(p, set()).add(i2.fid)
    shared2 = {p for p, u in users.items() if len(u) > 1}
    n = 0
    for c in o1.infos:
        if c.kind == "main":
            continue
        if by_sid:
            i2 = sid2.get(c.sid)
            key2 = i2.fid if i2 is not None else None
        else:
            i2 = by2.get(names.get(c.sid))
            key2 = i2.name if i2 is not None else None
        if i2 is None:
            ctx.fail("clone-without-counterpart/%s" % label, "clone %s (%s) has no counterpart in the %s program" % (c.name, c.sid, label),
                     w(reference_program=o2.text))
            continue
        # lifetime: from the marker that saw it appear to the pre-marker of the raze that removed it
        lo1 = o1.markers[c.born] if c.born is not None else -1
        lo2 = o2.markers[c.born] if c.born is not None else -1
        hi1 = o1.markers[c.died - 1] if c.died is not None and c.died > 0 else 1 << 30
        hi2 = o2.markers[c.died - 1] if c.died is not None and c.died > 0 else 1 << 30
        if by_sid:            # same rear / raze statements on both sides: same lifetime, whole projection
            lo2, hi2 = -1, 1 << 30
            lo1, hi1 = -1, 1 << 30
        mask = {j for j, (f, cx, i, p) in enumerate(paths_of(i2)) if p in shared2}
        if mask:
            ctx.hit("values_masked_shared_by_rule", len(mask))
        a = [evt(e, mask) for e in evs1.get(c.fid, []) if lo1 < e["i"] < hi1]
        b = [evt(e, mask) for e in ev2.get(key2, []) if lo2 < e["i"] < hi2]
        n += 1
        ctx.hit("traces_compared_" + label)
        ctx.hit("trace_events_compared", len(a))
        ctx.check(a == b, "clone-trace-differs-from-%s/%s" % (label, c.kind),
                  "clone %s (%s of moot %s) does not run like its %s" % (c.name, c.kind, c.body["name"] if c.body else "?", label),
                  lambda: w(reference_program=o2.text, clone=c.name, reference=i2.name, diff=first_diff(a, b)))
        # resolved paths equal modulo the name map
        p1 = paths_of(c)
        p2 = [(f, cx, i, _map(p, name12)) for (f, cx, i, p) in paths_of(i2)]
        kd = C.ref_kinds(c.body) if c.body else {}
        if len(p1) != len(p2):
            ctx.fail("clone-references-differ-from-%s" % label, "clone %s has %d share references, its %s %d" % (c.name, len(p1), label, len(p2)),
                     w(reference_program=o2.text, clone=c.name))
            continue
        for x, y in zip(p1, p2):
            k = kd.get(x[:3])
            ctx.hit("paths_compared")
            ctx.check(x == y, "clone-path-differs-from-%s/%s" % (label, k),
                      "%s reference %s of clone %s resolves to %s, the %s's to %s" % (k, x[:3], c.name, x[3], label, y[3]),
                      lambda: w(reference_program=o2.text, clone=c.name, reference=i2.name))
    return n


def rearing_clone_case(rng):
    """a clone that rears (and razes) helpers of its own, hosted by a frame that the main framer leaves and re-enters
    several times: every entry is a repetition under the same inputs, so the clone and what it rears must produce the
    same sequence of events in every cycle (and the run must not die)"""
    W, Pz, K = rng.randint(3, 5), rng.randint(1, 3), rng.randint(1, 2)
    cycles = rng.randint(3, 5)
    layers = rng.choice([1, 1, 2])             # crew directly under main, or inside another clone
    as1 = rng.choice(["mine", "c1"])
    as2 = rng.choice(["mine", "k2"])
    rctx = rng.choice(["enter", "enter", "exit", "recur"])
    raze = rng.choice(["all", "last", "first", None, "all"])
    rzctx = rng.choice(["exit", "enter"])
    L = ["house h", "  framer drv be active in front", "    frame d0", "      repeat %d" % (cycles * (W + Pz) + 2),
         "    frame dfin", "      bid stop all",
         "  framer main be active", "    frame work", '      do vf rec with tag "main.work.enter" at enter',
         "      aux %s as %s" % ("squad" if layers == 2 else "crew", as1), "      go pause if recurred >= %d" % W,
         "    frame pause", '      do vf rec with tag "main.pause.enter" at enter', "      go work if recurred >= %d" % Pz]
    if layers == 2:
        L += ["  framer squad be moot", "    frame s0", '      do vf rec with tag "squad.s0.enter" at enter',
              '      do vf rec with tag "squad.s0.recur" at recur', "      aux crew as %s" % as2]
    L += ["  framer crew be moot", "    frame a", '      do vf rec with tag "crew.a.enter" at enter',
          '      do vf rec with tag "crew.a.exit" at exit']
    if rctx == "recur":
        L += ["      go b if recurred >= %d" % K, "      recur", "      rear helper as mine be aux in frame b"]
    else:
        L += ["      %s" % rctx, "      rear helper %sin frame b" % rng.choice(["as mine be aux ", "as mine ", "be aux ", ""]),
              "      go b if recurred >= %d" % K]
    L += ["    frame b", '      do vf rec with tag "crew.b.enter" at enter', '      do vf rec with tag "crew.b.recur" at recur']
    if raze:
        L += ["      %s" % rzctx, "      raze %s%s" % (raze, rng.choice(["", " in frame me", " in frame b"]))]
    if rng.random() < 0.5:
        L += ["      go a if recurred >= %d" % (K + 1)]
    L += ["  framer helper be moot", "    frame h0", '      do vf rec with tag "helper.h0.enter" at enter',
          '      do vf rec with tag "helper.h0.recur" at recur', '      do vf rec with tag "helper.h0.exit" at exit']
    return {"text": "\n".join(L) + "\n", "period": W + Pz, "cycles": cycles, "raze": raze, "rear_ctx": rctx, "layers": layers,
            "ticks": cycles * (W + Pz) + 8}


def rearing_clone_check(ctx, rng):
    from vf.flo import runner
    case = rearing_clone_case(rng)
    text = case["text"]
    res = runner.run_text(text, maxticks=case["ticks"])
    w = lambda **kw: dict({"program": text, "case": {k: v for k, v in case.items() if k != "text"}}, **kw)
    if not res.built:
        ctx.inconclusive_case("rearing-clone program did not build: %s\n%s" % (res.build_msgs[-1:], text))
        return
    ctx.hit("rearing_clone_cases")
    if res.exc is not None:
        exc = res.exc
        seen = 0
        while exc.__context__ is not None and seen < 10:
            exc = exc.__context__
            seen += 1
        ctx.fail("rearing-clone/run-raised/" + exc_sig(exc), "a clone that rears helpers on every entry: the run raised %s: %s" % (
            type(exc).__name__, "".join(map(str, exc.args))[:160]), w())
        ctx.case(text, nontrivial=True)
        return
    # cycles: from one `main.work.enter` to the next; events of everything but the driver and main, by tag and tick offset
    starts = [e["tick"] for e in res.trace if e["tag"] == "main.work.enter"]
    cyc = []
    for a, b in zip(starts, starts[1:]):
        cyc.append([(e["tick"] - a, e["tag"], e["ctx"]) for e in res.trace if a <= e["tick"] < b and e["framer"] not in ("main", "drv")
                    and not (e["tick"] == b)])
    ctx.event(len(res.trace))
    full = cyc[:-1] if len(cyc) > 1 else cyc       # (the last interval may be cut by the end of the run)
    ctx.hit("rearing_clone_cycles", len(full))
    reared = sum(1 for c in full for ev in c if ev[1] == "helper.h0.enter")
    ctx.hit("helpers_entered_in_cycles", reared)
    # the helper population may differ from cycle to cycle (helpers accumulate without a raze; a rear in exit context also
    # runs when the host is left, after the last raze): the clone's own events must agree, the helpers' are set aside
    strip = lambda c: [ev for ev in c if not ev[1].startswith("helper.")]
    base = strip(full[0]) if full else None
    for i, c in enumerate(full[1:], 1):
        if not ctx.check(strip(c) == base, "rearing-clone/entry-differs-from-first-entry",
                         "entry #%d of the clone's host frame produced another event sequence than entry #0 under the same inputs" % i,
                         lambda i=i, c=c: w(entry=i, first=base[:40], this=strip(c)[:40])):
            break
    ctx.case(text, nontrivial=len(full) >= 2 and reared >= 1)


def houses_raze_case(rng):
    """two or three houses; some of them rear a clone of their moot framer, raze it and rear it again -- with their own
    timing, so that a raze of one house runs while another house was the last one to rear or to be built"""
    nh = rng.choice([2, 2, 3])
    houses = ["h%d" % i for i in range(nh)]
    cyc = [h for h in houses if rng.random() < 0.75] or [houses[0]]
    L = []
    waits = {}
    for h in houses:
        w1, w2 = rng.randint(1, 4), rng.randint(1, 3)
        waits[h] = (w1, w2)
        L += ["house %s" % h, ""]
        if h in cyc:
            L += ["  framer boss be active first f0", "    frame f0", "      rear mo as mine be aux in frame f1", "      go next",
                  "    frame f1", '      do vf rec with tag "%s.f1.enter" at enter' % h, "      go next if recurred >= %d" % w1,
                  "    frame f2", "      raze %s in frame f1" % rng.choice(["all", "first", "last"]), "      go next",
                  "    frame f3", "      rear mo as mine be aux in frame f4", "      go next",
                  "    frame f4", '      do vf rec with tag "%s.f4.enter" at enter' % h, "      go next if recurred >= %d" % w2,
                  "    frame f5", "      bid stop all", ""]
        else:
            L += ["  framer boss be active first f0", "    frame f0", "      go next if recurred >= %d" % (w1 + w2 + 3),
                  "    frame f5", "      bid stop all", ""]
        L += ["  framer mo be moot", "    frame x0", '      do vf rec with tag "%s.mo.x0.enter" at enter' % h,
              '      do vf rec with tag "%s.mo.x0.exit" at exit' % h, ""]
    return {"text": "\n".join(L) + "\n", "houses": houses, "cycling": cyc}


def houses_raze_check(ctx, rng):
    from vf.flo import runner
    case = houses_raze_case(rng)
    text = case["text"]
    res = runner.run_text(text, maxticks=40)
    if not res.built:
        ctx.inconclusive_case("program with several houses did not build: %s" % (res.build_msgs[-1:],))
        return
    ctx.case(text, nontrivial=len(case["cycling"]) >= 1)
    ctx.hit("several_houses_raze_cases")
    ctx.event(len(res.trace))
    w = lambda: {"program": text, "events": [(e["tick"], e["framer"], e["tag"]) for e in res.trace], "raised": repr(res.exc)}
    if not ctx.check(res.exc is None, "several-houses/rear-after-raze-raises/%s" % type(res.exc).__name__,
                     "rearing the moot framer again after its clone was razed raised %r (the razed clone's name is free again)" % (res.exc,), w):
        return
    for h in case["cycling"]:
        ent = [e for e in res.trace if e["tag"] == "%s.mo.x0.enter" % h]
        ext = [e for e in res.trace if e["tag"] == "%s.mo.x0.exit" % h]
        ctx.hit("rear_raze_rear_cycles")
        ctx.check(len(ent) == 2 and len(ext) >= 1 and ent[0]["framer"] == ent[1]["framer"] and
                  res.trace.index(ext[0]) < res.trace.index(ent[1]),
                  "several-houses/razed-clone-name-not-free-or-clone-runs-on",
                  "house %s: the clone reared after the raze is expected to be entered once more under the name that became free; "
                  "enters %s, exits %s" % (h, [(e["tick"], e["framer"]) for e in ent], [(e["tick"], e["framer"]) for e in ext]), w)


def worker(ctx, job):
    from vf.flo import clones as C
    for seed in job.get("hraze", []):
        houses_raze_check(ctx, random.Random(seed))
    for seed in job.get("rearing", []):
        rearing_clone_check(ctx, random.Random(seed))
    # two clones of one moot framer (under one frame, or in two framers under the same clone tag) whose transitions wait
    # for updates / changes of the same share, with and without a named mark: each clone must run as the framer would
    # run alone -- an absolute reference (the marker-rule model of the C20 check), because a stand-in framer built from
    # the same text would share any confusion between the marks of distinct framers
    if job.get("twins"):
        from vf.checks import c20
        opts = c20.need_opts()
        for seed in job["twins"]:
            nf = len(ctx.fails)
            c20.check_case(ctx, c20.random_case(random.Random(seed), opts, twin=True))
            for f in ctx.fails[nf:]:
                f["key"] = "twin-clones/" + f["key"]
            for k in list(ctx.fail_counts):
                if k.startswith("marker-condition/"):
                    ctx.fail_counts["twin-clones/" + k] = ctx.fail_counts.get("twin-clones/" + k, 0) + ctx.fail_counts.pop(k)
    for seed in job["seeds"]:
        rng = random.Random(seed)
        case = C.gen_case(rng, job.get("opt"))
        nf = len(ctx.fails)
        out = judge(ctx, case)
        if out is None:
            text = C.render(case, "q1")
            ctx.case(text, nontrivial=False)
            continue
        ctx.case(out["text"], nontrivial=out["nontrivial"],
                 sample={"program": out["text"], "clones": out["clones"], "clones_that_ran": out["ran"], "reared": out["reared"],
                         "events": out["events"]} if out["nontrivial"] and len(out["text"]) < 5000 else None)


def run(ctx):
    n = ctx.pick(200, 3600)
    seeds = [ctx.rng.randrange(1 << 30) for _ in range(n)]
    k = 14
    rearing = [ctx.rng.randrange(1 << 30) for _ in range(ctx.pick(160, 2400))]
    twins = [ctx.rng.randrange(1 << 30) for _ in range(ctx.pick(240, 6000))]
    hraze = [ctx.rng.randrange(1 << 30) for _ in range(ctx.pick(120, 3000))]
    ctx.floor("rear_raze_rear_cycles", ctx.pick(100, 2500))
    ctx.shard([{"seeds": seeds[i::k], "rearing": rearing[i::k], "twins": twins[i::k], "hraze": hraze[i::k]} for i in range(k)], timeout=ctx.pick(200, 900), procs=k)
    ctx.floor("twin_clones_in_one_frame", 30)
    ctx.floor("twin_clones_in_two_framers", 30)
    ctx.floor("rearing_clone_cycles", ctx.pick(200, 3000))
    ctx.floor("helpers_entered_in_cycles", ctx.pick(100, 1500))
    scale = ctx.pick(1, 12)         # thorough runs 18 times the quick number of cases
    for name, v in FLOORS.items():
        ctx.floor(name, v * scale)


# about one third of what the quick tier (200 cases) measured on the tree that still had the prune defect (cases that die in
# the second rear return early there, so these numbers are the lower ones); scaled for the thorough tier
FLOORS = {"events": 62500, "clones_run": 560, "clones_static_named": 140, "clones_static_insular": 140,
          "clones_nested_run": 180, "clones_depth3_run": 7, "clones_reared_run": 120, "clones_nested_in_reared_run": 50,
          "clones_with_inode_run": 470, "rear_ops": 380, "raze_ops": 310, "raze_all": 56, "raze_first": 56, "raze_last": 56,
          "raze_removed": 120, "raze_removed_in_active_host": 43, "raze_with_static_clones_present": 280,
          "name_reused_after_raze": 120, "traces_compared_standin": 1120, "traces_compared_original": 560,
          "original_alone_compared": 25, "paths_compared": 18750, "disjointness_pairs": 15620,
          "me_paths_shared_by_rule": 1250, "interference_watch_events": 21880,
          "refs_framer": 2500, "refs_frame": 1120, "refs_framen": 3120, "refs_me": 1560, "refs_fmain": 750, "refs_frmain": 750}
