"""C43 angle wrapping (engine C).

Oracle = the statement itself, evaluated in exact rational arithmetic on the
exact values of the arguments and of the result (float -> Fraction is exact):

  wrap1(a, w), w != 0 : result in the half-open range between 0 and w   ([0,w) or (w,0])
                        result - a is a whole multiple of w
  wrap2(a, w), w != 0 : result in the closed range [-|w|, |w|]
                        result - a is a whole multiple of 2w
  delta(d, a, w)      : the two-sided wrap of d - a (same two predicates on d - a)
  w == 0              : the angle comes back unchanged

On the exact domain (ints, Fractions, dyadic floats of small magnitude, where
every machine operation is exact) the whole-turn residual must be 0; for
general floats it must be within 4 ulp of the full turn (float modulo is an
exact fmod plus at most one rounded addition per step).  The range
requirement is never relaxed.
"""
import math
from fractions import Fraction

from vf import fnref
from vf.core import exc_key
from vf.fnref import frac, ulp

LEVEL = "exploration"
RULE = ("exact grid (exhaustive, same for every seed): wraps from a list of 17 magnitudes (integers 1..360 and rationals "
        "such as 1/2, 1/3, 22/7, 45/2) with both signs and 0, angles p/q for q in {1,2,3,4,5,8} and |p/q| <= 24 "
        "(thorough 90) plus k*wrap + e around every multiple k in -3..3; wrap1 gets ints and Fractions (exact "
        "arithmetic), wrap2/delta get ints and floats (dyadic ones exact); seeded random floats: angles tiny "
        "(1e-320..1e-9), ordinary, large (..1e15), huge (..1e300), exact and near multiples of the wrap, wraps "
        "360/180/pi/2pi/random/negative/tiny/1e300 (|wrap| <= 1e300 so 2*wrap is finite); distinct = distinct "
        "(function, arguments); non-trivial = wrap != 0 and finite arguments")
RULE = __import__("vf.core", fromlist=["rule_add"]).rule_add(RULE, 'the functions are also reached through their older names (navigating.Wrap2 / Delta, ioflo.base.aiding) and with keyword wrap')
META = {"engine": "C function",
        "technique": "statement predicates evaluated in exact rational arithmetic on exact grid + random floats",
        "level_text": "exploration: the rational grid is enumerated completely, floats are sampled by magnitude class; "
                      "the proof part of the quantifier is not produced by this family (DESIGN 5)",
        "level_note": "non-finite angles and |wrap| > 1e300 are not generated; float whole-turn residual tolerance is "
                      "4 ulp of the full turn (+1 ulp of the operand of an inexact int/Fraction conversion or of d - a)"}

KF_RANGE_END = "wrap1/float-result-rounds-to-the-excluded-end-wrap"


def is_exact_pair(*xs):
    """every machine operation wrap1/wrap2 performs on these is exact"""
    for x in xs:
        if isinstance(x, float):
            f = Fraction(x)
            if f.denominator > 64 or abs(f) > 2 ** 40:
                return False
        elif isinstance(x, int):
            if abs(x) > 2 ** 40:
                return False
    return True


class W(object):
    def __init__(self, ctx):
        from ioflo.aid import navigating
        self.ctx = ctx
        self.nav = navigating

    def call(self, name, *args):
        """the helper is reached under its own name or under its older names (navigating.Wrap2 / Delta, and the same
        re-exported by the backwards compatibility module ioflo.base.aiding), the wrap given by position or by keyword"""
        self.ncalls = getattr(self, "ncalls", 0) + 1
        how = self.ncalls % 8
        try:
            fn = getattr(self.nav, name)
            if how in (3, 5, 7) and name in ("wrap2", "delta"):
                legacy = {"wrap2": "Wrap2", "delta": "Delta"}[name]
                if how == 3:
                    fn = getattr(self.nav, legacy)
                else:
                    from ioflo.base import aiding as _legacy
                    fn = getattr(_legacy, legacy)
                self.ctx.hit("calls_through_older_names")
            if how in (2, 5, 6):
                self.ctx.hit("wrap_given_by_keyword")
                return True, fn(*args[:-1], wrap=args[-1])
            return True, fn(*args)
        except Exception as e:
            self.ctx.fail("%s/raises/%s" % (name, exc_key(e)), "%s%r raises %r" % (name, args, e),
                          {"args": [repr(a) for a in args]})
            return False, None

    def zero(self, name, args, angle_index=0):
        ctx = self.ctx
        ctx.case((name, [repr(a) for a in args]), nontrivial=False)
        ok, r = self.call(name, *args)
        if not ok:
            return
        if name == "delta":
            want = args[0] - args[1]
        else:
            want = args[angle_index]
        ctx.check(type(r) is type(want) and (r == want), "%s/wrap-zero-does-not-return-angle-unchanged" % name,
                  "%s with wrap 0 does not return the angle unchanged" % name,
                  lambda: {"args": [repr(a) for a in args], "got": repr(r), "want": repr(want)})
        ctx.hit("wrap_zero")

    def wrap1(self, a, w, tag):
        ctx = self.ctx
        if w == 0:
            return self.zero("wrap1", (a, w))
        ctx.case(("w1", repr(a), repr(w)), nontrivial=True)
        ok, r = self.call("wrap1", a, w)
        if not ok:
            return
        if isinstance(r, float) and not math.isfinite(r):
            ctx.fail("wrap1/non-finite-result/" + tag, "wrap1 returns a non finite value for finite arguments",
                     {"angle": repr(a), "wrap": repr(w), "got": repr(r)})
            return
        A, Wv, R = frac(a), frac(w), frac(r)
        exact = not (isinstance(a, float) or isinstance(w, float)) or is_exact_pair(a, w)
        if not fnref.in_wrap1_range(R, Wv):
            # classify: the one known mechanism is an exact result just inside the excluded end whose
            # rounded float is the end itself
            ref = fnref.ref_wrap1(A, Wv)
            if (not exact and R == Wv and abs(Wv - ref) <= ulp(w)):
                ctx.fail(KF_RANGE_END, "wrap1 returns wrap itself (outside the half-open range) when the exact result "
                         "is within one ulp of wrap", {"angle": repr(a), "wrap": repr(w), "got": repr(r),
                                                       "exact_result": "%.6e below the end" % float(abs(Wv - ref))})
            else:
                ctx.fail("wrap1/result-outside-half-open-range/" + tag,
                         "wrap1 result is outside the half-open range between 0 and wrap",
                         {"angle": repr(a), "wrap": repr(w), "got": repr(r)})
        else:
            ctx.check(True, "wrap1/range")
        k, res = fnref.whole_turns(R, A, Wv)
        tol = 0 if exact else 4 * Fraction(ulp(w)) + (Fraction(ulp(float(a))) if not isinstance(a, float) else 0)
        ctx.check(abs(res) <= tol, "wrap1/not-a-whole-number-of-turns/" + tag,
                  "wrap1 result does not differ from the angle by a whole number of wraps",
                  lambda: {"angle": repr(a), "wrap": repr(w), "got": repr(r), "turns": int(k), "residual": float(res),
                           "tolerance": float(tol)})
        ctx.hit("wrap1_moved" if k != 0 else "wrap1_in_place")

    def _two_sided(self, name, args, a_exact, a_tol, w, r, tag):
        ctx = self.ctx
        if isinstance(r, float) and not math.isfinite(r):
            ctx.fail("%s/non-finite-result/%s" % (name, tag), "%s returns a non finite value for finite arguments" % name,
                     {"args": [repr(x) for x in args], "got": repr(r)})
            return
        Wv, R = frac(w), frac(r)
        ctx.check(fnref.in_wrap2_range(R, Wv), "%s/result-outside-closed-range/%s" % (name, tag),
                  "%s result is outside [-|wrap|, +|wrap|]" % name,
                  lambda: {"args": [repr(x) for x in args], "got": repr(r)})
        k, res = fnref.whole_turns(R, a_exact, 2 * Wv)
        exact = a_tol == 0 and is_exact_pair(w, *[x for x in args[:-1]])
        tol = 0 if exact else 4 * Fraction(ulp(2.0 * float(w))) + a_tol
        ctx.check(abs(res) <= tol, "%s/not-a-whole-number-of-full-turns/%s" % (name, tag),
                  "%s result does not differ from the angle by a whole number of full turns (2*wrap)" % name,
                  lambda: {"args": [repr(x) for x in args], "got": repr(r), "turns": int(k), "residual": float(res),
                           "tolerance": float(tol)})
        ctx.hit("%s_moved" % name if k != 0 else "%s_in_place" % name)
        if abs(R) == abs(Wv):
            ctx.hit("two_sided_half_turn_point")

    def wrap2(self, a, w, tag):
        if w == 0:
            return self.zero("wrap2", (a, w))
        self.ctx.case(("w2", repr(a), repr(w)), nontrivial=True)
        ok, r = self.call("wrap2", a, w)
        if ok:
            self._two_sided("wrap2", (a, w), frac(a), 0, w, r, tag)

    def delta(self, d, a, w, tag):
        ctx = self.ctx
        if w == 0:
            return self.zero("delta", (d, a, w))
        ctx.case(("dl", repr(d), repr(a), repr(w)), nontrivial=True)
        ok, r = self.call("delta", d, a, w)
        if not ok:
            return
        diff = frac(d) - frac(a)
        # the implementation wraps float(d - a): tolerate one ulp when that value is not the exact difference
        # (rounded float subtraction, or an int difference too large for a float)
        fv = float(d - a)
        a_tol = Fraction(ulp(fv)) if frac(fv) != diff else 0
        self._two_sided("delta", (d, a, w), diff, a_tol, w, r, tag)
        ok2, r2 = self.call("wrap2", d - a, w)
        if ok2:
            ctx.check(r == r2 or (r != r and r2 != r2), "delta/is-not-wrap2-of-desired-minus-actual/" + tag,
                      "delta(desired, actual, wrap) differs from wrap2(desired - actual, wrap)",
                      lambda: {"desired": repr(d), "actual": repr(a), "wrap": repr(w), "delta": repr(r), "wrap2": repr(r2)})


WRAP_MAGS = [Fraction(x) for x in (1, 2, 3, 5, 7, 12, 90, 180, 360)] + \
            [Fraction(1, 2), Fraction(1, 3), Fraction(2, 3), Fraction(3, 4), Fraction(5, 8), Fraction(7, 5),
             Fraction(22, 7), Fraction(45, 2)]
DENS = (1, 2, 3, 4, 5, 8)


def grid_angles(N):
    seen = set()
    for q in DENS:
        for p in range(-N * q, N * q + 1):
            f = Fraction(p, q)
            if f not in seen:
                seen.add(f)
                yield f


def as_num(f, mode):
    """mode 0: int when integral else Fraction; 1: float; 2: Fraction always"""
    if mode == 1:
        return float(f)
    if mode == 0 and f.denominator == 1:
        return int(f)
    return f


def do_grid(ctx, wraps, N):
    w = W(ctx)
    angles = list(grid_angles(N))
    n = 0
    for wv in wraps:
        wv = Fraction(wv[0], wv[1])
        near = []
        if wv != 0:
            for k in range(-3, 4):
                for e in (Fraction(0), Fraction(1, 8), Fraction(-1, 8), Fraction(1, 3), Fraction(-1, 3)):
                    near.append(k * wv + e)
                    near.append(k * 2 * wv + e)
        for i, a in enumerate(angles + near):
            # wrap1: exact arithmetic on ints / Fractions (mixed types alternate)
            w.wrap1(as_num(a, 0 if i % 2 else 2), as_num(wv, 0 if i % 3 else 2), "exact-grid")
            # wrap2 / delta: ints and floats
            fa, fw = as_num(a, 1 if i % 2 else 0), as_num(wv, 1 if i % 3 else 0)
            if isinstance(fa, Fraction):
                fa = float(fa)
            if isinstance(fw, Fraction):
                fw = float(fw)
            tag = "exact-grid" if is_exact_pair(fa, fw) else "float-grid"
            w.wrap2(fa, fw, tag)
            if is_exact_pair(fa, fw):
                w.wrap1(fa, fw, "exact-grid")
            # delta: split the angle into desired - actual
            act = as_num(Fraction((i * 7) % 41 - 20, 4), 1 if i % 2 else 0)
            if isinstance(act, Fraction):
                act = float(act)
            des = fa + act
            w.delta(des, act, fw, tag if is_exact_pair(des, act, fw) else "float-grid")
            n += 1
    ctx.hit("grid_points", n)


def rand_wrap(rng):
    r = rng.random()
    if r < 0.3:
        w = rng.choice((360.0, 180.0, 360, 180, math.pi, 2 * math.pi, 1.0, 24.0))
    elif r < 0.7:
        w = rng.uniform(0.001, 1000.0)
    elif r < 0.8:
        w = 10.0 ** rng.uniform(-300, -5)
    elif r < 0.9:
        w = 10.0 ** rng.uniform(3, 300)
    else:
        w = float(rng.randint(1, 10 ** 6))
    if rng.random() < 0.3:
        w = -w
    return w


def rand_angle(rng, w):
    r = rng.random()
    aw = abs(float(w))
    if r < 0.15:
        a = 10.0 ** rng.uniform(-320, -9)
        cls = "tiny"
    elif r < 0.4:
        a = rng.uniform(-3.0, 3.0) * aw
        cls = "ordinary"
    elif r < 0.55:
        a = rng.uniform(1.0, 1e6) * aw
        cls = "large"
    elif r < 0.65:
        a = 10.0 ** rng.uniform(16, 300)
        cls = "huge"
    elif r < 0.8:
        a = float(rng.randint(-50, 50)) * float(w)
        cls = "multiple"
    elif r < 0.95:
        a = float(rng.randint(-50, 50)) * float(w) * 0.5
        for _ in range(rng.randint(1, 3)):
            a = math.nextafter(a, rng.choice((-math.inf, math.inf)))
        cls = "near-multiple"
    else:
        a = rng.randint(-2 ** 53, 2 ** 53)
        cls = "bigint"
    if rng.random() < 0.5:
        a = -a
    if isinstance(a, float) and not math.isfinite(a):
        a = 1e300
    return a, cls


def do_random(ctx, n, rng):
    w = W(ctx)
    for i in range(n):
        wv = rand_wrap(rng)
        a, cls = rand_angle(rng, wv)
        ctx.hit("float_" + cls)
        w.wrap1(a, wv, "float")
        w.wrap2(a, wv, "float")
        b, _ = rand_angle(rng, wv)
        if isinstance(a, float) and isinstance(b, float) and not math.isfinite(a - b):
            b = 0.0
        w.delta(a, b, wv, "float")
        if i < 2:
            ctx.sample({"angle": repr(a), "wrap": repr(wv), "class": cls,
                        "wrap1_exact": str(fnref.ref_wrap1(frac(a), frac(wv)))[:40]})
        if i % 50 == 0:
            w.wrap1(a, 0 if i % 100 else 0.0, "float")
            w.wrap2(a, 0 if i % 100 else 0.0, "float")
            w.delta(a, b, 0.0, "float")


def worker(ctx, job):
    if job["kind"] == "grid":
        do_grid(ctx, job["wraps"], job["N"])
    else:
        do_random(ctx, job["n"], ctx.subrng("c43", job["index"]))


def run(ctx):
    ctx.floor("calls_through_older_names", 1000)
    ctx.floor("wrap_given_by_keyword", 1000)
    wraps = [Fraction(0)] + [s * m for m in WRAP_MAGS for s in (1, -1)]
    N = ctx.pick(24, 90)
    wl = [(f.numerator, f.denominator) for f in wraps]
    jobs = [{"kind": "grid", "wraps": ch, "N": N} for ch in fnref.chunks(wl, ctx.pick(12, 16))]
    nrand = ctx.pick(40000, 6000000)
    per = ctx.pick(10000, 50000)
    jobs += [{"kind": "random", "n": per} for _ in range(nrand // per)]
    ctx.shard(jobs, timeout=ctx.pick(90, 1500))
    ctx.exhaustive = True
    ctx.extra["exhaustive_scope"] = "the rational / integer grid named in the rule; floats are sampled"
    ctx.sample({"grid_wraps": [str(f) for f in wraps[:9]], "grid_angle_denominators": list(DENS), "N": N})
    npts = len(list(grid_angles(N)))
    ctx.floor("grid_points", len(wraps) * npts)
    ctx.floor("wrap_zero", npts)
    for f in ("wrap1", "wrap2", "delta"):
        ctx.floor(f + "_moved", (len(wraps) * npts) // 6)
        ctx.floor(f + "_in_place", npts // 4)
    ctx.floor("two_sided_half_turn_point", 50)
    for c in ("tiny", "ordinary", "large", "huge", "multiple", "near-multiple", "bigint"):
        ctx.floor("float_" + c, nrand // 100)
    ctx.floor("distinct_nontrivial", (len(wraps) - 1) * npts * 2)
