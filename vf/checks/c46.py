"""C46 PID controller output and integrator stay within configured limits (engine C).

The real ``ControllerPid`` is built directly on a real ``Store`` (``_initio``
with an ioinits odict, as the builder does) and its real ``action`` runs once
per step after the harness wrote the store stamp and the input / rate / set
point shares.  A *twin* controller with the same parameters and inputs runs
beside it; just before a step whose set point change exceeds ``drsp`` the
twin's error sum is overwritten with a different in-range value.

After every update that computes (time lapse > 0):

  L1  ovmin <= output <= ovmax                 (a NaN output is outside: its own key)
  L2  esmin <= error sum <= esmax
  W   error == two-sided wrap of (input - set point in use): inside [-wrap, wrap] and a whole number of full turns
      away (4 ulp of the turn); with wrap 0 exactly the difference           (finite input / set point only)
  R   set point change > drsp: the new error sum (and output) of controller and twin are identical, i.e. the
      old error sum did not survive
Exceptions raised by ``action`` are counted in the evidence (``exceptions``), not treated as limit violations.
"""
import itertools
import random
import math
from fractions import Fraction

from vf import fnref
from vf.core import exc_key

LEVEL = "exploration"
RULE = ("grid (same for every seed): gpe {0,2,-2} x gie {0,3} x gff {0,1} x output limits {(-1,1),(0.5,2),(-2,-0.5),(0,0)} x "
        "integrator limits {(-1,1),(0.25,4),(-4,-0.25)} x wrap {0,1} x two computing steps with input {-10,0.25,10,inf} and "
        "set point {0,1,nan} each (41 472 sequences); seeded random sequences of 8..40 steps: gains 0 / small / 1e6 / "
        "rarely non-finite, ordered limits (also excluding zero, also equal), wrap 0/180/360/pi/random, drsp 0/0.01/0.5/10, "
        "calcRate on/off, time lapses 0, 1e-6 .. 100 and backwards, inputs / rates / set points finite (ints, floats up to "
        "1e308) and inf / -inf / nan (8%); every sequence also drives a twin controller whose error sum is perturbed "
        "before each set point jump; distinct = distinct (parameters, sequence); non-trivial = at least two computing "
        "updates")
RULE = __import__("vf.core", fromlist=["rule_add"]).rule_add(RULE, 'also controllers built on a partly configured parm share, inputs a few ulp beside the set point under a wrap, sensor dropouts (input None) also at set point jumps')
META = {"engine": "C function",
        "technique": "limit invariants and wrap predicate after every real update + metamorphic twin for the integrator reset",
        "level_text": "exploration: a small parameter/input grid completely, longer sequences sampled",
        "level_note": "limits and wrap are finite, limits ordered, wrap >= 0; the output before the first computing "
                      "update (initialised to 0.0 by the controller) is not judged; exceptions are evidence only"}

INF, NAN = float("inf"), float("nan")


def finite(x):
    return isinstance(x, (int, float)) and not isinstance(x, bool) and math.isfinite(x)


class Pair(object):
    """controller + twin on one store"""

    def __init__(self, rig, parms, preset=()):
        """preset: names of parameters that the application configured in the controller's .parm share before the
        controller was built (a script's `init ... .parm with ovmax 3.0 ...`); the controller is then built with other
        initial values for them, which only fill in what is missing: the configured ones stay in force"""
        self.store = rig.storing.Store(stamp=0.0)
        self.parms = parms
        self.ctl = []
        for who in ("a", "b"):
            given = dict(parms)
            if preset:
                self.store.create(who + ".pid.parm").update(**{k: parms[k] for k in preset})
                for k in preset:
                    given[k] = {"ovmax": 1e6, "ovmin": -1e6, "esmax": 1e6, "esmin": -1e6, "wrap": 0.0, "drsp": 1e9}.get(k, 0.0)
            c = rig.controlling.ControllerPid(name="vfpid" + who, store=self.store)
            c._initio(rig.odict(group=who + ".pid", output=who + ".out", input=who + ".in",
                                rate=who + ".rate", rsp=who + ".rsp", parms=given))
            self.ctl.append(c)

    def reset(self, parms):
        """back to the state right after construction with these parameters (what the shares and the two
        attributes hold then); used to avoid rebuilding store and controllers for every sequence"""
        self.parms = parms
        self.store.stamp = 0.0
        for c in self.ctl:
            c.parm.update(**parms)
            c.stamp = None
            c.lapse = 0.0
            for sh in (c.elapsed, c.prsp, c.e, c.er, c.es, c.output, c.input, c.rate, c.rsp):
                sh.value = 0.0


class Rig(object):
    def __init__(self, ctx):
        from ioflo.base import storing
        from ioflo.aid.odicting import odict
        from ioflo.trim.interior.plain import controlling
        self.ctx = ctx
        self.storing = storing
        self.odict = odict
        self.controlling = controlling
        self.exceptions = {}
        self.pair = None
        self.nseq = 0

    def sequence(self, parms, steps, tag, key=None):
        """steps: list of (stamp, input, rate, rsp)"""
        ctx = self.ctx
        p = parms
        desc = {"parms": {k: repr(v) for k, v in parms.items()},
                "steps": [[repr(x) for x in s] for s in steps]}
        try:
            self.nseq += 1
            if self.pair is None or self.nseq % 50 == 0:
                preset = ()
                if (self.nseq // 50) % 2 == 1:
                    preset = [("ovmax", "ovmin", "esmax", "esmin"), ("ovmax", "ovmin"), ("esmax", "esmin", "wrap", "drsp"),
                              ("wrap",)][(self.nseq // 100) % 4]
                    ctx.hit("controllers_built_on_a_partly_configured_parm_share")
                self.pair = Pair(self, parms, preset=preset)          # real construction path (_initio with parms)
                ctx.hit("controllers_built")
            else:
                self.pair.reset(parms)
            pair = self.pair
        except Exception as e:
            ctx.fail("ControllerPid/construction-raises/" + exc_key(e), "building the controller raises %r" % (e,), desc)
            return
        a, b = pair.ctl
        computed = 0
        last_stamp = None
        pending_jump = False         # a set point jump was seen by an update that then failed (dropout): judged at the next one
        for i, (stamp, inp, rate, rsp) in enumerate(steps):
            if self.nseq % 8 == 0:
                pair.store.changeStamp(stamp)
            else:
                pair.store.stamp = stamp               # what changeStamp does, minus the wall-clock shares
            lapse = max(0.0, stamp - last_stamp) if last_stamp is not None else 0.0
            last_stamp = stamp
            for c in (a, b):
                c.input.value = inp
                c.rate.value = rate
                c.rsp.value = rsp
            prsp = a.prsp.value
            try:
                jump = abs(rsp - prsp) > p["drsp"]
            except Exception:
                jump = False
            will_compute = lapse > 0.0
            if will_compute and jump:
                # perturb the twin's integrator: a value inside the limits but different from a's
                alt = p["esmax"] if a.es.value != p["esmax"] else p["esmin"]
                if alt != a.es.value:
                    b.es.value = alt
                    ctx.hit("twin_perturbed")
            errs = []
            for c in (a, b):
                try:
                    c.action()
                    errs.append(None)
                except Exception as e:
                    errs.append(e)
                    k = exc_key(e)
                    self.exceptions[k] = self.exceptions.get(k, 0) + 1
            if errs[0] is not None or errs[1] is not None:
                ctx.hit("action_raised")
                if inp is None and errs[0] is not None and errs[1] is not None:
                    # a sensor dropout: the update fails (no input to compute with) and the controller is evaluated again at the
                    # next step; a set point change seen by the failed update has still reset the integrator (the twin shows)
                    ctx.hit("dropout_update_failed_and_sequence_went_on")
                    if will_compute and jump:
                        ctx.hit("dropout_at_a_set_point_jump")
                        pending_jump = True
                    continue
                break
            ctx.event()
            if not will_compute:
                ctx.hit("no_lapse_update")
                continue
            computed += 1
            ctx.hit("computing_update")
            nonfinite_in = not (finite(inp) and finite(rate) and finite(rsp))
            if nonfinite_in:
                ctx.hit("computing_update_nonfinite_input")
            out, es, e = a.output.value, a.es.value, a.e.value

            def wit(**more):
                d = dict(desc, failed_at_step=i, output=repr(out), error_sum=repr(es), error=repr(e), lapse=lapse)
                d["steps"] = d["steps"][:i + 1]
                d.update(more)
                return d
            # L1
            if isinstance(out, float) and out != out:
                ctx.fail("ControllerPid/output-is-nan", "controller output is NaN, outside its output limits", wit)
            else:
                ctx.check(p["ovmin"] <= out <= p["ovmax"], "ControllerPid/output-outside-output-limits/" +
                          ("non-finite-input" if nonfinite_in else "finite-input"),
                          "controller output outside [ovmin, ovmax]", wit)
            # L2
            if isinstance(es, float) and es != es:
                ctx.fail("ControllerPid/error-sum-is-nan", "error sum is NaN, outside its integrator limits", wit)
            else:
                ctx.check(p["esmin"] <= es <= p["esmax"], "ControllerPid/error-sum-outside-integrator-limits/" +
                          ("non-finite-input" if nonfinite_in else "finite-input"),
                          "error sum outside [esmin, esmax]", wit)
            # W
            used = rsp if jump else prsp
            if finite(inp) and finite(used) and finite(inp - used):
                d = inp - used
                if p["wrap"] == 0:
                    ctx.check(e == d, "ControllerPid/error-not-input-minus-setpoint-without-wrap",
                              "error is not input - set point although wrap is 0", lambda: wit(want=repr(d)))
                else:
                    ok_range = finite(e) and fnref.in_wrap2_range(e, p["wrap"])
                    ctx.check(ok_range, "ControllerPid/error-outside-wrap-range", "error outside [-wrap, wrap]",
                              lambda: wit(difference=repr(d)))
                    if ok_range:
                        k, res = fnref.whole_turns(e, d, 2 * Fraction(p["wrap"]))
                        tol = 4 * Fraction(fnref.ulp(2.0 * p["wrap"])) + (Fraction(fnref.ulp(float(d))) if float(d) != d or abs(d) > 2 ** 53 else 0)
                        ctx.check(abs(res) <= tol, "ControllerPid/error-not-whole-turns-from-difference",
                                  "error does not differ from input - set point by a whole number of full turns",
                                  lambda: wit(difference=repr(d), turns=int(k), residual=float(res)))
                        ctx.hit("error_wrapped" if k != 0 else "error_in_range_already")
                        if d != 0 and abs(d) < 1e-9 * p["wrap"]:
                            ctx.hit("tiny_difference_with_wrap")
            else:
                ctx.hit("error_check_skipped_nonfinite")
            # R
            if jump or pending_jump:
                judged_late = pending_jump and not jump
                if judged_late:
                    ctx.hit("setpoint_jump_judged_after_a_failed_update")
                pending_jump = False
                ctx.hit("setpoint_jump")
                bes, bout = b.es.value, b.output.value
                same = (bes == es or (bes != bes and es != es)) and (bout == out or (bout != bout and out != out))
                ctx.check(same, "ControllerPid/integrator-not-reset-on-setpoint-change",
                          "after a set point change larger than drsp the new error sum / output still depend on the old error sum",
                          lambda: wit(twin_error_sum=repr(bes), twin_output=repr(bout)))
                ctx.check(judged_late or a.prsp.value == rsp or (rsp != rsp), "ControllerPid/prior-setpoint-not-updated",
                          "prior set point share not updated on a set point change", wit)
            else:
                # keep the twin identical when no jump happened (it was not perturbed)
                pass
        ctx.case(key if key is not None else desc, nontrivial=computed >= 2)


def gen_parms(rng):
    def gain():
        r = rng.random()
        if r < 0.3:
            return 0.0
        if r < 0.8:
            return rng.uniform(-10, 10)
        if r < 0.96:
            return rng.choice((-1, 1)) * 10.0 ** rng.uniform(2, 8)
        return rng.choice((INF, -INF, NAN))

    def limits():
        r = rng.random()
        lo = rng.uniform(-100, 100)
        if r < 0.15:
            return lo, lo                              # equal
        if r < 0.45:
            a, b = sorted((rng.uniform(0.5, 50), rng.uniform(0.5, 50)))
            return (a, b) if rng.random() < 0.5 else (-b, -a)     # excluding zero
        if r < 0.55:
            return 0.0, 0.0
        a = rng.uniform(0, 100)
        return -a, rng.uniform(0, 100)
    esmin, esmax = limits()
    ovmin, ovmax = limits()
    return dict(wrap=rng.choice((0.0, 0.0, 180.0, 360.0, math.pi, 1.0, rng.uniform(0.01, 500))),
                drsp=rng.choice((0.01, 0.01, 0.0, 0.5, 10.0)), calcRate=rng.random() < 0.6,
                ger=rng.uniform(-2, 2), gff=gain(), gpe=gain(), gde=gain(), gie=gain(),
                esmax=esmax, esmin=esmin, ovmax=ovmax, ovmin=ovmin)


def gen_value(rng, around=0.0):
    r = rng.random()
    if r < 0.08:
        return rng.choice((INF, -INF, NAN))
    if r < 0.5:
        return around + rng.uniform(-5, 5)
    if r < 0.7:
        return rng.uniform(-1000, 1000)
    if r < 0.8:
        return rng.randint(-400, 400)
    if r < 0.9:
        return rng.choice((-1, 1)) * 10.0 ** rng.uniform(5, 308)
    return around


def gen_steps(rng, n):
    t = rng.choice((0.0, 5.0))
    steps = []
    rsp = rng.uniform(-100, 100)
    inp = rsp
    for _ in range(n):
        r = rng.random()
        if r < 0.1:
            dt = 0.0
        elif r < 0.15:
            dt = -rng.choice((0.125, 1.0))
        else:
            dt = rng.choice((1e-6, 0.0625, 0.125, 0.125, 0.5, 1.0, 1.0, 100.0))
        t = max(0.0, t + dt)
        if rng.random() < 0.3:
            rsp = gen_value(rng, rsp if finite(rsp) else 0.0)
        elif rng.random() < 0.2 and finite(rsp):
            rsp = rsp + rng.choice((0.001, -0.001, 0.01, 0.02))      # around the drsp threshold
        inp = gen_value(rng, inp if finite(inp) else 0.0)
        steps.append((t, inp, gen_value(rng), rsp))
    # sensor dropouts: the input share holds None for one step (often the step that brings a new set point)
    r3 = random.Random(repr(("dropout", steps[:2])))
    for j in range(1, len(steps)):
        t, inp, rate, rsp = steps[j]
        if r3.random() < (0.12 if rsp != steps[j - 1][3] else 0.01):
            steps[j] = (t, None, rate, rsp)
    # inputs a few units in the last place beside the set point (a plant that has just about arrived): the difference is
    # tiny and of either sign, and its shortest wrapped form is that tiny difference, not half a turn
    r2 = random.Random(repr(steps[:2]))
    for j, (t, inp, rate, rsp) in enumerate(steps):
        if inp is not None and finite(rsp) and r2.random() < 0.12:
            x = rsp
            for _ in range(r2.randint(1, 3)):
                x = math.nextafter(x, r2.choice((-INF, INF)))
            steps[j] = (t, x, rate, rsp)
    return steps


def do_grid(ctx, rig, part, parts):
    ins = (-10, 0.25, 10, INF)
    rsps = (0, 1, NAN)
    k = 0
    cnt = 0
    for gpe, gie, gff, ov, es, wrap in itertools.product((0.0, 2.0, -2.0), (0.0, 3.0), (0.0, 1.0),
                                                         ((-1.0, 1.0), (0.5, 2.0), (-2.0, -0.5), (0.0, 0.0)),
                                                         ((-1.0, 1.0), (0.25, 4.0), (-4.0, -0.25)), (0.0, 1.0)):
        k += 1
        if k % parts != part:
            continue
        parms = dict(wrap=wrap, drsp=0.01, calcRate=True, ger=1.0, gff=gff, gpe=gpe, gde=0.0, gie=gie,
                     esmax=es[1], esmin=es[0], ovmax=ov[1], ovmin=ov[0])
        for i1, r1, i2, r2 in itertools.product(ins, rsps, ins, rsps):
            steps = [(0.0, 0, 0, 0), (0.5, i1, 0.0, r1), (1.0, i2, 0.0, r2)]
            rig.sequence(parms, steps, "grid", key=("grid", k, repr(i1), repr(r1), repr(i2), repr(r2)))
            cnt += 1
    ctx.hit("grid_sequences", cnt)


def worker(ctx, job):
    rig = Rig(ctx)
    if job["kind"] == "grid":
        do_grid(ctx, rig, job["part"], job["parts"])
    else:
        rng = ctx.subrng("c46", job["index"])
        for i in range(job["count"]):
            parms = gen_parms(rng)
            steps = gen_steps(rng, rng.randint(8, 40))
            rig.sequence(parms, steps, "random")
            ctx.hit("random_sequences")
            if i == 0 and job["index"] % 5 == 0:
                ctx.sample({"parms": {k: repr(v) for k, v in parms.items()}, "first_steps": [[repr(x) for x in s] for s in steps[:4]]})
    ctx.extra["exceptions"] = dict(rig.exceptions)


def run(ctx):
    ctx.floor("controllers_built_on_a_partly_configured_parm_share", ctx.pick(100, 2000))
    parts = ctx.pick(8, 16)
    jobs = [{"kind": "grid", "part": p, "parts": parts} for p in range(parts)]
    n = ctx.pick(6000, 800000)
    per = ctx.pick(750, 5000)
    jobs += [{"kind": "random", "count": per} for _ in range(n // per)]
    ctx.shard(jobs, timeout=ctx.pick(90, 1500))
    ctx.exhaustive = True
    ctx.extra["exhaustive_scope"] = "the parameter / two-step input grid named in the rule"
    ctx.extra.setdefault("exceptions", {})
    ctx.floor("grid_sequences", 41472)
    ctx.floor("controllers_built", (41472 + n) // 100)
    ctx.floor("random_sequences", n // 2)
    ctx.floor("computing_update", 41472 + n * 5)
    ctx.floor("computing_update_nonfinite_input", n // 2)
    ctx.floor("setpoint_jump", n)
    ctx.floor("twin_perturbed", n // 2)
    ctx.floor("error_wrapped", n // 4)
    ctx.floor("tiny_difference_with_wrap", n // 8)
    ctx.floor("dropout_at_a_set_point_jump", n // 20)
    ctx.floor("no_lapse_update", n // 2)
