"""C34 HTTP redirects are followed safely to the final response (engines D+E).

Real ``Valet`` servers on ephemeral loopback ports (two plain, and for the
scheme cases two TLS ones using the certificates shipped with the repo) serve
a generated redirect table: a chain of <= 4 redirects (301/302/303/307, also
300 and 308) whose ``Location`` is written in a generated form (absolute URL,
absolute path, relative path with dot segments, query only, network-path
reference), with unicode / percent-encoded paths, query strings, other ports
and other schemes.  A real redirectable ``Patron`` issues the first request.

Oracle: the servers saw exactly the requests of the chain, in order, each at
the resolved location (resolution by urllib.parse.urljoin, not ioflo); one
final response arrives (status 200, the chain's own body) carrying the
redirect responses in order; after an https hop no request ever reaches a
plain-http server (refusing by raising or by delivering the 3xx is accepted).
"""
from vf import net
import os
import ssl
import time
from urllib.parse import urljoin, quote, parse_qsl, urlsplit

from vf import httpgen as hg
from vf.core import exc_key, REPO

LEVEL = "exploration"
RULE = ("chain = start (server, path, query) + 1..4 hops; hop = status (301|302|303|307|300|308) x target (same server | "
        "other port | other scheme) x Location form (absolute | absolute-path | relative-path with ./.. | query-only | "
        "network-path) x path (ascii, unicode, blank, percent) x query (0-2 args with encoded & + blank); method GET "
        "(sometimes OPTIONS/DELETE); distinct = distinct (start, hop list); non-trivial = at least one redirect was "
        "received by the client (redirect response recorded or second request seen)")
RULE = __import__("vf.core", fromlist=["rule_add"]).rule_add(RULE, 'also an https session on a connector the application supplies (no scheme named), and redirects between two hosts that listen on the SAME port number, Locations without a port (judged by where the reissued request is aimed) or without a path, HEAD requests')
META = {"engine": "D+E io/http", "technique": "history of requests seen by real servers vs independently resolved chain",
        "level_text": "exploration: sampled chains; every Location form, status and server transition floor-counted",
        "level_note": "real loopback sockets only (Patron.redirect builds its own connector); TLS trust for the "
                      "http->https case is provided by the harness wrapping ssl.create_default_context; an exchange that "
                      "makes no progress without any wrong request having been seen is inconclusive, not a verdict"}

CERTS = os.path.join(REPO, "ioflo", "aio", "test", "tls", "certs")
FORMS_SAME = ("abs", "abspath", "relpath", "relpath", "queryonly", "netpath", "abspath")
FORMS_OTHER = ("abs", "abs", "netpath")
STATUSES = (301, 302, 303, 307, 301, 302, 303, 307, 300, 308)
REASON = {300: "Multiple Choices", 301: "Moved Permanently", 302: "Found", 303: "See Other", 307: "Temporary Redirect",
          308: "Permanent Redirect"}
SEGS = ["a", "b", "c", "dir", "x1", "é", "日本", "a b", "p+q", "r,s", "(t)", "~u", "v.w", "100%"]


def jsonable(o):
    if isinstance(o, (bytes, bytearray)):
        return bytes(o).decode("latin-1")
    if isinstance(o, dict):
        return {str(k): jsonable(v) for k, v in o.items()}
    if isinstance(o, (list, tuple)):
        return [jsonable(v) for v in o]
    if isinstance(o, (str, int, float, bool)) or o is None:
        return o
    return repr(o)


class World(object):
    """Servers shared by the cases of one worker."""

    def __init__(self):
        from ioflo.base import storing
        self.store = storing.Store(stamp=0.0)
        self.servers = {}
        self.table = {}
        self.seen = []
        self._patched = False

    def app_for(self, name):
        def app(environ, start_response):
            path = environ.get("PATH_INFO")
            query = environ.get("QUERY_STRING", "")
            self.seen.append({"server": name, "method": environ.get("REQUEST_METHOD"), "path": path, "query": query,
                              "id": environ.get("HTTP_X_VF_ID"), "host": environ.get("HTTP_HOST")})
            ent = self.table.get((name, path, tuple(parse_qsl(query, keep_blank_values=True))))
            if ent is None:
                body = b"unexpected request"
                start_response("404 Not Found", [("Content-Type", "text/plain"), ("Content-Length", str(len(body)))])
                return [body]
            if ent["kind"] == "redirect":
                body = b"moved: hop %d" % ent["hop"]
                start_response("%d %s" % (ent["status"], REASON[ent["status"]]),
                               [("Location", ent["location"]), ("Content-Type", "text/plain"),
                                ("Content-Length", str(len(body))), ("X-Hop", str(ent["hop"]))])
                if environ.get("REQUEST_METHOD") == "HEAD":
                    return []
                return [body]
            body = ent["body"]
            start_response("200 OK", [("Content-Type", "text/plain"), ("Content-Length", str(len(body)))])
            if environ.get("REQUEST_METHOD") == "HEAD":
                return []           # the length of the entity is declared, no body is sent
            return [body]
        return app

    def server(self, name):
        if name in self.servers:
            return self.servers[name]
        from ioflo.aio.http import serving
        from ioflo.aio.tcp import ServerTls
        import socket
        host = None
        if name in ("A", "B"):
            srv = hg.loop_server(self.store, timeout=60.0)
            scheme = "http"
        elif name == "C":
            # another host that listens on the SAME port number as A (in real life: host1:80 -> host2:80)
            from ioflo.aio.tcp import Server
            host = net.host_alt()
            if host is None:
                raise RuntimeError("no second loopback address")
            srv = Server(ha=(host, self.server("A")["port"]), store=self.store, timeout=60.0)
            if not srv.reopen():
                raise RuntimeError("cannot open the second host's server on the first host's port")
            srv.eha = srv.ha
            srv.ss.setsockopt(socket.IPPROTO_TCP, socket.TCP_NODELAY, 1)
            scheme = "http"
        else:
            # the test certificates are for localhost, so this one stays on 127.0.0.1, on a port below the ephemeral range
            for port in net.listen_ports():
                srv = ServerTls(ha=("127.0.0.1", port), store=self.store, timeout=60.0, certify=ssl.CERT_NONE,
                                keypath=os.path.join(CERTS, "server_key.pem"), certpath=os.path.join(CERTS, "server_cert.pem"))
                if srv.reopen():
                    break
            else:
                raise RuntimeError("cannot open TLS loopback server")
            srv.eha = srv.ha
            srv.ss.setsockopt(socket.IPPROTO_TCP, socket.TCP_NODELAY, 1)
            scheme = "https"
        valet = serving.Valet(servant=srv, app=self.app_for(name), store=self.store)
        self.servers[name] = {"valet": valet, "port": srv.ha[1], "scheme": scheme,
                              "host": "localhost" if scheme == "https" else (host or net.host())}
        return self.servers[name]

    def trust_test_ca(self):
        """The harness plays the role of a system trust store that knows the
        repo's test CA (needed only when ioflo itself must build a TLS context,
        i.e. the http -> https redirect)."""
        if self._patched:
            return
        orig = ssl.create_default_context

        def create_default_context(purpose=ssl.Purpose.SERVER_AUTH, **kw):
            ctx = orig(purpose, **kw)
            if purpose == ssl.Purpose.SERVER_AUTH:
                ctx.load_verify_locations(cafile=os.path.join(CERTS, "server.pem"))
            return ctx
        ssl.create_default_context = create_default_context
        self._patched = True

    def close(self):
        for s in self.servers.values():
            try:
                s["valet"].close()
                s["valet"].servant.closeAll()
            except Exception:      # noqa
                pass


def gen_path(rng):
    segs = [rng.choice(SEGS) for _ in range(rng.randint(1, 3))]
    return "/" + "/".join(segs) + ("/" if rng.random() < 0.2 else "")


def gen_query(rng):
    out = []
    for i in range(rng.choice([0, 0, 1, 2])):
        out.append(("q%d" % i, rng.choice(["1", "v", "a b", "x&y", "p+q", "é", "", "k=v"])))
    return out


def enc_query(q):
    return "&".join("%s=%s" % (k, quote(v, safe="").replace("%20", "+") if " " in v and len(v) % 2 else quote(v, safe="")) for k, v in q)


def gen_chain(rng, world, tls, other="B"):
    """Returns (start, hops, final body, table) -- ground truth first, Location text derived from it.
    other: the second plain server, "B" (own port) or "C" (another host on A's port number)"""
    names = ["A", other] + (["S", "T"] if tls else [])
    cur = rng.choice(["S", "T"] if tls and rng.random() < 0.6 else ["A", other])
    path, query = gen_path(rng), gen_query(rng)
    start = {"server": cur, "path": path, "query": query}
    hops = []
    nh = rng.choice([1, 1, 2, 2, 3, 4])
    used = {(cur, path, tuple(query))}
    for h in range(nh):
        src = world.server(cur)
        r = rng.random()
        if r < 0.55:
            nxt = cur
        else:
            nxt = rng.choice([n for n in names if n != cur])
        dst = world.server(nxt)
        form = rng.choice(FORMS_SAME if nxt == cur else FORMS_OTHER)
        if form == "netpath" and dst["scheme"] != src["scheme"]:
            form = "abs"
        for _ in range(20):
            npath, nquery = gen_path(rng), gen_query(rng)
            base = "%s://%s:%d%s" % (src["scheme"], src["host"], src["port"], quote(path))
            if form == "relpath":
                ref = rng.choice(["", "./", "../", "../../"]) + quote(npath.strip("/")) + ("/" if npath.endswith("/") else "")
                ref = ref or "."
                loc = ref + ("?" + enc_query(nquery) if nquery else "")
                npath = _unq(urlsplit(urljoin(base, ref)).path)
            elif form == "queryonly":
                nquery = nquery or [("only", "1")]
                loc = "?" + enc_query(nquery)
                npath = path
            elif form == "abspath":
                loc = quote(npath) + ("?" + enc_query(nquery) if nquery else "")
            elif form == "netpath":
                loc = "//%s:%d%s" % (dst["host"], dst["port"], quote(npath)) + ("?" + enc_query(nquery) if nquery else "")
            else:
                loc = "%s://%s:%d%s" % (dst["scheme"], dst["host"], dst["port"], quote(npath)) + \
                      ("?" + enc_query(nquery) if nquery else "")
            if (nxt, npath, tuple(nquery)) not in used:
                break
        used.add((nxt, npath, tuple(nquery)))
        hops.append({"from": cur, "to": nxt, "status": rng.choice(STATUSES), "form": form, "location": loc,
                     "path": npath, "query": nquery,
                     "transition": "same" if nxt == cur else "%s->%s" % (src["scheme"], dst["scheme"])})
        cur, path, query = nxt, npath, nquery
    # an absolute Location that names no path at all (`http://host:port`, `http://host:port?q=1`): the resolved location is
    # the root `/` of that server.  Only the last hop is rewritten (no later Location is resolved against its path).
    import random as _random
    last = hops[-1]
    if last["form"] == "abs" and _random.Random(repr(("nopath", last["location"]))).random() < 0.3 and \
            (last["to"], "/", tuple(last["query"])) not in used:
        dst = world.server(last["to"])
        last["location"] = "%s://%s:%d" % (dst["scheme"], dst["host"], dst["port"]) + \
                           ("?" + enc_query(last["query"]) if last["query"] else "")
        last["path"] = "/"
        last["form"] = "abs-nopath"
    return start, hops


def _unq(p):
    from urllib.parse import unquote
    return unquote(p)


def one_case(ctx, world, rng, idx, deadline):
    from ioflo.aio.http import clienting
    import socket
    tls = (idx % 6 == 5)
    tag = "c%d-%d" % (ctx.job["index"] if ctx.job else 0, idx)
    other = "B"
    if idx % 3 == 1:
        try:
            world.server("C")
            other = "C"
        except (RuntimeError, OSError):
            ctx.hit("second_host_on_the_same_port_unavailable")
    start, hops = gen_chain(rng, world, tls, other)
    if any({h["from"], h["to"]} == {"A", "C"} for h in hops):
        ctx.hit("redirects_between_hosts_on_the_same_port")
    final_body = ("final %s" % tag).encode()
    world.table.clear()
    del world.seen[:]
    prev = start
    for i, h in enumerate(hops):
        world.table[(prev["server"] if i == 0 else hops[i - 1]["to"], prev["path"], tuple(prev["query"]))] = \
            {"kind": "redirect", "status": h["status"], "location": h["location"], "hop": i}
        prev = h
    last = hops[-1]
    world.table[(last["to"], last["path"], tuple(last["query"]))] = {"kind": "final", "body": final_body}
    method = rng.choice(["GET", "GET", "GET", "OPTIONS", "DELETE"])
    import random as _random
    if _random.Random(repr((tag, "head"))).random() < 0.12 and not tls:
        # a HEAD request: every response on the way declares the length of its entity and carries no body
        method = "HEAD"
        ctx.hit("head_requests")
    s0 = world.server(start["server"])
    if any(h["transition"] == "http->https" for h in hops):
        world.trust_test_ca()
    downgrade_at = next((i for i, h in enumerate(hops) if h["transition"] == "https->http"), None)
    has308 = next((i for i, h in enumerate(hops) if h["status"] == 308), None)
    wit = lambda extra=None: jsonable(dict({"start": start, "hops": hops, "method": method,
                                            "ports": {n: s["port"] for n, s in world.servers.items()},
                                            "seen": list(world.seen)}, **(extra or {})))
    kw = {}
    if s0["scheme"] == "https":
        kw = dict(scheme="https", certedhost="localhost", cafilepath=os.path.join(CERTS, "server.pem"))
    url = "%s://%s:%d%s" % (s0["scheme"], s0["host"], s0["port"], start["path"])   # Patron takes the unquoted path
    import random as _random
    r2 = _random.Random(repr((tag, "connector")))
    if s0["scheme"] == "https" and r2.random() < 0.5:
        # the application hands the Patron its own TLS connector and names no scheme: the session is an https session
        from ioflo.aio.tcp import clienting as tclienting
        conn = tclienting.ClientTls(store=world.store, host=s0["host"], port=s0["port"], certedhost="localhost",
                                    cafilepath=os.path.join(CERTS, "server.pem"))
        patron = clienting.Patron(store=world.store, connector=conn, path=start["path"], qargs=_od(start["query"]), method=method,
                                  headers=_od([("X-Vf-Id", tag)]))
        ctx.hit("https_sessions_on_a_supplied_connector")
        if downgrade_at is not None:
            ctx.hit("downgrade_cases_on_a_supplied_connector")
    else:
        patron = clienting.Patron(store=world.store, path=url, qargs=_od(start["query"]), method=method,
                                  headers=_od([("X-Vf-Id", tag)]), **kw)
    patron.connector.reopen()
    patron.connector.cs.setsockopt(socket.IPPROTO_TCP, socket.TCP_NODELAY, 1)
    patron.transmit()
    escaped = None
    rounds = 0
    t0 = time.time()
    expected_requests = len(hops) + 1 if downgrade_at is None else downgrade_at + 1
    try:
        while rounds < 3000:
            rounds += 1
            try:
                patron.serviceAll()
            except Exception as ex:
                escaped = (exc_key(ex), "%s: %s" % (type(ex).__name__, str(ex)[:140]))
                break
            for s in world.servers.values():
                s["valet"].serviceAll()
            world.store.advanceStamp(0.001)
            if patron.responses:
                break
            if rounds > 40:
                time.sleep(0.0005)
            if time.time() - t0 > 3.0 or time.time() > deadline:
                break
            if method == "HEAD" and rounds >= 400:
                break
        ctx.event(rounds)
        seen = list(world.seen)
        resp = patron.responses[0] if patron.responses else None
        if method == "HEAD" and resp is None and not escaped:
            # no wall-clock verdict: the servers have nothing left to send and the client has read all there is -- the last
            # response is complete on the wire (a head that declares a length, no body) and was neither followed nor delivered
            for _ in range(5):
                for sv in world.servers.values():
                    sv["valet"].serviceAll()
                time.sleep(0.002)
                try:
                    patron.serviceAll()
                except Exception:     # noqa
                    pass
            pending = any(ix.txes for sv in world.servers.values() for ix in sv["valet"].servant.ixes.values())
            if not pending and not patron.connector.rxbs and not patron.responses and patron.respondent.status is not None:
                ctx.fail("redirect/head-request/response-complete-on-the-wire-never-%s" % (
                             "followed" if 300 <= patron.respondent.status < 400 else "delivered"),
                         "HEAD %s: after %d service rounds the client has read the complete response %s (declared length %s, no "
                         "body) and neither follows nor delivers it; it parses it as the response to a %s request" % (
                             start["path"], rounds, patron.respondent.status, patron.respondent.length, patron.respondent.method),
                         lambda: wit({"rounds": rounds, "respondent_method": patron.respondent.method,
                                      "requester_method": patron.requester.method}))
                ctx.case((start, hops, method), nontrivial=True)
                return
        w2 = lambda extra=None: wit(dict({"escaped": escaped, "rounds": rounds,
                                          "final": None if resp is None else {"status": resp["status"], "body": bytes(resp["body"]),
                                                                             "redirects": [{"status": r["status"], "location": r["headers"].get("location")}
                                                                                           for r in resp.get("redirects", [])]}},
                                         **(extra or {})))
        # ---- which hop does the first divergence belong to (for a narrow key)
        want = [{"server": start["server"], "path": start["path"], "query": start["query"]}] + \
               [{"server": h["to"], "path": h["path"], "query": h["query"]} for h in hops]
        want = want[:expected_requests]

        def hopkey(i):
            if i <= 0 or i > len(hops):
                return "start"
            h = hops[i - 1]
            if h["status"] == 308:
                return "status-%d" % h["status"]
            return "%s/%s" % (h["form"], h["transition"])

        div = None
        for i in range(max(len(seen), len(want))):
            if i >= len(seen) or i >= len(want):
                div = i
                break
            s, w = seen[i], want[i]
            if (s["server"], s["path"], parse_qsl(s["query"], keep_blank_values=True)) != (w["server"], w["path"], [tuple(q) for q in w["query"]]) \
                    or s["method"] != method or s["id"] != tag:
                div = i
                break
        cls = hopkey(div) if div is not None else None
        # refusing a downgrade by raising is accepted behaviour (the statement only forbids following it)
        refused = bool(escaped and downgrade_at is not None and len(seen) == downgrade_at + 1
                       and "ValueError" in escaped[0] and "non secure" in escaped[1])
        if refused:
            ctx.hit("downgrade_refused_by_exception")
        ctx.check(not escaped or refused, "redirect/exception/%s/%s" % (escaped[0] if escaped else "", hopkey(len(seen))),
                  "%s escapes Patron.serviceAll while following redirect %d (%s)" % (
                      escaped[1] if escaped else "", len(seen), hopkey(len(seen))), w2)
        too_many = len(seen) > len(want)
        wrong = div is not None and div < len(seen)
        if downgrade_at is not None:
            leaked = [s for s in seen[downgrade_at + 1:] if world.servers[s["server"]]["scheme"] == "http"]
            ctx.check(not leaked, "redirect/downgrade-https-to-http", "a request reached a plain http server after an https hop", w2)
            ctx.hit("downgrade_cases")
        if wrong or too_many:
            ctx.fail("redirect/wrong-request/%s" % cls,
                     "request %d seen by the servers is not the resolved location of the chain (%s)" % (div, cls), w2)
        elif div is not None and not escaped:
            # fewer requests than the chain has: no progress.  Only a verdict when the client holds a final answer.
            if resp is not None:
                ctx.fail("redirect/stopped-early/%s" % cls,
                         "client delivered a final response after %d of %d requests (%s)" % (len(seen), len(want), cls), w2)
            else:
                ctx.inconclusive_case("no progress after %d of %d requests within %d rounds / 3 s (wall-clock watchdog)" % (
                    len(seen), len(want), rounds))
                return
        else:
            ctx.check(True, "redirect/requests-seen", "")
        if div is None and not escaped and downgrade_at is None:
            ok = resp is not None and resp["status"] == 200 and bytes(resp["body"]) == (final_body if method != "HEAD" else b"") \
                and not resp["errored"]
            ctx.check(ok, "redirect/final-response", "final response is not the chain's 200 with its body", w2)
            ctx.check(len(patron.responses) == 1, "redirect/one-final-response", "more than one response delivered", w2)
            reds = resp.get("redirects", []) if resp else []
            got = [(r["status"], r["headers"].get("location")) for r in reds]
            exp = [(h["status"], h["location"]) for h in hops]
            ctx.check(got == exp, "redirect/chain-carried-in-order", "final response does not carry the redirect responses in order",
                      lambda: w2({"carried": got, "expected": exp}))
            gotb = [bytes(r["body"]) for r in reds]
            ctx.check(got != exp or gotb == [(b"moved: hop %d" % k) if method != "HEAD" else b"" for k in range(len(hops))],
                      "redirect/chain-response-bodies",
                      "the redirect responses carried by the final response do not have the bodies the servers sent",
                      lambda: w2({"carried_bodies": [b.decode("latin-1") for b in gotb]}))
            ctx.hit("completed_chains")
            ctx.hit("chain_len:%d" % len(hops))
            # the same Patron is used again: a second request walks the same chain (only when the chain ends on the
            # start server, the host the Patron is still connected to); it must again be followed to the end and its
            # final response must carry exactly its own redirect responses
            if ok and all(h["to"] == start["server"] for h in hops) and len(patron.responses) == 1:
                tag2 = tag + "-again"
                del world.seen[:]
                if rng.random() < 0.5:       # both public ways to start an exchange: the request queue, or transmit() directly
                    patron.request(method=method, path=start["path"], qargs=_od(start["query"]), headers=_od([("X-Vf-Id", tag2)]))
                    ctx.hit("second_exchange_by_request")
                else:
                    patron.transmit(method=method, path=start["path"], qargs=_od(start["query"]), headers=_od([("X-Vf-Id", tag2)]))
                    ctx.hit("second_exchange_by_transmit")
                r2 = 0
                t1 = time.time()
                while r2 < 3000 and len(patron.responses) < 2:
                    r2 += 1
                    try:
                        patron.serviceAll()
                    except Exception as ex:
                        escaped = (exc_key(ex), "%s: %s" % (type(ex).__name__, str(ex)[:140]))
                        break
                    for sv in world.servers.values():
                        sv["valet"].serviceAll()
                    world.store.advanceStamp(0.001)
                    if r2 > 40:
                        time.sleep(0.0005)
                    if time.time() - t1 > 3.0 or time.time() > deadline:
                        break
                seen2 = list(world.seen)
                w3 = lambda extra=None: w2(dict({"second_request_seen": seen2, "responses": len(patron.responses)}, **(extra or {})))
                ctx.hit("second_chain_on_same_patron")
                ctx.check(not escaped, "redirect/second-request/exception/%s" % (escaped[0] if escaped else ""),
                          "%s escapes Patron.serviceAll while following the redirects of a second request" % (escaped[1] if escaped else ""), w3)
                if not escaped:
                    got2 = [(x["server"], x["path"], parse_qsl(x["query"], keep_blank_values=True)) for x in seen2]
                    exp2 = [(w["server"], w["path"], [tuple(q) for q in w["query"]]) for w in want]
                    if len(patron.responses) < 2 and got2 == exp2[:len(got2)] and len(got2) < len(exp2) and time.time() - t1 > 3.0:
                        # progress stopped without a wrong request: only a verdict when the redirect was received and not followed
                        pass
                    ctx.check(got2 == exp2, "redirect/second-request/not-followed-to-the-end",
                              "the second request on the same Patron was seen as %d of %d requests of its chain" % (len(got2), len(exp2)), w3)
                    if len(patron.responses) == 2:
                        rs = patron.responses[1]
                        got = [(r["status"], r["headers"].get("location")) for r in rs.get("redirects", [])]
                        ctx.check(rs["status"] == 200 and bytes(rs["body"]) == (final_body if method != "HEAD" else b"") and got == exp,
                                  "redirect/second-request/final-response-or-chain",
                                  "the second final response is not the chain's 200 carrying exactly its own redirects",
                                  lambda: w3({"carried": got, "expected": exp}))
        for h in hops:
            ctx.hit("form:" + h["form"])
            ctx.hit("status:%d" % h["status"])
            ctx.hit("transition:" + h["transition"])
        ctx.case((start, hops, method), nontrivial=len(seen) >= 2 or bool(resp and resp.get("redirects")))
        if len(ctx.samples) < 2 and not escaped:
            ctx.sample(w2())
    finally:
        try:
            patron.connector.close()
        except Exception:      # noqa
            pass


def _od(pairs):
    from ioflo.aid.odicting import odict
    return odict(pairs)


def portless_case(ctx, world, rng, idx):
    """A redirect whose Location names no port: the request is reissued to the default port of the Location's scheme (80 /
    443).  Nobody listens there in the sandbox, so the chain is not completed: the verdict is where the reissued request
    is aimed -- the connector's address, the requester's scheme and port and the Host line of the rebuilt request -- read
    right after the patron has processed the redirect response."""
    from ioflo.aio.http import clienting
    import socket
    tag = "p%d-%d" % (ctx.job["index"] if ctx.job else 0, idx)
    start_srv = rng.choice(["A", "A", "B"])
    to_scheme = rng.choice(["http", "https", "https"])
    s0 = world.server(start_srv)
    host = rng.choice([s0["host"], "localhost", "127.0.0.1"]) if to_scheme == "http" else "localhost"
    path, npath = gen_path(rng), gen_path(rng)
    nquery = gen_query(rng)
    status = rng.choice([301, 302, 303, 307])
    loc = "%s://%s%s" % (to_scheme, host, quote(npath)) + ("?" + enc_query(nquery) if nquery else "")
    world.table.clear()
    del world.seen[:]
    world.table[(start_srv, path, ())] = {"kind": "redirect", "status": status, "location": loc, "hop": 0}
    if to_scheme == "https":
        world.trust_test_ca()
    patron = clienting.Patron(store=world.store, path="http://%s:%d%s" % (s0["host"], s0["port"], path), method="GET",
                              headers=_od([("X-Vf-Id", tag)]))
    patron.connector.reopen()
    patron.connector.cs.setsockopt(socket.IPPROTO_TCP, socket.TCP_NODELAY, 1)
    ha0 = patron.connector.ha
    patron.transmit()
    escaped = None
    taken = False
    for rounds in range(600):
        try:
            patron.serviceAll()
        except Exception as ex:
            escaped = "%s: %s" % (type(ex).__name__, str(ex)[:120])
            break
        for sv in world.servers.values():
            sv["valet"].serviceAll()
        world.store.advanceStamp(0.001)
        if patron.connector.ha != ha0 or patron.requester.path != path or patron.responses:
            taken = True
            break
        if rounds > 40:
            time.sleep(0.0005)
    want_port = 443 if to_scheme == "https" else 80
    ctx.case(("portless", start_srv, loc, status), nontrivial=taken)
    if not taken:
        ctx.hit("portless_redirect_not_seen_in_time")
        return
    ctx.hit("portless_redirects_judged")
    ctx.hit("portless_redirects_to_" + to_scheme)
    try:
        request_head = bytes(patron.requester.rebuild()).split(b"\r\n\r\n")[0].decode("iso-8859-1")
    except Exception as ex:      # noqa
        request_head = "rebuild raised %r" % (ex,)
    hostline = [ln for ln in request_head.split("\r\n") if ln.lower().startswith("host:")]
    wit = lambda: jsonable({"location": loc, "status": status, "from": [s0["host"], s0["port"]], "escaped": escaped,
                            "connector": [type(patron.connector).__name__, patron.connector.ha],
                            "requester": {"scheme": patron.requester.scheme, "hostname": patron.requester.hostname,
                                          "port": patron.requester.port, "path": patron.requester.path},
                            "request_head": request_head})
    ok = (patron.connector.ha[1] == want_port and patron.requester.port == want_port and patron.requester.scheme == to_scheme
          and (type(patron.connector).__name__ == "ClientTls") == (to_scheme == "https"))
    ctx.check(ok, "redirect/portless-location/not-aimed-at-the-default-port-of-its-scheme/http->%s" % to_scheme,
              "a Location without a port (%s) is reissued to %s port %s, scheme %s, expected port %d" % (
                  loc, type(patron.connector).__name__, patron.connector.ha[1], patron.requester.scheme, want_port), wit)
    ctx.check(len(hostline) == 1 and hostline[0].split(":", 1)[1].strip().lower() in ("%s:%d" % (host, want_port), host),
              "redirect/portless-location/host-header", "the Host line of the reissued request does not name the Location's host "
              "(with the default port of its scheme or none): %r" % (hostline,), wit)
    try:
        patron.connector.close()
    except Exception:      # noqa
        pass


def worker(ctx, job):
    deadline = time.time() + job["budget"]
    rng = ctx.rng
    errs = []
    world = World()
    try:
        for i in range(job["n"]):
            if time.time() > deadline:
                ctx.inconclusive_case("wall-clock watchdog")
                break
            try:
                one_case(ctx, world, rng, i, deadline)
                if i % 8 == 3:
                    import random as _random
                    portless_case(ctx, world, _random.Random(repr(("portless", ctx.seed, ctx.job["index"] if ctx.job else 0, i))), i)
            except (OSError, RuntimeError) as ex:      # the harness's own real sockets, never a verdict
                errs.append("%s: %s" % (type(ex).__name__, ex))
    finally:
        world.close()
    hg.tolerate_socket_errors(ctx, errs, job["n"])


def run(ctx):
    n = ctx.pick(50, 8000)
    jobs = [{"n": n, "budget": ctx.pick(25, 900)} for _ in range(16)]
    ctx.shard(jobs, timeout=ctx.pick(60, 1500))
    total = 16 * n
    ctx.floor("distinct_nontrivial", total // 2)
    ctx.floor("completed_chains", total // 2)
    ctx.floor("second_chain_on_same_patron", total // 10)
    ctx.floor("second_exchange_by_transmit", total // 30)
    ctx.floor("downgrade_cases", total // 60)
    ctx.floor("downgrade_cases_on_a_supplied_connector", total // 400)
    ctx.floor("redirects_between_hosts_on_the_same_port", total // 30)
    ctx.floor("portless_redirects_judged", total // 12)
    ctx.floor("head_requests", total // 20)
    ctx.floor("form:abs-nopath", total // 60)
    ctx.floor("portless_redirects_to_https", total // 40)
    for f, d in (("abs", 4), ("abspath", 10), ("relpath", 10), ("queryonly", 20), ("netpath", 8)):
        ctx.floor("form:" + f, total // d)
    for st in (300, 301, 302, 303, 307, 308):
        ctx.floor("status:%d" % st, total // 16)
    for t, d in (("same", 3), ("http->http", 4), ("http->https", 80), ("https->http", 60), ("https->https", 100)):
        ctx.floor("transition:" + t, total // d)
    ctx.floor("chain_len:4", total // 25)
