"""C41 CRC helpers compute CRC-16/GENIBUS and CRC-64/WE (engine C).

Reference: table-driven MSB-first CRC in vf.fnref (self-tested against the
catalogue check values of "123456789" before it is trusted).
"""
from vf import fnref

LEVEL = "exploration"
RULE = ("every byte string of length 0..2 (65 793, exhaustive, identical for every seed) plus seeded random strings "
        "of length 3..1024 (lengths biased to 3..16 and to 1024; contents random, all-zero, all-0xff, single-bit) "
        "passed as bytes / bytearray / list of ints to crc16 and crc64 and compared with a table-driven "
        "CRC-16/GENIBUS and CRC-64/WE; distinct = distinct byte string; non-trivial = length >= 1")
RULE = __import__("vf.core", fromlist=["rule_add"]).rule_add(RULE, 'also a reused buffer refilled in place and the same bytes passed in two consecutive calls')
META = {"engine": "C function",
        "technique": "differential test against an independent table-driven CRC (exhaustive <= 2 bytes + random <= 1 KiB)",
        "level_text": "exploration: the space of strings up to two bytes is enumerated completely, longer strings are "
                      "sampled; a CRC is linear so short exhaustive + long random strings exercise every table entry "
                      "and every register bit",
        "level_note": "trusts the reference tables (self-checked against the published check values 0xD64E / "
                      "0x62EC59E3F1A4F00A) and struct.unpack"}


def _one(ctx, crc16, crc64, data, form, tag, arg=None):
    """arg: the caller's own buffer object holding `data` (a frame buffer that is refilled and checksummed again)"""
    import struct
    s = bytes(data)
    if arg is None:
        arg = s if form == 0 else (bytearray(s) if form == 1 else list(s))
    ctx.case(("s", s.hex()) if len(s) > 6 else "s" + s.hex(), nontrivial=len(s) >= 1)
    want16 = fnref.crc16_genibus(s)
    want64 = fnref.crc64_we(s)
    try:
        got16 = crc16(arg)
        ok = isinstance(got16, (bytes, bytearray)) and len(got16) == 2 and struct.unpack("!H", bytes(got16))[0] == want16
        ctx.check(ok, "crc16/value-differs-from-CRC-16-GENIBUS/" + tag,
                  "crc16 differs from CRC-16/GENIBUS",
                  lambda: {"input_hex": s.hex()[:80], "len": len(s), "got": repr(got16), "want": "%04x" % want16})
    except Exception as e:
        from vf.core import exc_key
        ctx.fail("crc16/raises/" + exc_key(e), "crc16 raises %r" % (e,), {"input_hex": s.hex()[:80], "form": form})
    try:
        got64 = crc64(arg)
        ok = (isinstance(got64, tuple) and len(got64) == 2 and
              got64[0] == (want64 >> 32) and got64[1] == (want64 & 0xFFFFFFFF))
        ctx.check(ok, "crc64/value-differs-from-CRC-64-WE/" + tag,
                  "crc64 differs from CRC-64/WE split into (high, low) 32-bit halves",
                  lambda: {"input_hex": s.hex()[:80], "len": len(s), "got": repr(got64),
                           "want": [want64 >> 32, want64 & 0xFFFFFFFF]})
    except Exception as e:
        from vf.core import exc_key
        ctx.fail("crc64/raises/" + exc_key(e), "crc64 raises %r" % (e,), {"input_hex": s.hex()[:80], "form": form})


def worker(ctx, job):
    from ioflo.aid.checking import crc16, crc64
    if job["kind"] == "short":
        lo, hi = job["lo"], job["hi"]
        for first in range(lo, hi):
            if first == -2:
                _one(ctx, crc16, crc64, b"", 0, "short")
                continue
            if first == -1:
                for a in range(256):
                    _one(ctx, crc16, crc64, bytes([a]), a % 3, "short")
                continue
            for second in range(256):
                _one(ctx, crc16, crc64, bytes([first, second]), (first + second) % 3, "short")
        ctx.hit("short_strings_blocks", hi - lo)
    else:
        rng = ctx.subrng("c41", job["index"])
        frames = {True: bytearray(), False: []}
        for i in range(job["n"]):
            r = rng.random()
            if r < 0.35:
                n = rng.randint(3, 16)
            elif r < 0.45:
                n = 1024
            else:
                n = rng.randint(17, 1024)
            style = rng.random()
            if style < 0.8:
                s = bytes(rng.getrandbits(8) for _ in range(n))
            elif style < 0.85:
                s = bytes(n)
            elif style < 0.9:
                s = b"\xff" * n
            else:
                b = bytearray(n)
                b[rng.randrange(n)] = 1 << rng.randrange(8)
                s = bytes(b)
            if i % 4 == 3:
                # one buffer object of the caller's, refilled in place and checksummed again (bytearray or list)
                buf = frames[i % 8 == 3]
                buf[:] = s
                _one(ctx, crc16, crc64, s, 1, "long-reused-buffer", arg=buf)
                # ... and again right away with the next frame in the same buffer (same length or not)
                s2 = bytes(reversed(s)) if i % 16 == 3 else bytes(rng.getrandbits(8) for _ in range(rng.choice([len(s), len(s), 5])))
                buf[:] = s2
                _one(ctx, crc16, crc64, s2, 1, "long-reused-buffer", arg=buf)
                ctx.hit("reused_buffer_calls", 2)
            else:
                _one(ctx, crc16, crc64, s, i % 3, "long")
            ctx.hit("long_strings")
            if i == 0:
                ctx.sample({"len": n, "head_hex": s[:12].hex(), "crc16": "%04x" % fnref.crc16_genibus(s),
                            "crc64": "%016x" % fnref.crc64_we(s)})


def run(ctx):
    from vf.core import Inconclusive
    # the reference itself must reproduce the catalogue check values
    if (fnref.crc16_genibus(fnref.CRC_CHECK_INPUT) != fnref.CRC16_GENIBUS_CHECK or
            fnref.crc64_we(fnref.CRC_CHECK_INPUT) != fnref.CRC64_WE_CHECK):
        raise Inconclusive("reference CRC does not reproduce the catalogue check values")
    from ioflo.aid.checking import crc16, crc64
    _one(ctx, crc16, crc64, fnref.CRC_CHECK_INPUT, 0, "check-vector")
    ctx.hit("check_vector")
    ctx.sample({"input": "123456789", "crc16_want": "d64e", "crc64_want": "62ec59e3f1a4f00a"})

    nshort = 16
    bounds = [-2 + round(i * 258 / nshort) for i in range(nshort + 1)]
    jobs = [{"kind": "short", "lo": bounds[i], "hi": bounds[i + 1]} for i in range(nshort)]
    nlong = ctx.pick(600, 200000)
    per = ctx.pick(100, 1250)
    jobs += [{"kind": "long", "n": per} for _ in range(nlong // per)]
    ctx.shard(jobs, timeout=ctx.pick(60, 1500))
    ctx.exhaustive = True
    ctx.extra["exhaustive_scope"] = "all byte strings of length <= 2; longer strings sampled"
    ctx.floor("short_strings_blocks", 258)
    ctx.floor("check_vector", 1)
    ctx.floor("reused_buffer_calls", ctx.pick(100, 40000))
    ctx.floor("long_strings", nlong // 3)
    ctx.floor("distinct_nontrivial", 65792 + nlong // 3)
    ctx.floor("oracle_evaluations", 2 * 65793)
