"""C11 framer elapsed / recurred clocks drive timeout and repeat exactly (engine A).

Events: a `do vf rec at precur` placed first in every frame records the
framer's elapsed / recurred shares at every evaluation; tick-end snapshots give
the active frame; runner proxies give the ticks at which the framer ran.
Oracle: clocks-only mini model in exact rational time (Appendix A.4/A.5
restricted to timeout / repeat / go-on-clock programs without guards).
"""
from fractions import Fraction

from vf.flo import prog as P

LEVEL = "exploration"
RULE = ("grid: tick period (binary-exact and decimal) x timeout T x repeat N on a two-frame program (exhaustive) plus random "
        "frame sequences (nested groups, timeout / repeat / go on elapsed|recurred, forced re-entry `go me`, framer period 0 or "
        "2 ticks, optionally an auxiliary -- plain or a clone `as mine` / `as k` -- with clock clauses of its own under one of the "
        "frames, and a second use of the same framer: a second clone alive beside the first, or the same original under the "
        "next frame); distinct = distinct program text; non-trivial = at least 2 transitions taken and 5 evaluations observed")
RULE = __import__("vf.core", fromlist=["rule_add"]).rule_add(RULE, 'also a one-shot aux (`done me`), a redundant `start` bid by a second framer while the framer runs, and a recorder of `recurred` compared with the completed iterations')
META = {"engine": "A floscript", "technique": "runtime trace monitor vs exact-rational clock model",
        "level_text": "At every observed evaluation the recorded elapsed/recurred are compared with store-time/iterations since the last "
                      "outline change, and every timeout/repeat transition tick with the first evaluation at which the exact clock reaches it.",
        "level_note": "Programs are restricted to clock-driven transitions without entry guards so the expected transition is fully determined."}

TICKS = ["0.0625", "0.125", "0.25", "0.0078125", "0.0009765625", "0.1", "0.05", "0.2", "0.3"]   # 1/128 and 1/1024: exact, but 7 and 10 decimals


def dyadic(fr):
    d = Fraction(fr).denominator
    return d & (d - 1) == 0


def clause_stmt(cl):
    k = cl["k"]
    if k == "timeout":
        return {"v": "timeout", "t": {"raw": cl["t"]}}
    if k == "repeat":
        return {"v": "repeat", "n": cl["n"]}
    if k == "go_el":
        return P.go(cl["far"], [P.cmp("elapsed", ">=", {"raw": cl["t"]})])
    if k == "go_re":
        return P.go(cl["far"], [P.cmp("recurred", ">=", cl["n"])])
    raise ValueError(k)


def aux_entries(case):
    """the auxiliaries of a case: [{"hosts": [frame names], "as": None | "mine" | tag, "name": framer name at run time}].
    case["aux"] is one auxiliary framer x; case["aux"]["more"] hosts further uses of the same framer: for a moot, a second
    clone under another frame; for an ordinary aux, the same original under a frame outside the first host's outline."""
    aux = case.get("aux")
    if not aux:
        return []
    uses = [{"host": aux["host"], "as": aux.get("as")}] + list(aux.get("more") or [])
    if not aux.get("as"):
        return [{"hosts": [u["host"] for u in uses], "as": None, "name": "x"}]
    order = [f["name"] for f in case["frames"]]
    out, nmine = [], 0
    for u in sorted(uses, key=lambda u: order.index(u["host"])):       # insular tags count in declaration order
        if u["as"] == "mine":
            nmine += 1
            name = "f_x%d" % nmine
        else:
            name = "f_%s" % u["as"]
        out.append({"hosts": [u["host"]], "as": u["as"], "name": name})
    return out


def build_prog(case):
    frames = []
    aux = case.get("aux")
    uses = ([{"host": aux["host"], "as": aux.get("as")}] + list(aux.get("more") or [])) if aux else []
    for f in case["frames"]:
        st = [P.rec(f["name"] + ".pre", "precur"), P.rec(f["name"] + ".en", "enter"), P.rec(f["name"] + ".rc", "recur")]
        if case.get("done") == f["name"]:
            # the framer reports completion and keeps running: its clocks go on
            st.append({"v": "done", "who": ["me"], "ctx": "enter"})
        for u in uses:
            if u["host"] == f["name"]:
                a = {"v": "aux", "aux": "x"}
                if u.get("as"):
                    a["as"] = u["as"]
                st.append(a)
        st += [clause_stmt(cl) for cl in f["clauses"]]
        frames.append(P.frame(f["name"], st, over=f.get("over"), next=f.get("next")))
    framers = [P.framer("f", frames, period=case.get("fperiod"))]
    if case.get("restart"):
        # another framer bids `start f` while f is running: documented as changing nothing
        framers.append(P.framer("bz", [P.frame("z0", [P.go("z1", [P.cmp("recurred", ">=", case["restart"])])]),
                                       P.frame("z1", [{"v": "bid", "ctl": "start", "who": ["f"], "ctx": None}, P.go("z2", [])]),
                                       P.frame("z2", [])]))
    if aux:
        aframes = []
        for f in aux["frames"]:
            st = [P.rec(f["name"] + ".pre", "precur"), P.rec(f["name"] + ".en", "enter"), P.rec(f["name"] + ".rc", "recur")]
            if aux.get("done") == f["name"]:
                st.append({"v": "done", "who": ["me"], "ctx": "enter"})
            st += [clause_stmt(cl) for cl in f["clauses"]]
            aframes.append(P.frame(f["name"], st, over=f.get("over"), next=f.get("next")))
        framers.append(P.framer("x", aframes, sched="moot" if aux.get("as") else "aux"))
    return P.program([P.house("h", framers)], period=case["P"])


def clause_true(cl, el, rec):
    if cl["k"] in ("timeout", "go_el"):
        return el >= Fraction(cl["t"])
    return rec >= cl["n"]


class Clock(object):
    """clock state of one framer (the scheduled framer, or its auxiliary): active frame, tick of the last outline
    change, iterations since"""

    def __init__(self, S, clauses, who):
        self.S, self.clauses, self.who = S, clauses, who
        self.active, self.c, self.rec = None, None, 0
        self.ntrans = self.nevals = 0
        self.passes = 0           # completed recur passes of the active frame since the outline last changed

    def enter_first(self, k):
        self.active, self.c, self.rec = self.S.first, k, 0
        self.passes = 0


def evaluate(ctx, st, k, evs, Pf, exact, case, wit):
    """one evaluation (segue) of framer `st` at tick k with its events `evs`: clocks, expected and observed clock-driven
    transition.  Returns None (no transition), (ex, en, rx) of the transition taken, or "stop" after a hard disagreement."""
    S, clauses = st.S, st.clauses
    who = "" if st.who == "f" else "aux "
    key = (lambda x: x) if st.who == "f" else (lambda x: "aux/" + x)
    entered = [e["frame"] for e in evs if e["ctx"] == "enter"]
    st.rec += 1
    st.nevals += 1
    rec, c, active = st.rec, st.c, st.active
    el = (k - c) * Pf
    for e in evs:
        if e["ctx"] != "precur":
            continue
        ctx.hit("clock_evaluations" if st.who == "f" else "aux_clock_evaluations")
        ok_el = (e["elapsed"] == float(el)) if exact else abs(e["elapsed"] - float(el)) < 1e-9
        ctx.check(ok_el, key("elapsed-wrong-at-evaluation"),
                  "tick %d %sframe %s: elapsed %r, store time since last outline change %r" % (k, who, e["frame"], e["elapsed"], float(el)),
                  lambda: wit({"tick": k, "event": e, "last_change_tick": c}))
        ctx.check(e["recurred"] == st.passes, key("recurred-differs-from-completed-iterations"),
                  "tick %d %sframe %s: recurred %r, the frame's recur actions ran %d times since the last outline change" % (
                      k, who, e["frame"], e["recurred"], st.passes), lambda: wit({"tick": k, "event": e, "last_change_tick": c}))
        ctx.check(e["recurred"] == rec, key("recurred-wrong-at-evaluation"),
                  "tick %d %sframe %s: recurred %r, iterations since last outline change %d" % (k, who, e["frame"], e["recurred"], rec),
                  lambda: wit({"tick": k, "event": e, "last_change_tick": c}))
    # expected transition (clauses in `skip` are exact-coincidence clauses the float clock missed)
    skip = []

    def expected():
        for fname in S.outline(active):
            for cl in clauses[fname]:
                if any(cl is x for x in skip):
                    continue
                if clause_true(cl, el, rec):
                    far = S.resolve_far(fname, cl.get("far", "next"))
                    if far is not None:
                        return far, (fname, cl)
        return None, None
    exp_far, exp_clause = expected()
    # observed transition: enter events of this evaluation
    obs_far = None
    if entered:
        for cand in S.order:
            ex, en, rx = S.exen(S.outline(active), cand)
            if en == entered and cand in en + rx:
                if cand == exp_far:
                    obs_far = cand
                    break
                if obs_far is None:
                    obs_far = cand
    # float clock: an exact coincidence elapsed == T on a decimal tick may be missed by one evaluation
    while exp_far is not None and not exact:
        ex, en, rx = S.exen(S.outline(active), exp_far)
        fname, cl = exp_clause
        if entered == en or not (cl["k"] in ("timeout", "go_el") and el == Fraction(cl["t"])):
            break
        ctx.fail("decimal-tick-timeout-late-by-one-evaluation/exact-coincidence",
                 "tick period %s: `%s %s` in frame %s not taken at tick %d although store time since the outline change is exactly %s"
                 % (case["P"], cl["k"], cl["t"], fname, k, cl["t"]), lambda: wit({"tick": k, "clause": cl}))
        skip.append(cl)
        exp_far, exp_clause = expected()
    if exp_far is not None and obs_far is None:
        fname, cl = exp_clause
        ctx.fail(key("clock-transition-missed"), "tick %d: expected %stransition %s -> %s (%r, elapsed %s recurred %d) did not happen"
                 % (k, who, fname, exp_far, cl, float(el), rec), lambda: wit({"tick": k, "clause": cl, "active": active}))
        return "stop"
    if exp_far is None and obs_far is not None:
        ctx.fail(key("clock-transition-early"), "tick %d: %stransition to %s (entered %s) although no clock condition holds (elapsed %s recurred %d)"
                 % (k, who, obs_far, entered, float(el), rec), lambda: wit({"tick": k, "active": active}))
        return "stop"
    if exp_far is not None:
        ex, en, rx = S.exen(S.outline(active), exp_far)
        if not ctx.check(entered == en, key("clock-transition-wrong-target"),
                         "tick %d: expected %stransition to %s (enter %s), observed enters %s" % (k, who, exp_far, en, entered),
                         lambda: wit({"tick": k, "active": active})):
            return "stop"
        fname, cl = exp_clause
        ctx.hit(("fired_" if st.who == "f" else "aux_fired_") + cl["k"])
        if cl.get("far") == "me":
            ctx.hit("forced_reentry")
        st.active, st.c, st.rec = exp_far, k, 0
        st.passes = 0
        st.ntrans += 1
        return ex, en, rx
    ctx.check(True, "ok")
    return None


def count_passes(F, fname, evs, entries):
    """recur passes completed in this run (they come after the transitions of the run), per clock, for the frame that is
    active now"""
    for st, name in [(F, fname)] + [(e_["clock"], e_["name"]) for e_ in entries]:
        if st.active is not None:
            st.passes += sum(1 for e in evs if e["framer"] == name and e["ctx"] == "recur" and e["frame"] == st.active)


def check_case(ctx, case):
    from vf.flo import runner
    prog = build_prog(case)
    text = P.render(prog)
    Pf = Fraction(case["P"])
    res = runner.run_text(text, period=float(Pf), maxticks=case["ticks"])
    if not res.built:
        ctx.inconclusive_case("program did not build: %r\n%s" % (res.build_error, text))
        return
    if res.exc is not None:
        ctx.fail("run-raised", "run raised %r" % (res.exc,), {"program": text})
        return
    framers = prog["houses"][0]["framers"]
    F = Clock(P.Static(framers[0]), {f["name"]: f["clauses"] for f in case["frames"]}, "f")
    aux = case.get("aux")
    entries = aux_entries(case)
    for en_ in entries:
        en_["clock"] = Clock(P.Static([fr for fr in framers if fr["name"] == "x"][0]), {f["name"]: f["clauses"] for f in aux["frames"]}, "x")
    wit = lambda extra=None: {"program": text, "P": case["P"], "detail": extra}
    exact = dyadic(Pf)
    status = "stopped"
    known = set(["f", "bz"] + [e_["name"] for e_ in entries])
    for s in res.sends:
        if s["caller"] != "run" or s["tasker"] != "f":
            continue
        k = s["tick"]
        evs = res.trace[s["seq"]:s.get("seq_end", s["seq"])]
        fe = [e for e in evs if e["framer"] == "f"]
        stray = [e["framer"] for e in evs if e["framer"] not in known]
        if stray:
            ctx.inconclusive_case("events of a framer the harness does not know: %s" % sorted(set(stray)))
            return
        # an auxiliary (plain: framer x; clone: f_x1, f_x2 / f_<tag>) acts inside its main framer's run: what it does before
        # the main framer's first enter event of this run is its own evaluation, what comes after is its (re)entry with the host
        cut = next((i for i, e in enumerate(evs) if e["framer"] == "f" and e["ctx"] == "enter"), len(evs))
        entered = [e["frame"] for e in fe if e["ctx"] == "enter"]
        if s["control"] == "start" and status == "stopped":
            F.enter_first(k)
            status = "started"
            ctx.check(entered == F.S.outline(F.active), "start-enter-outline", "start entered %s, outline is %s" % (entered, F.S.outline(F.active)), wit)
            for en_ in entries:
                A = en_["clock"]
                if any(h in F.S.outline(F.active) for h in en_["hosts"]):
                    A.enter_first(k)
                    got = [e["frame"] for e in evs[cut:] if e["framer"] == en_["name"] and e["ctx"] == "enter"]
                    ctx.check(got == A.S.outline(A.active), "aux/enter-outline-with-host", "aux entered %s with its host frame, outline is %s" % (
                        got, A.S.outline(A.active)), wit)
            count_passes(F, "f", evs, entries)
            continue
        if s["control"] == "start" and status in ("started", "running"):
            ctx.hit("redundant_starts")
            count_passes(F, "f", evs, entries)      # (whatever the framer does with it: iterations are iterations)
            continue
        if s["control"] != "run" or status not in ("started", "running"):
            continue
        status = "running"
        ctx.event(len(evs))
        alive = [en_ for en_ in entries if en_["clock"].active is not None]
        if len(alive) >= 2:
            ctx.hit("evaluations_with_two_clones_alive")
            if len(set(en_["clock"].c for en_ in alive)) >= 2:
                ctx.hit("evaluations_with_two_clones_entered_at_different_times")
        for en_ in entries:
            A = en_["clock"]
            ae_eval = [e for e in evs[:cut] if e["framer"] == en_["name"]]
            if A.active is not None:
                ctx.hit("aux_evaluations")
                if evaluate(ctx, A, k, ae_eval, Pf, exact, case, wit) == "stop":
                    return
            else:
                ctx.check(not ae_eval, "aux/acts-while-host-not-entered", "the auxiliary acted while its host frame is not entered", wit)
        r = evaluate(ctx, F, k, fe, Pf, exact, case, wit)
        if r == "stop":
            return
        if r is not None:
            ex, en, rx = r
            for en_ in entries:
                A = en_["clock"]
                was = A.active is not None
                if any(h in ex for h in en_["hosts"]):
                    A.active = None
                if any(h in en for h in en_["hosts"]):
                    A.enter_first(k)
                    ctx.hit("aux_reentered_with_host")
                    if len(en_["hosts"]) > 1 and was:
                        ctx.hit("original_aux_handed_to_the_next_frame")
                    got = [e["frame"] for e in evs[cut:] if e["framer"] == en_["name"] and e["ctx"] == "enter"]
                    ctx.check(got == A.S.outline(A.active), "aux/enter-outline-with-host", "aux entered %s with its host frame, outline is %s" % (
                        got, A.S.outline(A.active)), wit)
                elif any(h in rx for h in en_["hosts"]) and A.active is not None:
                    ctx.hit("host_kept_across_main_transition")
        count_passes(F, "f", evs, entries)
    # active frame agreement at the end
    fin = res.ticks[-1]["framers"].get("f") if res.ticks and res.ticks[-1]["framers"] else None
    if fin and fin["status"] in ("started", "running"):
        ctx.check(fin["active"] == F.active, "active-frame-differs", "last tick: active %s, model %s" % (fin["active"], F.active), wit)
    if aux:
        ctx.hit("cases_with_" + ("clone_aux" if aux.get("as") else "plain_aux"))
        if aux.get("more"):
            ctx.hit("cases_with_" + ("two_clones_of_one_moot" if aux.get("as") else "one_original_aux_under_two_frames"))
    ctx.case(text, nontrivial=(F.ntrans >= 2 and F.nevals >= 5),
             sample={"P": case["P"], "frames": case["frames"], "transitions": F.ntrans, "evaluations": F.nevals} if F.ntrans >= 2 else None)


def worker(ctx, job):
    for c in job["cases"]:
        check_case(ctx, c)


def tvals(Pstr):
    Pf = Fraction(Pstr)
    return ["0", str(float(Pf / 2)), Pstr, str(float(2 * Pf)), str(float(Pf * 5 / 2)), "0.3", "1.0", str(float(3 * Pf))]


def gen_random(rng, Pstr):
    ts = tvals(Pstr)
    def clause(names, me):
        k = rng.choice(["timeout", "repeat", "go_el", "go_re"])
        cl = {"k": k}
        if k in ("timeout", "go_el"):
            cl["t"] = rng.choice(ts)
        else:
            cl["n"] = rng.choice([0, 1, 2, 3, 5])
        if k.startswith("go"):
            cl["far"] = rng.choice(["next", "next", "me"] + names)
        return cl
    frames = []
    ngroups = rng.randint(1, 3)
    gnames = ["g%d" % i for i in range(ngroups)]
    allnames = []
    for gi, g in enumerate(gnames):
        nested = rng.random() < 0.7
        kids = ["%sk%d" % (g, j) for j in range(rng.randint(1, 3))] if nested else []
        allnames += [g] + kids
    for gi, g in enumerate(gnames):
        kids = [n for n in allnames if n.startswith(g + "k")]
        nxt = gnames[gi + 1] if gi + 1 < ngroups else "fin"
        gcl = [clause([], g)] if (rng.random() < 0.6 or not kids) else []
        for cl in gcl:
            if cl.get("far") not in (None, "next", "me"):
                cl["far"] = "next"
        frames.append({"name": g, "over": None, "next": nxt, "clauses": gcl})
        for j, kd in enumerate(kids):
            cls = [clause(kids, kd) for _ in range(rng.randint(1, 2))]
            f = {"name": kd, "over": g, "clauses": cls}
            if j == len(kids) - 1:
                f["next"] = rng.choice([nxt, kids[0]])
            frames.append(f)
    frames.append({"name": "fin", "over": None, "next": "fin", "clauses": []})
    case = {"P": Pstr, "frames": frames, "ticks": rng.randint(16, 40),
            "fperiod": rng.choice([None, None, str(float(2 * Fraction(Pstr)))])}
    if rng.random() < 0.45:
        # an auxiliary with clocks of its own under one of the frames (plain, or a clone of a moot framer): it is evaluated
        # in every run of the main framer while its host frame is entered -- also when a frame above the host makes a
        # transition that keeps the host -- and starts over with the host
        anames = ["xa", "xb", "xc"][:rng.randint(1, 3)]
        aframes = []
        for j, an in enumerate(anames):
            nxt = anames[j + 1] if j + 1 < len(anames) else rng.choice(["xfin", "xfin", anames[0]])
            aframes.append({"name": an, "over": None, "next": nxt, "clauses": [clause(anames, an) for _ in range(rng.randint(1, 2))]})
        aframes.append({"name": "xfin", "over": None, "next": "xfin", "clauses": []})
        case["aux"] = {"host": rng.choice([f["name"] for f in frames if f["name"] != "fin"] or ["fin"]),
                       "as": rng.choice([None, "mine", "k"]), "frames": aframes}
        # a second use of the same framer x under another frame (drawn from a generator of its own so that the cases
        # above stay what they were): a second clone of the moot -- alive beside the first one, entered at other times --
        # or the same original aux under a frame outside the first host's outline, e.g. the frame a timeout leads to
        import random as _random
        r2 = _random.Random(repr(case))
        if r2.random() < 0.35:
            case["aux"]["done"] = r2.choice(anames)       # the auxiliary reports completion in one of its frames and runs on
        if r2.random() < 0.6:
            over = {f["name"]: f.get("over") for f in frames}
            h1 = case["aux"]["host"]
            related = lambda a, b: a == b or over.get(a) == b or over.get(b) == a
            cands = [f["name"] for f in frames if f["name"] != "fin" and f["name"] != h1 and
                     (case["aux"]["as"] or not related(f["name"], h1))]
            if cands:
                a1 = case["aux"]["as"]
                a2 = None if a1 is None else r2.choice(["mine", "k2"] if a1 == "mine" else ["k2", "mine"])
                # prefer a neighbour in the frame order (the next frame of a timeout / repeat)
                order = [f["name"] for f in frames]
                near = [c for c in cands if abs(order.index(c) - order.index(h1)) == 1]
                case["aux"]["more"] = [{"host": r2.choice(near) if near and r2.random() < 0.6 else r2.choice(cands), "as": a2}]
    r3 = __import__("random").Random(repr((case["P"], case["ticks"], len(frames))))
    if r3.random() < 0.3:
        case["done"] = r3.choice([f["name"] for f in frames])         # the framer itself reports completion and runs on
    if r3.random() < 0.35 and not case.get("fperiod"):
        case["restart"] = r3.randint(2, 9)                            # another framer bids `start f` at that tick
    return case


def run(ctx):
    cases = []
    for Pstr in TICKS:
        for t in tvals(Pstr):
            cases.append({"P": Pstr, "ticks": 30, "frames": [
                {"name": "a", "clauses": [{"k": "timeout", "t": t}]},
                {"name": "b", "clauses": [{"k": "go_el", "t": t, "far": "me"}, ]},
            ]})
        for n in (0, 1, 2, 5):
            cases.append({"P": Pstr, "ticks": 20, "frames": [
                {"name": "a", "clauses": [{"k": "repeat", "n": n}]},
                {"name": "b", "clauses": [{"k": "go_re", "n": n, "far": "a"}]},
            ]})
    ctx.extra["grid_cases"] = len(cases)
    for i in range(ctx.pick(700, 40000)):
        cases.append(gen_random(ctx.rng, ctx.rng.choice(TICKS)))
    n = 16
    ctx.shard([{"cases": cases[i::n]} for i in range(n)], timeout=ctx.pick(200, 1500))
    ctx.floor("clock_evaluations", 3000)
    ctx.floor("fired_timeout", 100)
    ctx.floor("fired_repeat", 100)
    ctx.floor("redundant_starts", 50)
    ctx.floor("evaluations_with_two_clones_entered_at_different_times", 10)
    ctx.floor("original_aux_handed_to_the_next_frame", 10)
    ctx.floor("fired_go_el", 50)
    ctx.floor("fired_go_re", 50)
    ctx.floor("forced_reentry", 20)
    ctx.floor("aux_clock_evaluations", 500)
    ctx.floor("aux_fired_timeout", 20)
    ctx.floor("aux_fired_repeat", 20)
    ctx.floor("cases_with_clone_aux", 30)
    ctx.floor("cases_with_plain_aux", 15)
    ctx.floor("host_kept_across_main_transition", 10)
    ctx.floor("aux_reentered_with_host", 20)
