"""C33 server-sent events parse the same for any split and line ending (engine E).

The real ``EventSource`` (httping.py) is fed generated event streams whole,
under every split into <= 3 pieces (streams <= 100 bytes) or random splits, and
compared with (a) an independent interpretation of the complete stream
following the SSE field rules (vf.httpgen.sse_reference) and (b) its own
result on the unsplit stream.
"""
import time

from vf import httpgen as hg
from vf.core import exc_key, digest

LEVEL = "exploration"
RULE = ("event streams generated from the SSE grammar (comments, 1-3 data lines incl. 'data' without colon and "
        "'data:' without blank, event names, ids, retry values numeric and not, unknown fields, extra blank lines; "
        "line endings uniform LF / CRLF / CR or mixed per line; utf-8 multi-byte text) x every split into <=3 pieces "
        "when <=100 bytes (exhaustive per stream) else random splits; distinct = distinct stream bytes "
        "(distinct_nontrivial) and distinct (stream, cut tuple) pairs (hit counter split_cases); non-trivial = "
        "the reference interpretation yields at least one event and at least one multi-piece split was run")
RULE = __import__("vf.core", fromlist=["rule_add"]).rule_add(RULE, "also a second stream on the same Respondent (reuse), lines at the length limit cut around their end; also through a Patron: the server's close noticed together with the last bytes, or a few rounds later")
META = {"engine": "E http", "technique": "differential: EventSource vs independent SSE interpreter, whole vs split",
        "level_text": "exploration: splits exhaustive (<=3 pieces) per generated short stream; streams sampled",
        "level_note": "streams end in an unterminated comment so the last terminator is decidable; no BOM, no "
                      "connection close (EventSource.parseEvents has no BOM handling and dispatches on close by "
                      "design); id None is identified with the empty last-event-id"}
SHORT = 100


def run_source(pieces):
    from ioflo.aio.http import httping
    es = httping.EventSource(raw=bytearray())
    out = {"exc": None, "calls": 0}
    try:
        for p in pieces:
            es.raw.extend(p)
            es.parse()
            out["calls"] += 1
        es.parse()
    except Exception as ex:
        out["exc"] = exc_key(ex)
        out["msg"] = "%s: %s" % (type(ex).__name__, str(ex)[:100])
    out["events"] = [(e["id"] or "", e["name"], e["data"]) for e in es.events]
    out["leid"] = es.leid or ""
    out["retry"] = es.retry
    out["rest"] = bytes(es.raw)
    return out


def run_respondent(raw, cuts, framing):
    """The same stream as the body of a text/event-stream response parsed by
    the real client Respondent (chunked: one chunk per piece; or read until
    close), head and body bytes delivered in the given pieces."""
    from ioflo.aio.http import clienting
    head = b"HTTP/1.1 200 OK\r\nContent-Type: text/event-stream\r\n"
    if framing == "chunked":
        body = b"".join(b"%x\r\n%s\r\n" % (len(p), p) for p in hg.cut(raw, cuts))
        wire = head + b"Transfer-Encoding: chunked\r\n\r\n" + body
        pieces = [wire]
    else:
        wire = head + b"\r\n"
        pieces = [wire + hg.cut(raw, cuts)[0]] + hg.cut(raw, cuts)[1:]
    r = clienting.Respondent(msg=bytearray(), method="GET")
    out = {"exc": None, "calls": 0}
    try:
        for p in pieces:
            r.msg.extend(p)
            r.parse()
            out["calls"] += 1
        r.parse()
    except Exception as ex:
        out["exc"] = exc_key(ex)
        out["msg"] = "%s: %s" % (type(ex).__name__, str(ex)[:100])
    out["events"] = [(e["id"] or "", e["name"], e["data"]) for e in r.events]
    out["leid"] = r.leid or ""
    out["retry"] = r.eventSource.retry if r.eventSource else None
    out["evented"] = bool(r.evented)
    return out


def run_respondent_reuse(first, second, cuts, mode, framing2="chunked"):
    """One Respondent parses two event-stream responses one after the other, set up in between the way the Patron does
    it; returns the events of the second response.
      mode "reconnect": the first stream (read until close) is cut off where `first` ends -- possibly in the middle of
                        a line --, the parser is closed, run to its end and made again; new connection, empty buffer
      mode "keepalive": the first response is chunked and ends with its last chunk (possibly in the middle of an
                        event); the second response follows on the same connection
      mode "keepalive+plain": ... with an ordinary Content-Length response in between"""
    from ioflo.aio.http import clienting
    head = b"HTTP/1.1 200 OK\r\nContent-Type: text/event-stream\r\n"
    r = clienting.Respondent(msg=bytearray(), method="GET")
    out = {"exc": None, "calls": 0}

    def feed(data, n=2):
        r.msg.extend(data)
        for _ in range(n):
            r.parse()
            out["calls"] += 1
    try:
        if mode == "reconnect":
            feed(head + b"\r\n" + first)
            r.close()                       # Patron.serviceAll on a cut off connection
            for _ in range(6):
                r.parse()
                if r.ended:
                    break
            r.makeParser()                  # Patron.serviceResponse once the response ended
            del r.msg[:]
        else:
            feed(head + b"Transfer-Encoding: chunked\r\n\r\n" + (b"%x\r\n%s\r\n" % (len(first), first) if first else b"") + b"0\r\n\r\n", 3)
            if not r.ended:
                out["exc"] = "first-response-not-ended"
                out["msg"] = "the chunked first response did not end"
                return out
            r.makeParser()
            if mode == "keepalive+plain":
                r.reinit(method="GET")      # Patron.transmit for the next request
                feed(b"HTTP/1.1 200 OK\r\nContent-Length: 5\r\nContent-Type: text/plain\r\n\r\nhello", 3)
                if not r.ended:
                    out["exc"] = "plain-response-not-ended"
                    out["msg"] = "the Content-Length response in between did not end"
                    return out
                r.makeParser()
        r.reinit(method="GET")              # Patron.transmit for the next request
        before = len(r.events)
        pieces = hg.cut(second, cuts)
        if framing2 == "chunked":
            feed(head + b"Transfer-Encoding: chunked\r\n\r\n" + b"%x\r\n%s\r\n" % (len(pieces[0]), pieces[0]))
            for p_ in pieces[1:]:
                feed(b"%x\r\n%s\r\n" % (len(p_), p_))
        else:                       # no length, not chunked: the stream lasts until the connection closes
            feed(head + b"\r\n" + pieces[0])
            for p_ in pieces[1:]:
                feed(p_)
        out["events"] = [(e["id"] or "", e["name"], e["data"]) for e in list(r.events)[before:]]
        out["evented"] = bool(r.evented)
    except Exception as ex:
        out["exc"] = exc_key(ex)
        out["msg"] = "%s: %s" % (type(ex).__name__, str(ex)[:100])
    return out


def run_patron(raw, cuts, close_with_last):
    """The stream as a read-until-close text/event-stream response received by a real Patron over the in-memory net: the
    server sends the pieces one per service round and closes -- in the same round as its last piece (the client meets the
    last bytes and the end of the connection in one pass), or a few rounds later."""
    import random as _random
    from ioflo.base import storing
    from ioflo.aio.http import clienting
    store = storing.Store(stamp=0.0)
    net_ = hg.MemNet(_random.Random(0))
    conn = hg.mem_client(net_, store)
    patron = clienting.Patron(connector=conn, store=store, hostname="127.0.0.1", port=net_.addr[1])
    ss, ca = net_.listener.pending.popleft()
    patron.request(method="GET", path="/events")
    pieces = hg.cut(raw, cuts)
    queue = [b"HTTP/1.1 200 OK\r\nContent-Type: text/event-stream\r\n\r\n" + pieces[0]] + pieces[1:]
    out = {"exc": None, "calls": 0}
    closed_at = None
    try:
        for rounds in range(len(queue) + 24):
            patron.serviceAll()
            out["calls"] += 1
            net_.deliver()
            if net_.conns[0][2].buf and queue:
                ss.send(queue.pop(0))
                if not queue and close_with_last:
                    ss.close()
                    closed_at = rounds
            elif not queue and closed_at is None and rounds >= len(pieces) + 6:
                ss.close()
                closed_at = rounds
            net_.deliver()
            store.advanceStamp(0.01)
    except Exception as ex:
        out["exc"] = exc_key(ex)
        out["msg"] = "%s: %s" % (type(ex).__name__, str(ex)[:100])
    out["events"] = [(e["id"] or "", e["name"], e["data"]) for e in patron.events]
    out["leid"] = patron.respondent.leid or ""
    out["cutoff"] = bool(conn.cutoff)
    conn.close()
    return out


def same(a, ref):
    return a["exc"] is None and (a["events"], a["leid"], a["retry"]) == ref


def crlf_cut(raw, cuts):
    return any(raw[c - 1:c] == b"\r" and raw[c:c + 1] == b"\n" for c in cuts)


def jsonable(o):
    if isinstance(o, bytes):
        return o.decode("latin-1")
    if isinstance(o, dict):
        return {str(k): jsonable(v) for k, v in o.items()}
    if isinstance(o, (list, tuple)):
        return [jsonable(v) for v in o]
    return o


def check_stream(ctx, s, rng, nrandom, deadline):
    raw = s["raw"]
    ref = hg.sse_reference(raw)
    ref = ([tuple(e) for e in ref[0]], ref[1], ref[2])
    whole = run_source([raw])
    ctx.hit("policy:" + s["policy"])
    ctx.hit("reference_events", len(ref[0]))
    wit = lambda extra: jsonable(dict({"stream": raw, "policy": s["policy"],
                                       "reference": {"events": ref[0], "last_id": ref[1], "retry": ref[2]}}, **extra))
    if whole["exc"]:
        ctx.fail("sse/whole/exception/" + whole["exc"], "EventSource raises on a well-formed stream: " + whole["msg"],
                 wit({"whole": whole}))
    else:
        key = "sse/whole-vs-reference/" + s["policy"]
        if not same(whole, ref) and s["has_empty_data_event"] and \
                same(whole, ([e for e in ref[0] if e[2] != ""], ref[1], ref[2])):
            key = "sse/whole-vs-reference/empty-data-event-not-dispatched"   # the only difference
        ctx.check(same(whole, ref), key,
                  "events of the unsplit stream differ from the SSE field rules (line endings: %s)" % s["policy"],
                  lambda: wit({"whole": whole}))
        ctx.check(whole["rest"] == b":k", "sse/whole/unterminated-line-consumed/" + s["policy"],
                  "the unterminated last line was consumed or complete lines were left unparsed",
                  lambda: wit({"rest": whole["rest"]}))
    n = len(raw)
    if n <= SHORT:
        splits = hg.all_splits(n, 3)
        ctx.hit("short_streams_exhaustive")
    else:
        seen = set()
        for _ in range(nrandom * 3):
            if len(seen) >= nrandom:
                break
            seen.add(hg.random_split(rng, n))
        seen.discard(())
        splits = sorted(seen)
    count = multi = 0
    for cuts in splits:
        count += 1
        if not cuts:
            continue
        if count % 512 == 0 and time.time() > deadline:
            ctx.inconclusive_case("wall-clock watchdog inside split enumeration")
            break
        multi += 1
        got = run_source(hg.cut(raw, cuts))
        ctx.event(got["calls"])
        cc = crlf_cut(raw, cuts)
        if cc:
            ctx.hit("cut_between_cr_and_lf")
        if got["exc"]:
            ctx.fail("sse/split/exception/" + got["exc"], "EventSource raises under a split: " + got["msg"],
                     wit({"cuts": list(cuts), "split": got}))
            continue
        eq = (got["events"], got["leid"], got["retry"], got["rest"]) == \
             (whole["events"], whole["leid"], whole["retry"], whole["rest"])
        ctx.check(eq, "sse/split-vs-whole/%s%s" % (s["policy"], "/cut-between-cr-and-lf" if cc else ""),
                  "events under a split differ from the events of the unsplit stream",
                  lambda: wit({"cuts": list(cuts), "pieces": hg.cut(raw, cuts), "whole": whole, "split": got}))
    if n > SHORT:
        for framing in ("chunked", "close"):
            cuts = hg.random_split(rng, n)
            got = run_respondent(raw, cuts, framing)
            ctx.hit("respondent_evented_runs")
            ctx.event(got["calls"])
            count += 1
            if got["exc"]:
                ctx.fail("sse/respondent/exception/" + got["exc"], "Respondent raises on an event-stream response: " + got["msg"],
                         wit({"cuts": list(cuts), "framing": framing, "got": got}))
                continue
            ctx.check(got["evented"] and (got["events"], got["leid"], got["retry"]) == (whole["events"], whole["leid"], whole["retry"]),
                      "sse/respondent-vs-eventsource/" + framing,
                      "events delivered through the client Respondent (%s body) differ from EventSource alone" % framing,
                      lambda: wit({"cuts": list(cuts), "framing": framing, "respondent": got, "eventsource": whole}))
    if n > SHORT and len(raw) % 2 == 0:
        # through a Patron: the server closes in the same round as its last piece, or a few rounds later -- same events
        cuts = hg.random_split(rng, n)
        late = run_patron(raw, cuts, False)
        early = run_patron(raw, cuts, True)
        ctx.hit("patron_streams_closed_with_the_last_piece")
        count += 2
        if late["exc"] or early["exc"]:
            ctx.fail("sse/patron/exception/" + (early["exc"] or late["exc"]), "Patron raises on an event-stream response: " +
                     (early.get("msg") or late.get("msg")), wit({"cuts": list(cuts), "closed_with_last": early, "closed_later": late}))
        elif late["cutoff"] and early["cutoff"]:
            ctx.check((early["events"], early["leid"]) == (late["events"], late["leid"]), "sse/patron/close-noticed-with-the-last-bytes",
                      "the events a Patron delivers differ when the server's close is noticed together with the last bytes of the "
                      "stream instead of a few service rounds later",
                      lambda: wit({"cuts": list(cuts), "closed_with_last": early, "closed_later": late}))
    if n > SHORT:
        # the same Respondent object used for a second event stream: what the first one left behind (an unfinished line,
        # an unfinished event, its parser) is none of the second stream's business
        for mode in ("reconnect", "keepalive", "keepalive+plain"):
            k = rng.randint(0, n)
            first = raw[:k] if rng.random() < 0.85 else raw[:k].rstrip(b"\r\n")
            cuts = hg.random_split(rng, n)
            framing2 = "close" if rng.random() < 0.5 else "chunked"
            got = run_respondent_reuse(first, raw, cuts, mode, framing2)
            ctx.hit("respondent_reused_for_a_second_stream")
            ctx.hit("reuse_" + mode)
            ctx.hit("reuse_second_stream_" + framing2)
            ctx.event(got["calls"])
            count += 1
            if got["exc"]:
                ctx.fail("sse/respondent-reuse/exception/" + got["exc"], "Respondent raises when reused for a second event stream: " + got["msg"],
                         wit({"mode": mode, "first_stream": first, "cuts": list(cuts)}))
                continue
            ctx.check(got["evented"] and got["events"] == whole["events"], "sse/respondent-reuse/" + mode,
                      "events of the second stream parsed by a reused Respondent (%s) differ from the events of that stream" % mode,
                      lambda: wit({"mode": mode, "second_framing": framing2, "first_stream": first, "cuts": list(cuts), "second_stream_events": got["events"],
                                   "expected": whole["events"]}))
    ctx.evaluations += count
    ctx.hit("split_cases", count)
    ctx.case(digest(jsonable(raw)), nontrivial=bool(ref[0]) and multi > 0)
    ctx.evaluations -= 1
    if any(len(e[2].split("\n")) > 1 for e in ref[0]):
        ctx.hit("multi_line_data_events")
    if ref[2] is not None:
        ctx.hit("retry_set")
    if ref[1]:
        ctx.hit("id_set")


def gen_for(seed, idx, short):
    import random
    rng = random.Random("c33/%d/%d/%s" % (seed, idx, short))
    for _ in range(300):
        s = hg.gen_sse(rng, nevents=rng.randint(1, 2) if short else rng.randint(3, 8), maxlen=5 if short else 12)
        if (len(s["raw"]) <= SHORT) == bool(short):
            return s, rng
    return s, rng


def long_line_cases(ctx):
    """event lines whose length is at, or just below, the longest line the parser takes (httping.MAX_LINE_SIZE), with every
    line ending, delivered whole and cut right before, inside and after the line's end: the same events every time"""
    from ioflo.aio.http import httping
    M = httping.MAX_LINE_SIZE
    for eol in (b"\n", b"\r\n", b"\r"):
        for L in (M - 2, M - 1, M):
            for field in (b"data: ", b"data:", b": "):
                line = field + b"x" * (L - len(field))
                raw = b"id: 7" + eol + line + eol + b"data: tail" + eol + eol + b"data: next" + eol + eol + b": end"
                end = len(b"id: 7" + eol) + len(line)
                whole = run_source([raw])
                ctx.hit("long_line_streams")
                ctx.case(("longline", L, eol, field), nontrivial=True)
                if whole["exc"]:
                    ctx.fail("sse/long-line/whole/" + whole["exc"], "a stream whose longest line has %d bytes (limit %d) is refused: %s" % (L, M, whole["msg"]),
                             {"line_length": L, "limit": M, "eol": eol.decode("latin-1")})
                    continue
                for cuts in ([end], [end - 1], [end + 1], [end, end + len(eol)], [5, end], [end - 1, end]):
                    got = run_source(hg.cut(raw, cuts))
                    ctx.event(got["calls"])
                    ctx.hit("long_line_splits")
                    eq = got["exc"] is None and (got["events"], got["leid"], got["retry"]) == (whole["events"], whole["leid"], whole["retry"])
                    ctx.check(eq, "sse/split-vs-whole/long-line",
                              "a stream whose longest line has %d bytes (limit %d) yields other events when cut at %s (line ends at %d): %s" % (
                                  L, M, cuts, end, got.get("msg") or got["events"][:2]),
                              lambda: {"line_length": L, "limit": M, "eol": eol.decode("latin-1"), "cuts": cuts, "line_end": end,
                                       "whole_events": [(a, b, c[:40]) for a, b, c in whole["events"]], "split": {k: (v if k != "events" else [(a, b, c[:40]) for a, b, c in v]) for k, v in got.items() if k != "rest"}})


def worker(ctx, job):
    deadline = time.time() + job["budget"]
    if job["short"] and job["short"][0] == 0:
        long_line_cases(ctx)
    for idx in job["short"]:
        s, rng = gen_for(ctx.seed, idx, True)
        check_stream(ctx, s, rng, 0, deadline)
        if len(ctx.samples) < 1:
            ctx.sample(jsonable({"stream": s["raw"], "policy": s["policy"], "splits": "all <=3 pieces",
                                 "reference": hg.sse_reference(s["raw"])}))
    for idx in job["long"]:
        s, rng = gen_for(ctx.seed, idx, False)
        check_stream(ctx, s, rng, job["nrandom"], deadline)
        if len(ctx.samples) < 2:
            ctx.sample(jsonable({"stream": s["raw"], "policy": s["policy"], "splits": "%d random" % job["nrandom"]}))


def run(ctx):
    njobs = 16
    nshort = ctx.pick(5, 200)
    nlong = ctx.pick(20, 6000)
    jobs = [{"short": list(range(j * nshort, (j + 1) * nshort)), "long": list(range(j * nlong, (j + 1) * nlong)),
             "nrandom": ctx.pick(40, 120), "budget": ctx.pick(25, 900)} for j in range(njobs)]
    ctx.shard(jobs, timeout=ctx.pick(60, 1500))
    ctx.floor("split_cases", ctx.pick(35000, 2400000))
    ctx.floor("respondent_reused_for_a_second_stream", ctx.pick(600, 100000))
    ctx.floor("long_line_splits", 150)
    ctx.floor("distinct_nontrivial", ctx.pick(120, 12000))
    ctx.floor("short_streams_exhaustive", ctx.pick(25, 1500))
    ctx.floor("cut_between_cr_and_lf", ctx.pick(3000, 200000))
    ctx.floor("multi_line_data_events", ctx.pick(100, 10000))
    ctx.floor("reference_events", ctx.pick(500, 40000))
    ctx.floor("respondent_evented_runs", ctx.pick(200, 20000))
    ctx.floor("retry_set", ctx.pick(20, 2000))
    ctx.floor("id_set", ctx.pick(80, 8000))
    for pol in ("lf", "crlf", "cr", "mixed"):
        ctx.floor("policy:" + pol, ctx.pick(20, 2000))
