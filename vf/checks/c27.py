"""C27 reconnectable clients and stacks reconnect (bounded progress) (engine D).

"Eventually" is restated as a bound in logical steps: once the server is
listening again *and* the virtual clock is at least one reconnect timeout past
the last loss, the client is ``connected`` within BOUND further service rounds
(one round = the service calls an owner makes per cycle: ``serviceConnect`` +
``serviceReceives`` + ``serviceTxes`` for a bare Client, ``serviceAll`` for
Patron and TcpClientStack).  Wall-clock never decides; a 30 s watchdog makes a
case inconclusive.

(1) Loopback: a real ``Server`` on an ephemeral 127.0.0.1 port that is taken
    down and brought up on the same port, drops single connections with FIN or
    RST; real ``Client``, ``Patron`` (HTTP client), ``TcpClientStack``; virtual
    time from a shared Stamper; generated schedules with service rounds placed
    just before, at and after the timeout.
(2) Doubles: scripted ``connect_ex`` result sequences (every sequence up to a
    bound); the client must be connected exactly when the script says so.
"""
import errno
import itertools
import socket
import struct

from vf.core import exc_key, Inconclusive
from vf.iodoubles import (RET, EOF, ERR, WOULDBLOCK, FakeSocket, Loop, clock, item_name)

LEVEL = "exploration"
BOUND = 10
RULE = ("loopback: kind in {Client, Patron, Patron on a server-sent event stream with a retry field, TcpClientStack} x reconnectable or not x timeout in {0.5, 1, 2} x server "
        "initially up or down x a generated schedule of 2..7 events from {server down, server up, drop the connection "
        "with FIN, with RST, advance virtual time by a fraction or multiple of the timeout, 1..3 service rounds}, then "
        "server up and service rounds at (timeout - 1/8), timeout and (timeout + 1/8) after the last loss, then at most "
        "%d rounds; doubles: every connect_ex result sequence over {EINPROGRESS, EALREADY, ECONNREFUSED, ETIMEDOUT, 0, "
        "EISCONN} up to length 4 (thorough 5) and loss-then-timeout scripts; distinct = distinct (kind, parameters, "
        "schedule); non-trivial = the connection was lost or refused at least once before the final phase" % BOUND)
META = {"engine": "D loopback + doubles", "technique": "bounded progress in service rounds under virtual time",
        "level_text": "generated down/up/drop schedules over real loopback sockets; connect result scripts enumerated on doubles",
        "level_note": "liveness is replaced by 'within %d service rounds'; the server port is re-bound after a down period "
                      "(cases where another process took it meanwhile are discarded and counted)" % BOUND}

from vf import net
HOST = net.host()       # a loopback address of this process alone (see vf/net.py)
EPS = 0.125


def live_addresses_ok(cl):
    try:
        return cl.cs is not None and cl.ca == cl.cs.getsockname() and cl.ha == cl.cs.getpeername()
    except OSError:
        return False


class Subject(object):
    """the client side under test"""

    def __init__(self, kind, ha, clk, timeout, reconnectable, opened):
        from ioflo.aio.tcp import clienting
        self.kind = kind
        self.cl = clienting.Client(ha=ha, store=clk, timeout=timeout, reconnectable=reconnectable, bufsize=8096)
        self.obj = None
        if kind == "Client":
            if opened:
                self.cl.reopen()
        elif kind in ("Patron", "PatronEvented"):
            from ioflo.aio.http import clienting as hclienting
            self.obj = hclienting.Patron(connector=self.cl, store=clk)
            if opened:
                self.obj.open()
            if kind == "PatronEvented":
                # an HTTP client on a server-sent event stream: the stream's `retry:` field (milliseconds) becomes the
                # reconnect delay after the first reconnect; it is kept at or below the connector's timeout here
                self.obj.request(method="GET", path="/stream")
        else:
            from ioflo.aio.proto import stacking
            self.obj = stacking.TcpClientStack(handler=self.cl, stamper=clk, ha=ha, name="cstack")

    def round(self):
        if self.kind == "Client":
            self.cl.serviceConnect()
            self.cl.serviceReceives()
            self.cl.serviceTxes()
        else:
            self.obj.serviceAll()

    def send(self, data):
        if self.kind == "TcpClientStack":
            from ioflo.aio.proto import packeting
            self.obj.transmit(packeting.Packet(stack=self.obj, packed=data))
        else:
            self.cl.tx(data)

    def close(self):
        try:
            self.cl.close()
        except Exception:   # noqa
            pass


class World(object):
    def __init__(self, kind, timeout, reconnectable, up0, opened):
        from ioflo.aio.tcp import serving
        self.clk = clock()
        self.srv = serving.Server(ha=(HOST, 0), store=self.clk, timeout=0.0)
        if not self.srv.reopen():
            raise Inconclusive("cannot open a loopback listen socket")
        self.ha = self.srv.ha
        self.up = True
        if not up0:
            self.down()
        self.sub = Subject(kind, self.ha, self.clk, timeout, reconnectable, opened)
        self.kind = kind
        self.retry_ms = int(timeout * 1000) // 4 if kind == "PatronEvented" else None
        self.streams = 0
        self.t_loss = 0.0 if not up0 else None      # virtual instant of the last loss / refusal cause
        self.lost = not up0
        self.port_taken = False

    def down(self):
        for ca in list(self.srv.ixes.keys()):
            self.srv.removeIx(ca)
        self.srv.close()
        self.up = False

    def bring_up(self):
        if self.up:
            return True
        for _ in range(3):
            if self.srv.reopen():
                self.up = True
                return True
        self.port_taken = True
        return False

    def server_round(self):
        if not self.up:
            return
        self.srv.serviceConnects()
        self.srv.serviceReceivesAllIx()
        for ca, ix in list(self.srv.ixes.items()):
            if ix.cutoff:
                self.srv.removeIx(ca)
            elif self.kind == "PatronEvented" and b"\r\n\r\n" in ix.rxbs:
                # the request for the stream: answer with an event stream that names a retry delay and an event id
                del ix.rxbs[:]
                self.streams += 1
                ix.tx(b"HTTP/1.1 200 OK\r\nContent-Type: text/event-stream\r\n\r\nretry: %d\n\nid: %d\ndata: tick\n\n"
                      % (self.retry_ms, self.streams))
        if self.kind == "PatronEvented":
            self.srv.serviceTxesAllIx()

    def entry(self):
        cl = self.sub.cl
        if cl.cs is None:
            return None
        ix = self.srv.ixes.get(cl.ca)
        return ix

    def drop(self, rst):
        """server side drops the subject's connection; returns True if there was one"""
        self.server_round()
        ix = self.entry()
        if ix is None or not self.sub.cl.connected:
            return False
        if rst:
            ix.cs.setsockopt(socket.SOL_SOCKET, socket.SO_LINGER, struct.pack("ii", 1, 0))
        self.srv.removeIx(ix.ca)
        return True

    def close(self):
        # abortive close (RST) on both sides so that thousands of cases do not pile up TIME_WAIT entries
        linger = struct.pack("ii", 1, 0)
        for sock in [self.sub.cl.cs] + [ix.cs for ix in self.srv.ixes.values()]:
            try:
                if sock is not None:
                    sock.setsockopt(socket.SOL_SOCKET, socket.SO_LINGER, linger)
            except Exception:   # noqa
                pass
        self.sub.close()
        try:
            self.down()
        except Exception:   # noqa
            pass


def gen_schedule(rng, T):
    ev = []
    for _ in range(rng.randint(2, 7)):
        r = rng.random()
        if r < 0.15:
            ev.append(("down",))
        elif r < 0.30:
            ev.append(("up",))
        elif r < 0.55:
            if rng.random() < 0.8:
                ev.append(("up",))
                ev.append(("rounds", 3))          # so that there is an established connection to drop
            ev.append(("fin",) if r < 0.45 else ("rst",))
        elif r < 0.75:
            # also long gaps in which the owner does not service the client at all (paused host, busy loop)
            ev.append(("adv", rng.choice((T / 4, T / 2, T - EPS, T, T + EPS, 2 * T, 2 * T, 12 * T, 60 * T))))
        else:
            ev.append(("rounds", rng.randint(1, 3)))
    return ev


def loopback_case(ctx, rng, idx):
    kind = rng.choice(("Client", "Patron", "TcpClientStack", "Client", "Patron", "TcpClientStack", "PatronEvented"))
    T = rng.choice((0.5, 1.0, 2.0))
    rc = rng.random() < 0.8
    up0 = rng.random() < 0.6
    opened = rng.random() < 0.5
    sched = gen_schedule(rng, T)
    if kind == "PatronEvented" and rng.random() < 0.7:
        # the stream is established, lost, resumed (the retry delay of the stream is in force from here on) and lost again
        drop = lambda: (rng.choice(("fin", "rst")),)
        sched = [("up",), ("rounds", 3), drop(), ("rounds", 2), ("adv", T + EPS), ("rounds", 3), drop(), ("rounds", rng.randint(1, 2))] \
            + sched[:rng.randint(0, 3)]
    # virtual time between two service rounds of the final phase: none, a fraction of the timeout, or not below it
    step = rng.choice((0.0, 0.0, T / 8, T / 2, T, 2 * T))
    params = {"kind": kind, "timeout": T, "reconnectable": rc, "server_initially_up": up0, "opened_first": opened,
              "schedule": [list(e) for e in sched], "final_step": step}
    try:
        W = World(kind, T, rc, up0, opened)
    except Inconclusive:
        ctx.hit("discarded_no_listen_port")       # ephemeral ports exhausted for a moment (TIME_WAIT); not a verdict
        return
    loop = Loop(W.clk, wall_limit=30.0, pace=0.0002)
    sub = W.sub
    cl = sub.cl
    state = {"cut_cs": None, "established_loss": False, "was_connected": False}
    log = []

    def wit(extra=None):
        def f():
            w = dict(params, clock=W.clk.stamp, t_last_loss=W.t_loss, connected=cl.connected, cutoff=cl.cutoff,
                     timer_stop=cl.timer.stop, events=log[-30:], server_up=W.up)
            if extra:
                w.update(extra)
            return w
        return f

    def one_round():
        W.server_round()
        loop.call("round", sub.round)
        W.server_round()
        ctx.event()
        if cl.connected and not cl.cutoff:
            state["was_connected"] = True
        # a client that is not reconnectable never reopens on its own after a cut off
        if not rc:
            if state["cut_cs"] is not None:
                ctx.check(cl.cs is state["cut_cs"], "%s/not-reconnectable/reopened-after-cutoff" % kind,
                          "%s (reconnectable=False) opened a new socket on its own after the cut off" % kind, wit())
                ctx.hit("nonreconnectable_rounds_after_cutoff")
            elif cl.cutoff and cl.cs is not None:
                state["cut_cs"] = cl.cs
        if cl.cutoff:
            state["established_loss"] = True
        log.append("round@%g: connected=%s cutoff=%s" % (W.clk.stamp, cl.connected, cl.cutoff))

    try:
        try:
            for e in sched:
                log.append("event %s" % (list(e),))
                if e[0] == "down":
                    if W.up:
                        if cl.connected:
                            W.lost = True
                        W.down()
                        W.t_loss = W.clk.stamp
                elif e[0] == "up":
                    if not W.bring_up():
                        break
                elif e[0] in ("fin", "rst"):
                    if W.up and W.drop(rst=e[0] == "rst"):
                        W.lost = True
                        W.t_loss = W.clk.stamp
                        ctx.hit("drops_%s" % e[0])
                elif e[0] == "adv":
                    loop.advance(e[1])
                else:
                    for _ in range(e[1]):
                        one_round()
            if W.port_taken or not W.bring_up():
                ctx.hit("discarded_port_taken")
                return
            if not W.up:
                return
            # final phase: rounds just before / at / after one timeout past the last loss
            t0 = W.t_loss if W.t_loss is not None else 0.0
            for target in (t0 + T - EPS, t0 + T, t0 + T + EPS):
                if W.clk.stamp < target:
                    loop.advance(target - W.clk.stamp)
                    if target < t0 + T + EPS:
                        one_round()
            log.append("final phase at clock %g" % W.clk.stamp)
            nontrivial = bool(W.lost)
            used = None
            for r in range(BOUND + 1):
                if cl.connected and not cl.cutoff and W.entry() is not None:
                    used = r
                    break
                if r < BOUND:
                    if step:
                        loop.advance(step)
                    one_round()
                    if loop.pace:
                        loop._time.sleep(loop.pace)
                    loop.watchdog()
            if kind == "PatronEvented" and W.streams:
                ctx.hit("event_streams_started", W.streams)
                if W.streams >= 2:
                    ctx.hit("event_stream_resumed_after_reconnect")
            if rc:
                key = "%s/not-connected-within-bound" % kind
                if kind == "Client" and state["established_loss"] and used is None:
                    key = "Client.serviceConnect/ignores-cutoff"
                elif used is None and step >= T:
                    key = "%s/never-connects-when-serviced-no-more-often-than-timeout" % kind
                if step >= T:
                    ctx.hit("final_step_not_below_timeout")
                elif step:
                    ctx.hit("final_step_below_timeout")
                ctx.hit("reconnect_checked_%s" % kind)
                if nontrivial:
                    ctx.hit("reconnect_after_loss_%s" % kind)
                if ctx.check(used is not None, key,
                             "%s (reconnectable, timeout %g): not connected within %d service rounds although the server "
                             "listens and the timeout has elapsed since the last loss" % (kind, T, BOUND), wit()):
                    ctx.hit("rounds_needed_%d" % used)
                    ctx.check(live_addresses_ok(cl), "%s/addresses-not-those-of-live-socket" % kind,
                              "%s: after (re)connecting .ca/.ha are not the live socket's local/peer addresses" % kind,
                              wit({"ca": cl.ca, "ha": cl.ha,
                                   "getsockname": cl.cs.getsockname() if cl.cs else None,
                                   "getpeername": cl.cs.getpeername() if cl.cs else None}))
                    if kind == "TcpClientStack":
                        ctx.check(sub.obj.local.ha == cl.ca, "TcpClientStack/local-ha-not-live-address",
                                  "TcpClientStack.local.ha is not the live connection's local address",
                                  wit({"local.ha": sub.obj.local.ha, "ca": cl.ca}))
                    # the connection is real: a unique tag reaches the server entry keyed by .ca
                    tag = b"tag-%06d" % idx
                    sub.send(tag)
                    got = b""
                    for _ in range(BOUND):
                        one_round()
                        ix = W.srv.ixes.get(cl.ca)
                        got = bytes(ix.rxbs) if ix is not None else b""
                        if tag in got:
                            break
                    ctx.check(tag in got, "%s/reconnected-but-not-live" % kind,
                              "%s reports connected but bytes do not reach the server entry for its .ca" % kind,
                              wit({"server_received": got[-40:].hex()}))
            else:
                nontrivial = state["cut_cs"] is not None
                for _ in range(4):
                    loop.advance(T)
                    one_round()
            ctx.case(("loopback", kind, T, rc, up0, opened, sched, step), nontrivial=nontrivial)
            if idx < 2:
                ctx.sample(dict(params, rounds_needed=used))
        except Inconclusive:
            raise
        except Exception as ex:   # noqa
            ctx.fail("loopback/raises/%s" % exc_key(ex), "%s: a service call raised %r" % (kind, ex),
                     wit({"raised": repr(ex)}))
    finally:
        W.close()


# ------------------------------------------------------------------ TLS client on a real TLS listener
TLS_BOUND = 16      # service rounds: connect, accept and the handshake flights each take a round or two on loopback


def tls_case(ctx, rng, idx):
    """A reconnectable ClientTls on a real ServerTls (certificates of ioflo's own tests): established (handshake done),
    dropped by the server (FIN or RST), and -- one timeout later -- connected *and handshaken* again within a bounded
    number of service rounds; the new connection carries bytes.  The server stays up throughout (what a handshake does
    when the peer vanishes in the middle of it is the subject of C25)."""
    import os
    import ssl
    from ioflo.aio.tcp import clienting, serving
    certs = os.path.join(os.path.dirname(clienting.__file__), "..", "test", "tls", "certs") + "/"
    T = rng.choice((0.5, 1.0, 2.0))
    rc = rng.random() < 0.85
    how = rng.choice(("fin", "rst"))
    # no virtual time passes while a connection is being established: a client whose timeout runs out in the middle of a
    # handshake starts over, and what the *server's* handshake does when its peer vanishes is the C25 finding
    gaps = 0.0
    params = {"kind": "ClientTls", "timeout": T, "reconnectable": rc, "drop": how, "step": gaps}
    clk = clock()
    srv = serving.ServerTls(ha=(HOST, 0), store=clk, timeout=0.0, certify=ssl.CERT_NONE,
                            keypath=certs + "server_key.pem", certpath=certs + "server_cert.pem")
    if not srv.reopen():
        ctx.hit("discarded_no_listen_port")
        return
    srv.eha = srv.ha
    cl = clienting.ClientTls(ha=srv.ha, store=clk, certify=ssl.CERT_NONE, hostify=False, certedhost="localhost",
                             timeout=T, reconnectable=rc, bufsize=8096)
    loop = Loop(clk, wall_limit=30.0, pace=0.0005)
    log = []

    def wit(extra=None):
        def f():
            w = dict(params, clock=clk.stamp, connected=cl.connected, cutoff=cl.cutoff, events=log[-30:])
            w.update(extra or {})
            return w
        return f

    def one_round():
        srv.serviceConnects()
        srv.serviceReceivesAllIx()
        loop.call("round", lambda: (cl.serviceConnect(), cl.serviceReceives(), cl.serviceTxes()))
        srv.serviceConnects()
        srv.serviceReceivesAllIx()
        ctx.event()
        loop._time.sleep(loop.pace)
        log.append("round@%g: connected=%s cutoff=%s" % (clk.stamp, cl.connected, cl.cutoff))

    def established(bound):
        for r in range(bound + 1):
            if cl.connected and not cl.cutoff and cl.cs is not None and srv.ixes.get(cl.ca) is not None:
                return r
            if r < bound:
                if gaps:
                    loop.advance(gaps)
                one_round()
                loop.watchdog()
        return None

    try:
        try:
            cl.reopen()
            first = established(TLS_BOUND)
            if first is None:
                ctx.inconclusive_case("the TLS client did not get connected the first time within %d rounds" % TLS_BOUND)
                return
            ix = srv.ixes.get(cl.ca)
            old_cs = cl.cs
            if how == "rst":
                ix.cs.setsockopt(socket.SOL_SOCKET, socket.SO_LINGER, struct.pack("ii", 1, 0))
            srv.removeIx(ix.ca)
            ctx.hit("drops_%s" % how)
            for _ in range(3):
                one_round()
            if not cl.cutoff:
                ctx.hit("tls_drop_not_noticed")
                return
            t_loss = clk.stamp
            loop.advance(T + EPS)
            ctx.case(("tls", T, rc, how, gaps), nontrivial=True)
            if not rc:
                for _ in range(4):
                    one_round()
                    loop.advance(T)
                ctx.hit("nonreconnectable_rounds_after_cutoff", 4)
                ctx.check(cl.cs is old_cs or cl.cs is None, "ClientTls/not-reconnectable/reopened-after-cutoff",
                          "ClientTls (reconnectable=False) opened a new socket on its own after the cut off", wit())
                return
            used = established(TLS_BOUND)
            ctx.hit("reconnect_checked_ClientTls")
            ctx.hit("reconnect_after_loss_ClientTls")
            if not ctx.check(used is not None, "ClientTls/not-connected-within-bound",
                             "ClientTls (reconnectable, timeout %g): not connected again within %d service rounds after the "
                             "timeout although the server listens" % (T, TLS_BOUND), wit()):
                return
            ctx.hit("tls_rounds_needed_%d" % used)
            ctx.check(live_addresses_ok(cl), "ClientTls/addresses-not-those-of-live-socket",
                      "ClientTls: after reconnecting .ca/.ha are not the live socket's local/peer addresses",
                      wit({"ca": cl.ca, "ha": cl.ha}))
            tag = b"tag-%06d" % idx
            cl.tx(tag)
            got = b""
            for _ in range(BOUND):
                one_round()
                ix = srv.ixes.get(cl.ca)
                got = bytes(ix.rxbs) if ix is not None else b""
                if tag in got:
                    break
            ctx.check(tag in got, "ClientTls/reconnected-but-not-live",
                      "ClientTls reports connected but bytes do not reach the server entry for its .ca (no handshake on the new socket?)",
                      wit({"server_received": got[-40:].hex()}))
        except Inconclusive:
            raise
        except Exception as ex:   # noqa
            ctx.fail("tls/raises/%s" % exc_key(ex), "ClientTls: a service call raised %r" % (ex,), wit({"raised": repr(ex)}))
    finally:
        linger = struct.pack("ii", 1, 0)
        for sock in [cl.cs] + [i.cs for i in srv.ixes.values()]:
            try:
                if sock is not None:
                    sock.setsockopt(socket.SOL_SOCKET, socket.SO_LINGER, linger)
            except Exception:   # noqa
                pass
        try:
            cl.close()
        except Exception:   # noqa
            pass
        try:
            for ca in list(srv.ixes.keys()):
                srv.removeIx(ca)
            srv.close()
        except Exception:   # noqa
            pass


# ------------------------------------------------------------------ doubles

OK_CODES = (0, errno.EISCONN)
RESULTS = (errno.EINPROGRESS, errno.EALREADY, errno.ECONNREFUSED, errno.ETIMEDOUT, 0, errno.EISCONN)


_DEAD = []


def dead_address():
    """an address nobody listens on: a socket bound to an ephemeral port and never put into listen; a real
    connect attempt (made by a freshly reopened real socket before the harness swaps the double in) is refused"""
    if not _DEAD:
        s = socket.socket(socket.AF_INET, socket.SOCK_STREAM)
        s.bind((HOST, 0))
        _DEAD.append(s)
    return _DEAD[0].getsockname()


def new_fake(i, peer):
    return FakeSocket(name="sock%d" % i, sockname=(HOST, 50000 + i), peername=peer,
                      defaults={"connect_ex": RET(errno.EINPROGRESS)})


def double_case(ctx, kind, results, loss, T=1.0):
    """connect_ex results are scripted, one per service round; whenever the client has (re)opened a real socket
    the harness closes it and assigns the next double to .cs before the next round.  Expected: connected exactly
    from the round whose result is 0 / EISCONN.  With loss: first connect, then the peer closes (recv -> b''),
    the timeout passes, and the script applies to the reconnect."""
    clk = clock()
    peer = dead_address()
    sub = Subject(kind, peer, clk, T, True, False)
    cl = sub.cl
    fakes = []

    def swap():
        if cl.cs is None or not isinstance(cl.cs, FakeSocket):
            if cl.cs is not None:
                cl.cs.close()
            fakes.append(new_fake(len(fakes), peer))
            cl.cs = fakes[-1]         # documented attribute: the connection socket

    swap()
    rows = []
    ctx.case(("double", kind, [errno.errorcode.get(r, r) for r in results], loss), nontrivial=True)

    def wit():
        return {"kind": kind, "connect_ex_results": [errno.errorcode.get(r, "0") for r in results], "loss_first": loss,
                "rounds": rows, "sockets_used": len(fakes)}
    try:
        if loss:
            cl.cs.script("connect_ex", [RET(0)])
            sub.round()
            swap()
            if not ctx.check(cl.connected, "%s/double/scripted-connect-not-connected" % kind,
                             "%s: connect_ex returned 0 but the client is not connected" % kind, wit):
                return
            cl.cs.script("recv", [EOF])
            sub.round()                  # notices the close
            rows.append("after peer close: connected=%s cutoff=%s" % (cl.connected, cl.cutoff))
            clk.stamp += T + EPS
            for _ in range(3):           # rounds in which the owner reacts to the cut off (reopen)
                sub.round()
                swap()
                if not cl.connected:
                    break
            if kind == "Client" and cl.connected and cl.cutoff:
                ctx.check(False, "Client.serviceConnect/ignores-cutoff",
                          "Client (reconnectable): after the peer closed and the timeout elapsed serviceConnect never "
                          "reopens: connected stays True with cutoff True", wit)
                ctx.hit("double_loss_%s" % kind)
                return
            ctx.hit("double_loss_%s" % kind)
            if not ctx.check(not cl.connected and not cl.cutoff, "%s/double/no-reopen-after-cutoff-and-timeout" % kind,
                             "%s: cut off and timeout elapsed, but no reopen within 3 rounds" % kind, wit):
                return
        expected = False
        for i, res in enumerate(results):
            swap()
            cl.cs.scripts.pop("connect_ex", None)
            if not expected:
                cl.cs.script("connect_ex", [RET(res)])
            sub.round()
            if not expected and res in OK_CODES:
                expected = True
            rows.append("result %s -> connected=%s" % (errno.errorcode.get(res, "0"), cl.connected))
            ctx.event()
            ctx.check(cl.connected == expected, "%s/double/connected-differs-from-script" % kind,
                      "%s: connected=%s although the scripted connect_ex results so far say %s"
                      % (kind, cl.connected, expected), wit)
            if expected:
                ctx.check(cl.ca == cl.cs.getsockname() and cl.ha == cl.cs.getpeername(),
                          "%s/addresses-not-those-of-live-socket" % kind,
                          "%s: .ca/.ha are not the (double) socket's addresses after connecting" % kind, wit)
            swap()
    except Exception as ex:   # noqa
        ctx.fail("double/raises/%s" % exc_key(ex), "%s on doubles raised %r" % (kind, ex),
                 lambda: dict(wit(), raised=repr(ex)))
    finally:
        if cl.cs is not None and not isinstance(cl.cs, FakeSocket):
            cl.cs.close()


def worker(ctx, job):
    from ioflo.aid.consoling import getConsole
    console = getConsole()
    console.reinit(verbosity=console.Wordage.mute)
    if job["what"] == "loopback":
        rng = ctx.subrng("c27", job["k"])
        for i in range(job["N"]):
            loopback_case(ctx, rng, job["k"] * 100000 + i)
            ctx.hit("loopback_cases")
        rng2 = ctx.subrng("c27tls", job["k"])
        for i in range(max(4, job["N"] // 8)):
            tls_case(ctx, rng2, job["k"] * 100000 + 50000 + i)
            ctx.hit("tls_cases")
    else:
        for kind in ("Client", "Patron", "TcpClientStack"):
            for L in range(1, job["L"] + 1):
                for results in itertools.product(RESULTS, repeat=L):
                    double_case(ctx, kind, results, loss=False)
                    if L <= job["L"] - 1:
                        double_case(ctx, kind, results, loss=True)
                    ctx.hit("double_cases")


def run(ctx):
    K = ctx.pick(12, 16)
    jobs = [{"what": "loopback", "k": k, "N": ctx.pick(40, 4000)} for k in range(K)]
    jobs.append({"what": "doubles", "L": ctx.pick(4, 5)})
    ctx.shard(jobs, timeout=ctx.pick(120, 1500))
    ctx.extra["bound_in_service_rounds"] = BOUND
    for kind in ("Client", "Patron", "TcpClientStack"):
        ctx.floor("reconnect_after_loss_%s" % kind, ctx.pick(40, 700))
        ctx.floor("double_loss_%s" % kind, ctx.pick(80, 400))
    ctx.floor("nonreconnectable_rounds_after_cutoff", ctx.pick(300, 2500))
    ctx.floor("drops_fin", ctx.pick(60, 1300))
    ctx.floor("drops_rst", ctx.pick(35, 800))
    ctx.floor("double_cases", ctx.pick(1500, 9000))
    ctx.floor("distinct_nontrivial", ctx.pick(1500, 15000))
    ctx.floor("reconnect_after_loss_PatronEvented", ctx.pick(15, 300))
    ctx.floor("reconnect_after_loss_ClientTls", ctx.pick(30, 2000))
    ctx.floor("event_stream_resumed_after_reconnect", ctx.pick(10, 200))
