"""C09 auxiliary framers live exactly as long as their main frame (engine A)."""
from vf.flo import common

LEVEL = "exploration"
RULE = ("seeded random programs in which frames at several levels carry 0-3 plain auxiliaries (shared originals across sibling, "
        "ancestor and descendant frames), auxiliaries with their own transitions and `done` verbs in several contexts, and "
        "`if aux .. / any / all [in frame ..] is done` transitions; distinct = distinct program text; non-trivial = at least 3 aux "
        "activations and one done-condition evaluated")
META = {"engine": "A floscript", "technique": "trace monitor of aux lifetime (enter/run/recur/exit positions) + done-flag oracle + "
                                               "differential check against the reference interpreter",
        "level_text": "For every entry of a frame its auxes' first outlines must be entered right after the frame's own enter actions; "
                      "every run of the main framer must run each active aux once, aux transitions first, aux recur right after the main "
                      "frame's recur; at the main frame's exit actions no aux frame may still be entered; done-conditions are recomputed "
                      "from the done flags recorded at the evaluation.",
        "level_note": "done flags are read by the recorder behaviour at the moment the frame's precur recorder runs (before its go clauses)."}

FEATS = [
    dict(p_aux=0.7, naux=(1, 3), p_shared_aux=0.7, nframes=(3, 7), ngo=(1, 2), p_done_need=0.5, nplan=(3, 8), ticks=(10, 20), p_let=0.1),
    dict(p_aux=0.6, naux=(2, 4), p_shared_aux=0.5, nframes=(3, 7), ngo=(1, 2), p_done_need=0.4, p_stop_bid_mid=0.4, ticks=(10, 20),
         p_uncond_go=0.15),
]


def worker(ctx, job):
    from vf.flo import monitors
    common.flo_worker(ctx, job, FEATS, [monitors.aux_monitor, monitors.bracket_monitor],
                      nontrivial=lambda d: d.get("aux_activations", 0) >= 3 and sum(v for k, v in d.items() if k.startswith("done_need")) >= 1,
                      sem_flags=("aux_ownership_refused", "aux_entered"))


def run(ctx):
    common.flo_run(ctx, FEATS, 400, 24000, {
        "aux_activations": 100, "aux_runs_checked": 100, "aux_recurs_checked": 100, "aux_exits_checked": 100,
        "done_need_any": 10, "done_need_all": 10, "done_need_named": 10, "shared_original_reused": 10})
