"""C09 auxiliary framers live exactly as long as their main frame (engine A)."""
from vf.flo import common

LEVEL = "exploration"
RULE = ("seeded random programs in which frames at several levels carry 0-3 plain auxiliaries (shared originals across sibling, "
        "ancestor and descendant frames), auxiliaries with their own transitions and `done` verbs in several contexts, and "
        "`if aux .. / any / all [in frame ..] is done` transitions; a feature set with plain auxiliaries on frames suspended by conditional auxiliaries; plans with several houses in which a clone carries the `aux helper` of its own house; distinct = distinct program text; non-trivial = at least 3 aux "
        "activations and one done-condition evaluated")
RULE = __import__("vf.core", fromlist=["rule_add"]).rule_add(RULE, 'also `done` verbs that list several taskers and named done conditions that name another frame of the framer')
META = {"engine": "A floscript", "technique": "trace monitor of aux lifetime (enter/run/recur/exit positions) + done-flag oracle + "
                                               "differential check against the reference interpreter",
        "level_text": "For every entry of a frame its auxes' first outlines must be entered right after the frame's own enter actions; "
                      "every run of the main framer must run each active aux once, aux transitions first, aux recur right after the main "
                      "frame's recur; at the main frame's exit actions no aux frame may still be entered; done-conditions are recomputed "
                      "from the done flags recorded at the evaluation.",
        "level_note": "done flags are read by the recorder behaviour at the moment the frame's precur recorder runs (before its go clauses)."}

FEATS = [
    dict(p_aux=0.7, naux=(1, 3), p_shared_aux=0.7, nframes=(3, 7), ngo=(1, 2), p_done_need=0.5, nplan=(3, 8), ticks=(10, 20), p_let=0.1),
    dict(p_aux=0.6, naux=(2, 4), p_shared_aux=0.5, nframes=(3, 7), ngo=(1, 2), p_done_need=0.4, p_stop_bid_mid=0.4, ticks=(10, 20),
         p_uncond_go=0.15),
]


# plain auxiliaries on frames that a running conditional auxiliary of a frame above suspends, transitions taken meanwhile
FEATS_SUSP = [
    dict(p_aux=0.6, naux=(3, 5), p_condaux=0.7, p_shared_aux=0.6, nframes=(4, 8), p_nest=0.8, ngo=(1, 2), p_uncond_go=0.1,
         p_stop_bid_mid=0.3, ticks=(12, 22), nplan=(4, 9)),
]


def several_houses_case(rng):
    """two or three houses, each defining an auxiliary framer `helper`; in one house a moot framer whose frame carries
    `aux helper` is cloned -- reared at run time or built with `aux ... as` -- under a frame entered at some tick.  The
    clone's auxiliary is the `helper` of the clone's own house."""
    import random
    nh = rng.choice([2, 2, 3])
    houses = ["h%d" % i for i in range(nh)]
    hx = rng.choice(houses)
    how = rng.choice(["rear", "rear", "aux-mine", "aux-named"])
    k = rng.randint(1, 4)
    lines = []
    for h in houses:
        lines += ["house %s" % h, ""]
        helper = ["  framer helper be aux first p1", "    frame p1"] + \
                 ['      do vf rec with tag "%s.helper.p1.%s" at %s' % (h, c, c) for c in ("enter", "recur", "exit")] + [""]
        hf = rng.random() < 0.5
        if hf:
            lines += helper
        if h == hx:
            lines += ["  framer boss be active first setup", "    frame setup"]
            if how == "rear":
                lines.append("      rear carrier as mine be aux in frame hold")
            lines += ["      go next if recurred >= %d" % k, "    frame hold", '      do vf rec with tag "%s.boss.hold.enter" at enter' % h,
                      '      do vf rec with tag "%s.boss.hold.exit" at exit' % h]
            if how == "aux-mine":
                lines.append("      aux carrier as mine")
            elif how == "aux-named":
                lines.append("      aux carrier as cr")
            lines += ["      go next if elapsed >= 0.5", "    frame finish", "      bid stop all", ""]
            lines += ["  framer carrier be moot first c1", "    frame c1",
                      '      do vf rec with tag "%s.carrier.c1.enter" at enter' % h, "      aux helper", ""]
        else:
            lines += ["  framer keeper be active first keep", "    frame keep", "      go next if elapsed >= 1.0", "    frame kend",
                      "      bid stop all", ""]
        if not hf:
            lines += helper
    return {"text": "\n".join(lines) + "\n", "houses": houses, "hx": hx, "how": how, "last": hx == houses[-1]}


def check_several_houses(ctx, case):
    from vf.flo import runner
    text = case["text"]
    res = runner.run_text(text, maxticks=40)
    if not res.built:
        ctx.inconclusive_case("program with several houses did not build: %s" % (res.build_msgs[-1:],))
        return
    if res.exc is not None:
        ctx.fail("several-houses/run-raised/%s" % type(res.exc).__name__, "run raised %r" % (res.exc,), {"program": text})
        return
    tags = [e["tag"] for e in res.trace]
    ctx.event(len(tags))
    hx = case["hx"]
    ctx.hit("several_houses_" + case["how"])
    ctx.hit("clone_in_%s_house" % ("the_last" if case["last"] else "an_earlier"))
    wit = {"program": text, "events": tags, "case": {k: v for k, v in case.items() if k != "text"}}
    ok = True
    foreign = [t for t in tags if ".helper." in t and not t.startswith(hx + ".")]
    if foreign:
        ok = False
        ctx.fail("several-houses/aux-of-another-house-ran", "the auxiliary framer of house %s ran (%s) although no frame of its house "
                 "carries it; the clone lives in house %s" % (foreign[0].split(".")[0], foreign[:3], hx), wit)
    if "%s.carrier.c1.enter" % hx not in tags:
        ctx.inconclusive_case("the clone's frame was never entered")
        return
    i = tags.index("%s.carrier.c1.enter" % hx)
    ctx.hit("clone_aux_activations_checked")
    if tags[i + 1:i + 2] != ["%s.helper.p1.enter" % hx]:
        ok = False
        ctx.fail("several-houses/aux-of-the-clone-not-started", "house %s: after the clone's frame c1 was entered its auxiliary helper "
                 "(of the same house) was not entered next: %s" % (hx, tags[i + 1:i + 3]), wit)
    # ... and lives as long as its main frame: exited before the hosting frame's exit actions, no recur after
    if "%s.boss.hold.exit" % hx in tags:
        j = tags.index("%s.boss.hold.exit" % hx)
        own = "%s.helper.p1." % hx
        if tags[j - 1:j] != [own + "exit"] or any(t.startswith(own) for t in tags[j:]):
            ok = False
            ctx.fail("several-houses/aux-of-the-clone-outlives-its-frame", "house %s: helper events around the exit of the hosting "
                     "frame: %s" % (hx, tags[max(0, j - 2):j + 3]), wit)
    ctx.case(text, nontrivial=True, sample={"program": text, "how": case["how"]} if ctx.hits.get("several_houses_" + case["how"], 0) <= 1 else None)
    if ok:
        ctx.check(True, "ok")


def donify(rng, prog):
    """`done` verbs that list several taskers and named done-conditions that name another frame of the framer:
      * a framer that has plain auxiliaries gets `done <aux> <aux>` / `done me <aux>` in one of its frames,
      * an auxiliary's `done me` becomes `done me <another auxiliary of the house>`,
      * `go .. if aux X in frame F is done` where F is any frame that carries X (not only the frame of the condition)."""
    for h in prog["houses"]:
        auxnames = [fr["name"] for fr in h["framers"] if fr["sched"] == "aux"]
        for fr in h["framers"]:
            holders = {}
            for f in fr["frames"]:
                for st in f["stmts"]:
                    if st["v"] == "aux" and not st.get("needs"):
                        holders.setdefault(st["aux"], []).append(f["name"])
            if fr["sched"] == "aux":
                for f in fr["frames"]:
                    for st in f["stmts"]:
                        if st["v"] == "done" and st.get("who") == ["me"] and len(auxnames) > 1 and rng.random() < 0.4:
                            st["who"] = ["me", rng.choice([a for a in auxnames if a != fr["name"]])]
                continue
            if not holders:
                continue
            for f in fr["frames"]:
                for st in f["stmts"]:
                    if st["v"] == "go" and len(st.get("needs") or []) == 1 and st["needs"][0].get("n") == "auxdone" \
                            and st["needs"][0]["which"] in holders and rng.random() < 0.7:
                        st["needs"][0]["frame"] = rng.choice(holders[st["needs"][0]["which"]])
            if rng.random() < 0.6:
                names = sorted(holders)
                who = rng.sample(names, 2) if len(names) > 1 and rng.random() < 0.7 else ["me", rng.choice(names)]
                if rng.random() < 0.5:
                    who.reverse()
                f = rng.choice(fr["frames"])
                pos = len([x for x in f["stmts"] if x["v"] == "let"])
                f["stmts"].insert(pos, {"v": "done", "who": who, "ctx": rng.choice([None, "recur", "exit"])})


def worker(ctx, job):
    import random
    from vf.flo import monitors
    for seed in job.get("houses", []):
        check_several_houses(ctx, several_houses_case(random.Random(seed)))
    if job.get("susp"):
        common.flo_worker(ctx, {"items": job["susp"]}, FEATS_SUSP, [monitors.aux_monitor, monitors.bracket_monitor],
                          nontrivial=lambda d: d.get("aux_activations", 0) >= 3, sem_flags=("condaux_truncated", "transition_while_suspended",
                                                                                            "exit_all_while_suspended"))
    if job.get("dn"):
        before = ctx.hits.get("done_need_named", 0)
        common.flo_worker(ctx, {"items": job["dn"]}, FEATS, [monitors.aux_monitor, monitors.bracket_monitor], mutate=donify,
                          nontrivial=lambda d: d.get("aux_activations", 0) >= 3, sem_flags=("aux_ownership_refused", "aux_entered"))
        ctx.hit("programs_with_done_lists_and_named_frames", len(job["dn"]))
    common.flo_worker(ctx, job, FEATS, [monitors.aux_monitor, monitors.bracket_monitor],
                      nontrivial=lambda d: d.get("aux_activations", 0) >= 3 and sum(v for k, v in d.items() if k.startswith("done_need")) >= 1,
                      sem_flags=("aux_ownership_refused", "aux_entered"))


def run(ctx):
    from vf.flo import gen
    n = ctx.pick(400, 24000)
    items = [(ctx.rng.randrange(1 << 30), i % gen.nfeats(FEATS, ctx)) for i in range(n)]
    susp = [(ctx.rng.randrange(1 << 30), i % gen.nfeats(FEATS_SUSP, ctx)) for i in range(ctx.pick(480, 12000))]
    hs = [ctx.rng.randrange(1 << 30) for _ in range(ctx.pick(96, 3000))]
    dn = [(ctx.rng.randrange(1 << 30), i % gen.nfeats(FEATS, ctx)) for i in range(ctx.pick(320, 12000))]
    ctx.shard([{"items": items[i::16], "susp": susp[i::16], "houses": hs[i::16], "dn": dn[i::16]} for i in range(16)],
              timeout=ctx.pick(300, 1500))
    ctx.floor("programs_with_done_lists_and_named_frames", 100)
    for k, v in {"aux_activations": 100, "aux_runs_checked": 100, "aux_recurs_checked": 100, "aux_exits_checked": 100,
                 "done_need_any": 10, "done_need_all": 10, "done_need_named": 10, "shared_original_reused": 10,
                 "sem_condaux_truncated": 10, "sem_transition_while_suspended": 3,
                 "clone_aux_activations_checked": 40, "clone_in_an_earlier_house": 15, "several_houses_rear": 15}.items():
        ctx.floor(k, v)
