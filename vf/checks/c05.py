"""C05 a running framer's active frames are exactly its active frame's outline (engine A)."""
import random

from vf.flo import gen, prog as P

LEVEL = "exploration"
RULE = ("seeded random frame forests (nesting via in, primary-child overrides via under, several children) with transitions to "
        "self / ancestor / descendant / other subtree, plain and conditional auxiliaries, stop/abort/start bids at generated "
        "ticks; every framer is checked after every top-level run and at every tick end; every program with a singly used auxiliary framer is also run with that framer turned into a clone of a moot framer (gen.cloneify); distinct = distinct program text; "
        "non-trivial = the program changed some framer's active outline at least 3 times")
RULE = __import__("vf.core", fromlist=["rule_add"]).rule_add(RULE, 'every program also with its frames declared in another order (children before parents, `under x` after x)')
META = {"engine": "A floscript", "technique": "invariant at a hook: AST-derived outline vs live .actives / state shares after every run",
        "level_text": "After every scheduler send and at each tick boundary the live active-frame list, the active/human state shares and "
                      "the status of every framer (incl. auxiliaries) are compared with the outline computed from the AST alone, cut at "
                      "the main frame of a conditional aux observed running.",
        "level_note": "The running state of a conditional aux is read from the aux framer's own done flag / owner in the same snapshot."}

FEATS = [
    dict(p_under=0.4, p_nest=0.65, nframes=(3, 8), p_stop_bid_mid=0.5, p_bids=0.2, p_inactive=0.2, ngo=(1, 2)),
    dict(p_under=0.4, p_nest=0.7, nframes=(3, 8), p_aux=0.3, naux=(1, 3), p_condaux=0.6, p_stop_bid_mid=0.4, ngo=(0, 2)),
    dict(p_under=0.3, p_nest=0.7, nframes=(4, 8), naux=(1, 2), p_condaux=0.8, p_let=0.15, ngo=(0, 1), p_uncond_go=0.0,
         ticks=(12, 24), nplan=(4, 9)),
    # several conditional auxes along one deep outline, slow to complete: nested suspensions (an upper aux starting and
    # completing while a lower one is still running)
    dict(nframers=(1, 1), p_under=0.2, p_nest=0.9, nframes=(4, 7), naux=(3, 4), p_condaux=0.95, ngo=(0, 1), p_uncond_go=0.0,
         p_clock_need=0.0, ticks=(14, 26), nplan=(6, 12)),
]


def worker(ctx, job):
    from vf.flo import runner, monitors
    variants = []
    for seed, fi in job["items"]:
        rng = random.Random(seed)
        prog = gen.nested_condaux_program(rng) if fi % len(FEATS) == 3 else gen.gen_program(rng, gen.pickfeat(FEATS, fi))
        variants.append((prog, None))
        p2, alias = gen.cloneify(prog, random.Random(seed ^ 0x5EED))
        if alias:
            variants.append((prog, (p2, alias)))
        # the same frames declared in another order: children before parents, `under x` written after x was declared
        p3 = gen.shuffle_frames(prog, random.Random(seed ^ 0xF4A3E))
        if p3 is not None and (seed >> 3) % 2 == 0:
            variants.append((p3, None))
            ctx.hit("frames_declared_in_another_order")
            ctx.hit("under_clause_after_its_child", sum(1 for h in p3["houses"] for fr in h["framers"] for i, f in enumerate(fr["frames"])
                                                        if f.get("under") and f["under"] in [g["name"] for g in fr["frames"][:i]]))
    for prog, cloned in variants:
        text = P.render(cloned[0] if cloned else prog)
        res = runner.run_text(text, maxticks=prog["ticks"] + 12, post=True, alias=cloned[1] if cloned else None)
        if cloned:
            ctx.hit("cloned_aux_variants")
        if not res.built:
            ctx.inconclusive_case("generated program did not build: %s" % (res.build_msgs[-1:],))
            continue
        if res.exc is not None:
            ctx.fail("run-raised/%s" % type(res.exc).__name__, "run raised %r" % (res.exc,), {"program": text})
            continue
        info = monitors.Info(prog)
        before = ctx.hits.get("outline_changes", 0)
        nf = len(ctx.fails)
        monitors.outline_monitor(ctx, info, res)
        changes = ctx.hits.get("outline_changes", 0) - before
        for f in ctx.fails[nf:]:
            if isinstance(f.get("witness"), dict):
                f["witness"]["program"] = text
        ctx.case(text, nontrivial=changes >= 3,
                 sample={"program": text, "outline_changes": changes} if changes >= 3 and len(text) < 2500 else None)


def run(ctx):
    n = ctx.pick(500, 30000)
    items = [(ctx.rng.randrange(1 << 30), i % gen.nfeats(FEATS, ctx)) for i in range(n)]
    ctx.shard([{"items": items[i::16]} for i in range(16)], timeout=ctx.pick(300, 1500))
    ctx.floor("outline_changes", 200)
    ctx.floor("truncations", 20)
    ctx.floor("resumptions", 20)
    ctx.floor("depth3_outline", 50)
    ctx.floor("stopped_checked", 100)
    ctx.floor("nested_running_conditional_auxes", 300)
    ctx.floor("under_clause_after_its_child", 10)
