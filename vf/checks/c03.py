"""C03 scheduler stops when nothing runs and aborts every remaining tasker (engine A, fault enumeration)."""
import random

from vf.flo import gen, prog as P

LEVEL = "fault_enumeration"
RULE = ("small multi-framer programs (stop/abort/start bids at generated ticks, plain auxiliaries, no conditional auxiliaries); a "
        "clean run lists every (recorder action, invocation number) = crash point and every tick boundary; then one run per crash "
        "point (all of them up to a cap, a seeded sample above) x {exception raised inside the action, KeyboardInterrupt raised "
        "inside the action} and one run per tick boundary with KeyboardInterrupt delivered between ticks; distinct = distinct "
        "(program, crash point, kind); non-trivial = at least one framer was started/running when the fault hit")
META = {"engine": "A floscript", "technique": "fault injection at enumerated crash points + trace/abort-sweep monitor",
        "level_text": "For every enumerated crash point the control sequence of every tasker (runner proxies), the exception leaving "
                      "Skedder.run and the enter/exit bracket automaton are checked: same exception object re-raised, keyboard interrupt "
                      "absorbed, exactly one ABORT to each tasker still scheduled and nothing after it, all their frames exited bottom-up.",
        "level_note": "The set of taskers 'still scheduled' is read from the skedder's ready deque at the moment the sweep begins."}

FEATS = [
    dict(nframers=(2, 3), nframes=(2, 5), p_bids=0.3, p_stop_bid_mid=0.6, p_inactive=0.25, ticks=(5, 10), nplan=(1, 4), order=True,
         p_period=0.45, p_done_main=0.3),
    dict(nframers=(2, 3), nframes=(2, 4), p_bids=0.2, p_stop_bid_mid=0.4, p_aux=0.4, naux=(1, 2), ticks=(5, 9), nplan=(1, 3), p_period=0.3),
    dict(nframers=(1, 2), nframes=(2, 4), nslaves=(1, 1), p_fiat=0.6, p_bids=0.2, ticks=(5, 9), nplan=(1, 3), p_stop_bid_mid=0.3),
]
RUNNINGS = ("started", "running")


def judge(ctx, prog, text, res, kind, point, info, monitors):
    wit = lambda extra=None: {"program": text, "kind": kind, "crash_point": point, "detail": extra}
    # (b) exception identity
    if kind == "boom":
        from vf.flo.recorder import Boom
        ctx.check(isinstance(res.exc, Boom), "action-exception-not-reraised",
                  "an exception raised by an action did not leave Skedder.run (got %r)" % (res.exc,), wit)
        ctx.hit("crash_exception")
    elif kind in ("kbd_action", "kbd_tick"):
        ctx.check(res.exc is None, "keyboard-interrupt-escaped", "KeyboardInterrupt left Skedder.run as %r" % (res.exc,), wit)
        ctx.hit("crash_" + kind)
    else:
        ctx.check(res.exc is None, "clean-run-raised", "clean run raised %r" % (res.exc,), wit)
    if res.presweep is None:
        ctx.fail("no-abort-sweep", "Skedder.run returned without announcing / performing the final abort sweep", wit)
        return
    crashed = set(s["tasker"] for s in res.sends if s.get("raised"))
    # who is still scheduled is decided from the observed history, not from the skedder's own queue: every scheduled
    # (active / inactive) tasker that has not returned ABORTED from a run and whose generator did not die
    first_sweep_i = next((i for i, s in enumerate(res.sends) if s["caller"] == "sweep"), len(res.sends))
    gone = set(s["tasker"] for s in res.sends[:first_sweep_i] if s["depth"] == 0 and s.get("status") == "aborted")
    ready = [n for n in info.sched if info.sched[n] in ("active", "inactive") and n not in crashed and n not in gone]
    queue = res.presweep["ready"]
    ctx.check(sorted(queue) == sorted(ready), "abort-sweep-queue-is-not-the-still-scheduled-taskers",
              "when the run ends the skedder's queue holds %s, the taskers still scheduled are %s" % (sorted(queue), sorted(ready)),
              lambda: wit({"queue": queue, "still_scheduled": ready}))
    # (a) termination rule on normal exits
    taskables = [n for n in info.sched if info.sched[n] in ("active", "inactive")]
    for t in res.ticks[1:]:
        live = [n for n in taskables if t["framers"].get(n, {}).get("status") in RUNNINGS]
        ctx.check(bool(live), "ran-on-after-nothing-running",
                  "tick %d ended with no tasker started or running but the scheduler went on" % t["tick"], lambda: wit({"tick": t["tick"]}))
    if kind == "clean" and not res.capped:
        live = [n for n in ready if res.presweep["framers"].get(n, {}).get("status") in RUNNINGS]
        ctx.check(not live or not ready, "stopped-while-taskers-running",
                  "run ended normally while %s still started/running" % live, wit)
        if ready and not live:
            ctx.hit("ended_nothing_running")
    # (c) exactly one ABORT to each tasker still scheduled, nothing after it, none to others
    sweep = [s for s in res.sends if s["caller"] == "sweep"]
    first_sweep = res.sends.index(sweep[0]) if sweep else len(res.sends)
    after = res.sends[first_sweep:]
    ctx.hit("sweeps")
    for n in ready:
        mine = [s for s in after if s["tasker"] == n and s["depth"] == 0]
        ctx.hit("swept_taskers")
        ctx.check(len(mine) == 1 and mine[0]["control"] == "abort", "not-exactly-one-abort",
                  "tasker %s still scheduled at the end received %s after the last tick (expected exactly one abort)"
                  % (n, [(s["control"]) for s in mine]), lambda: wit({"ready": ready, "after": [(s["tasker"], s["control"]) for s in after]}))
        if mine:
            ctx.check(mine[-1].get("status") == "aborted", "abort-did-not-abort",
                      "tasker %s returned %s to the final abort" % (n, mine[-1].get("status")), wit)
    others = [s for s in after if s["depth"] == 0 and s["tasker"] not in ready]
    ctx.check(not others, "abort-sent-to-unscheduled-tasker",
              "final sweep sent %s to taskers that were no longer scheduled" % [(s["tasker"], s["control"]) for s in others], wit)
    # (d) every swept framer exits all its entered frames bottom-up
    nf = len(ctx.fails)
    monitors.bracket_monitor(ctx, info, res, ignore=crashed)
    monitors.transition_order_monitor(ctx, info, res)
    for f in ctx.fails[nf:]:
        if isinstance(f.get("witness"), dict):
            f["witness"].update(program=text, kind=kind, crash_point=point)


def worker(ctx, job):
    from vf.flo import runner, monitors
    todo = [(seed, fi, False) for seed, fi in job["items"]] + [(seed, fi, True) for seed, fi in job.get("clean_only", [])]
    for seed, fi, clean_only in todo:
        rng = random.Random(seed)
        prog = gen.gen_program(rng, gen.feat(**FEATS[fi]))
        text = P.render(prog)
        cap = prog["ticks"] + 12
        res = runner.run_text(text, maxticks=cap, post=True)
        if not res.built:
            ctx.inconclusive_case("generated program did not build: %s" % (res.build_msgs[-1:],))
            continue
        info = monitors.Info(prog)
        judge(ctx, prog, text, res, "clean", None, info, monitors)
        ctx.case([text, "clean"], nontrivial=True)
        if clean_only:            # many more programs for the termination rule alone (one run each, no crash points)
            ctx.hit("clean_only_runs")
            if seed % 3 == 0:
                # the same skedder run a second time (taskers restarted with remake()): the second run ends by the same
                # rule, and its abort sweep again sends one abort to each tasker still scheduled
                r2 = runner.run_text(text, maxticks=cap, post=True, rerun=True)
                if getattr(r2, "reran", False) and r2.built:
                    ctx.hit("second_runs_of_one_skedder")
                    judge(ctx, prog, text, r2, "clean", ["second run"], info, monitors)
                    ctx.case([text, "clean", "second run"], nontrivial=True)
            continue
        # crash points are (tick, action) pairs: actions run by the final abort sweep itself are not ticks
        nsweep = res.presweep["seq"] if res.presweep else len(res.trace)
        points = [(e["tag"], e["n"]) for e in res.trace[:nsweep]]
        ctx.hit("sweep_actions_excluded", len(res.trace) - nsweep)
        nticks = res.nticks
        maxp = job["maxpoints"]
        if len(points) > maxp:
            points = rng.sample(points, maxp)
        for (tag, n) in points:
            for kind, exc in (("boom", "Boom"), ("kbd_action", "KeyboardInterrupt")):
                r = runner.run_text(text, maxticks=cap, post=True, boom=(tag, n, exc))
                live = any(sn["status"] in RUNNINGS for sn in (r.presweep or {"framers": {}})["framers"].values()) or bool(
                    [s for s in r.sends if s.get("raised")])
                judge(ctx, prog, text, r, kind, [tag, n], info, monitors)
                ctx.case([text, kind, tag, n], nontrivial=live,
                         sample={"program": text, "kind": kind, "crash_point": [tag, n], "exception_out": repr(r.exc),
                                 "sweep": [(s["tasker"], s["control"], s.get("status")) for s in r.sends if s["caller"] == "sweep"]}
                         if len(text) < 1800 else None)
        ticks = list(range(1, nticks + 1))
        if len(ticks) > job["maxticks"]:
            ticks = rng.sample(ticks, job["maxticks"])
        for k in ticks:
            def hook(tick, sk, _k=k):
                if tick == _k:
                    raise KeyboardInterrupt()
            r = runner.run_text(text, maxticks=cap, post=True, tick_hook=hook)
            judge(ctx, prog, text, r, "kbd_tick", ["tick", k], info, monitors)
            ctx.case([text, "kbd_tick", k], nontrivial=True)


def run(ctx):
    n = ctx.pick(40, 400)
    items = [(ctx.rng.randrange(1 << 30), i % len(FEATS)) for i in range(n)]
    extra = [(ctx.rng.randrange(1 << 30), i % len(FEATS)) for i in range(ctx.pick(480, 8000))]
    ctx.shard([{"items": items[i::16], "clean_only": extra[i::16], "maxpoints": ctx.pick(25, 60), "maxticks": ctx.pick(6, 20)}
               for i in range(16)],
              timeout=ctx.pick(300, 1500))
    ctx.floor("crash_exception", 20)
    ctx.floor("crash_kbd_action", 20)
    ctx.floor("crash_kbd_tick", 20)
    ctx.floor("ended_nothing_running", 1)
    ctx.floor("swept_taskers", 100)
    ctx.floor("clean_only_runs", ctx.pick(400, 7000))
    ctx.floor("second_runs_of_one_skedder", ctx.pick(80, 1500))
