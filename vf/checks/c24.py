"""C24 stream transports deliver queued bytes exactly once, in order (engine D).

The real ``Client`` / ``ClientTls`` / ``Incomer`` / ``IncomerTls`` / serial
``Driver`` run on socket (serial server) doubles whose ``send`` results are
scripted.  Every payload byte is unique, so "lost / repeated / reordered" can
be read off the bytes the double accepted:

    after every service call   accepted ++ flatten(txes) == everything queued
                               wire log tx (real WireLog buffer and a recording
                               double) == accepted
                               rxbs == concatenation of the chunks recv handed out
                               wire log rx == the same chunks
    after a cut off            no further send reaches the socket
    after the script is used   the queue drains completely (sends are FULL)
"""
import itertools

from vf.iodoubles import (FULL, ZERO, PARTIAL, ERR, DATA, WOULDBLOCK, WANT_READ, WANT_WRITE,
                          FakeSocket, FakeContext, FakeSerialServer, RecWireLog, UniqueBytes,
                          enum_send_scripts, enum_recv_scripts, item_name, parse_wirelog,
                          client_on_double, incomer_on_double, PEER, NEAR)

LEVEL = "fault_enumeration"
RULE = ("per transport class (Client, ClientTls, Incomer, IncomerTls, serial Driver): every queue of 1..M messages of "
        "1..L unique bytes (queued up front, or one more before each service call) x every send-result sequence over "
        "{full, partial k for every 0<k<len, 0, would-block (EAGAIN; WANT_READ/WANT_WRITE for TLS)} up to D send calls "
        "(quick M,L,D = 2,3,5; thorough 3,4,6; enumerated completely), every recv sequence of D items over {chunk of "
        "1..3 bytes, would-block}, one connection-loss result at every position, plus seeded long random "
        "tx/rx interleavings; random cases also with caller-owned bytearray messages and one message object queued twice, and with `catRxbs` drains between receives; distinct = distinct (class, queue, queueing mode, result sequence); non-trivial = at "
        "least one result that is not 'full' (a re-queue or a blocked read happened)")
RULE = __import__("vf.core", fromlist=["rule_add"]).rule_add(RULE, 'also messages of length 0, raises out of serviceTxes are violations; also clients closed by their owner with messages queued, serviced while closed and connected again')
META = {"engine": "D I/O doubles", "technique": "fault enumeration on socket doubles; byte conservation with unique bytes",
        "level_text": "every send/recv result sequence up to the stated bound is executed on the real classes and "
                      "byte conservation is decided after every service call; longer sequences are sampled",
        "level_note": "trusts the doubles to behave like a non-blocking socket (result <= len(data)); real kernels are "
                      "not involved; sequences beyond the bound are only sampled"}



class Transport(object):
    """Adapter: how to build one connected instance of a transport class on doubles."""
    name = ""
    blocks = (WOULDBLOCK,)
    serial = False

    def make(self):
        raise NotImplementedError

    def cutoff(self, obj):
        return obj.cutoff

    def queue(self, obj, m):
        obj.tx(m)

    def txq(self, obj):
        return obj.txes

    def rxb(self, obj):
        return obj.rxbs


_REAL_WL = []


def _wlogs():
    """one real WireLog(buffify=True) per process; its two in-memory buffers
    are emptied between cases (reopen() costs a strftime per call)"""
    from ioflo.aio.wiring import WireLog
    if not _REAL_WL:
        wl = WireLog(buffify=True)
        wl.reopen()
        _REAL_WL.append(wl)
    wl = _REAL_WL[0]
    for f in (wl.txLog, wl.rxLog):
        f.seek(0)
        f.truncate()
    return wl


class TClient(Transport):
    name = "Client"
    tls = False

    def make(self, wlog):
        obj, fake = client_on_double(tls=self.tls, wlog=wlog)
        return obj, fake, PEER


class TClientShared(TClient):
    """the caller hands the client its own (still empty) transmit queue and receive buffer -- the documented `txes=` /
    `rxbs=` options, as a stack does that shares one receive buffer with its handler -- and works through those"""
    name = "ClientSharedBuffers"
    base = "Client"

    def make(self, wlog):
        import collections
        txes, rxbs = collections.deque(), bytearray()
        obj, fake = client_on_double(tls=self.tls, wlog=wlog, txes=txes, rxbs=rxbs)
        obj._vf_txes, obj._vf_rxbs = txes, rxbs
        return obj, fake, PEER

    def queue(self, obj, m):
        obj._vf_txes.append(m)

    def txq(self, obj):
        return obj._vf_txes

    def rxb(self, obj):
        return obj._vf_rxbs


class TClientTls(TClient):
    name = "ClientTls"
    tls = True
    blocks = (WANT_READ, WANT_WRITE)


class TIncomer(Transport):
    name = "Incomer"
    tls = False

    def make(self, wlog):
        obj, fake = incomer_on_double(tls=self.tls, wlog=wlog)
        return obj, fake, PEER


class TIncomerTls(TIncomer):
    name = "IncomerTls"
    tls = True
    blocks = (WANT_READ, WANT_WRITE)


class TDriver(Transport):
    name = "Driver"
    serial = True
    blocks = ()

    def make(self, wlog):
        from ioflo.aio.serial import serialing
        fake = FakeSerialServer()
        obj = serialing.Driver(name="drv", server=fake)
        return obj, fake, None

    def cutoff(self, obj):
        return False


TRANSPORTS = {t.name: t for t in (TClient(), TClientShared(), TClientTls(), TIncomer(), TIncomerTls(), TDriver())}


def configs(maxm, maxl):
    for m in range(1, maxm + 1):
        for lens in itertools.product(range(1, maxl + 1), repeat=m):
            yield lens


def names(script):
    return [item_name(i) for i in script]


class Wires(object):
    """the real WireLog plus the recording double behind one writeTx/writeRx facade"""

    def __init__(self):
        self.real = _wlogs()
        self.rec = RecWireLog()

    def writeTx(self, da, data):
        self.real.writeTx(da, data)
        self.rec.writeTx(da, data)

    def writeRx(self, sa, data):
        self.real.writeRx(sa, data)
        self.rec.writeRx(sa, data)


def check_tx_state(ctx, T, obj, fake, wires, queued, addr, wit, final=False):
    acc = fake.accepted
    rem = b"".join(bytes(d) for d in T.txq(obj))
    ok = True
    if not queued.startswith(acc):
        ok = ctx.check(False, "%s/tx/accepted-bytes-not-a-prefix-of-queued" % T.name,
                       "%s: bytes accepted by the socket are not the queued bytes in order "
                       "(lost, repeated or reordered)" % T.name, wit(acc, rem))
    else:
        ok = ctx.check(acc + rem == queued, "%s/tx/requeued-remainder-wrong" % T.name,
                       "%s: accepted bytes + what is left in txes != everything queued" % T.name, wit(acc, rem))
    if not T.serial:
        ctx.check(wires.rec.txbytes == acc, "%s/tx/wirelog-differs-from-accepted" % T.name,
                  "%s: wire log tx records differ from the bytes the socket accepted" % T.name,
                  lambda: dict(wit(acc, rem)(), wirelog=[d.hex() for _, d in wires.rec.tx]))
        ctx.check(all(a == addr for a, _ in wires.rec.tx), "%s/tx/wirelog-address" % T.name,
                  "%s: wire log tx record carries a wrong address" % T.name,
                  lambda: {"addresses": [repr(a) for a, _ in wires.rec.tx], "expected": repr(addr)})
        if final:
            recs = parse_wirelog(wires.real.getTx(), b"TX")
            ctx.check(recs is not None and b"".join(d for _, d in recs) == acc
                      and all(a == str(addr) for a, _ in recs),
                      "%s/tx/real-wirelog-buffer-differs" % T.name,
                      "%s: the real WireLog buffer does not parse back to the accepted bytes" % T.name,
                      lambda: {"buffer": repr(wires.real.getTx())[:300], "accepted": acc.hex()})
    return ok


def run_tx_case(ctx, T, lens, stagger, script, rng=None, kind="enum", objects=None):
    """objects: None (immutable bytes, each queued once) or a list describing the message objects the caller queues:
    ("bytes", i) / ("bytearray", i) for the i-th payload, ("again", j) for the very object queued as the j-th one (a
    prebuilt message queued a second time); what counts as queued is each object's content when it is queued"""
    ub = UniqueBytes()
    msgs = [ub.take(n) for n in lens]
    if objects:
        built = []
        for kind_, i in objects:
            built.append(built[i] if kind_ == "again" else (bytearray(msgs[i]) if kind_ == "bytearray" else msgs[i]))
        msgs = built
        ctx.hit("tx_cases_with_mutable_or_repeated_message_objects_%s" % T.name)
    wires = Wires()
    obj, fake, addr = T.make(None if T.serial else wires)
    fake.script("send", script)
    nontrivial = any(i != FULL for i in script)
    ctx.case((T.name, "tx", lens, stagger, names(script), objects), nontrivial=nontrivial)
    queued = b""
    qi = 0
    log = []

    def wit(acc, rem):
        return lambda: {"class": T.name, "message_lengths": list(lens), "queue_mode": "staggered" if stagger else "upfront",
                        "send_results": names(script), "queued": queued.hex(), "accepted": acc.hex(),
                        "left_in_txes": rem.hex(),
                        "send_calls": [(d.hex(), r) for (op, d, r) in fake.log if op == "send"][:40], "steps": log[:40]}

    if not stagger:
        for m in msgs:
            T.queue(obj, m)
            queued += bytes(m)
        qi = len(msgs)
    cap = len(script) + len(msgs) + 3
    calls = 0
    cut_at = None
    while calls < cap:
        if stagger and qi < len(msgs):
            T.queue(obj, msgs[qi])
            queued += bytes(msgs[qi])
            qi += 1
        nsend = fake.calls.get("send", 0)
        mark = len(fake.log)
        try:
            if T.serial and rng is not None and rng.random() < 0.3:
                obj.serviceTxOnce()
                log.append("serviceTxOnce")
            else:
                obj.serviceTxes()
                log.append("serviceTxes")
        except Exception as ex:      # noqa  (the scripts hold send results only: nothing here is an error of the connection)
            from vf.core import exc_key as _ek
            ctx.fail("%s/tx/raises/%s" % (T.name, _ek(ex)), "%s: servicing the transmit queue raised %r on a %s result" % (
                T.name, ex, names(script)[min(len(script) - 1, max(0, fake.calls.get("send", 1) - 1))] if script else "?"),
                wit(fake.accepted, b"".join(bytes(d) for d in T.txq(obj))))
            return
        calls += 1
        ctx.event(fake.calls.get("send", 0) - nsend)
        for (op, d, r) in fake.log[mark:]:
            if op == "send" and isinstance(r, int) and r < len(d):
                ctx.hit("requeue_%s" % T.name)
                if r > 0:
                    ctx.hit("requeue_partial_%s" % T.name)
        if cut_at is not None:
            ctx.check(fake.calls.get("send", 0) == nsend, "%s/tx/send-after-cutoff" % T.name,
                      "%s: send reached the socket after the connection was cut off" % T.name, wit(fake.accepted, b""))
            ctx.hit("cutoff_then_service_%s" % T.name)
        elif T.cutoff(obj):
            cut_at = calls
        if not check_tx_state(ctx, T, obj, fake, wires, queued, addr, wit):
            return
        if cut_at is None and qi == len(msgs) and not T.txq(obj):
            break
        if cut_at is not None and calls >= cut_at + 2:
            break
    if cut_at is None:
        ctx.check(not T.txq(obj) and fake.accepted == queued and qi == len(msgs),
                  "%s/tx/not-drained" % T.name,
                  "%s: queue did not drain although every further send accepted everything" % T.name,
                  wit(fake.accepted, b"".join(bytes(d) for d in T.txq(obj))))
    check_tx_state(ctx, T, obj, fake, wires, queued, addr, wit, final=True)



def run_rx_case(ctx, T, shape, rng=None):
    """shape: list of ('chunk', n) | would-block items"""
    ub = UniqueBytes()
    script = []
    for it in shape:
        if it[0] == "chunk":
            script.append(DATA(ub.take(it[1])))
        else:
            script.append(it)
    wires = Wires()
    obj, fake, addr = T.make(None if T.serial else wires)
    if T.serial:
        sscript = [i if i[0] == "data" else DATA(b"") for i in script]
        fake.script("receive", sscript)
        op = "receive"
    else:
        fake.script("recv", script)
        op = "recv"
    nblocks = sum(1 for i in shape if i[0] != "chunk")
    nchunks = len(shape) - nblocks
    ctx.case((T.name, "rx", [item_name(i) if i[0] != "chunk" else "chunk%d" % i[1] for i in shape]),
             nontrivial=nchunks > 0 and nblocks > 0)
    calls = 0
    log = []
    drained = b""
    while fake.pending(op) and calls < len(shape) + 2:
        before = fake.calls.get(op, 0)
        if rng is not None and rng.random() < 0.3:
            obj.serviceReceiveOnce()
            log.append("serviceReceiveOnce")
        else:
            obj.serviceReceives()
            log.append("serviceReceives")
        calls += 1
        ctx.event(fake.calls.get(op, 0) - before)
        dl = fake.delivered
        if rng is not None and hasattr(obj, "catRxbs") and rng.random() < 0.3:
            # the consumer takes what has arrived so far (`catRxbs`: "return copy and clear"): it gets exactly the bytes
            # not taken before, and the buffer the caller reads -- its own, when it supplied one -- is empty afterwards
            got = bytes(obj.catRxbs())
            log.append("catRxbs")
            ctx.hit("rx_drains_%s" % T.name)
            if not ctx.check(drained + got == dl and not bytes(T.rxb(obj)), "%s/rx/drain-not-exactly-the-new-bytes" % T.name,
                             "%s: catRxbs returned %d bytes, %d were new; receive buffer afterwards holds %d bytes" % (
                                 T.name, len(got), len(dl) - len(drained), len(bytes(T.rxb(obj)))),
                             lambda: {"class": T.name, "delivered": dl.hex(), "taken_before": drained.hex(), "returned": got.hex(),
                                      "buffer_after": bytes(T.rxb(obj)).hex(), "steps": log}):
                return
            drained += got
        wit = lambda: {"class": T.name, "recv_results": [(i[1].hex() if i[0] == "data" else item_name(i)) for i in script],
                       "delivered": dl.hex(), "taken": drained.hex(), "rxbs": bytes(T.rxb(obj)).hex(), "steps": log}
        if not ctx.check(drained + bytes(T.rxb(obj)) == dl, "%s/rx/rxbs-differs-from-received-chunks" % T.name,
                         "%s: rxbs is not the concatenation of the received chunks in arrival order" % T.name, wit):
            return
        if not T.serial:
            ctx.check([d for _, d in wires.rec.rx] == [r for (o, _, r) in fake.log if o == "recv" and isinstance(r, bytes) and r]
                      and all(a == addr for a, _ in wires.rec.rx),
                      "%s/rx/wirelog-differs-from-received" % T.name,
                      "%s: wire log rx records differ from the received chunks" % T.name, wit)
        ctx.check(not T.cutoff(obj), "%s/rx/would-block-cut-off" % T.name,
                  "%s: a would-block read marked the connection cut off" % T.name, wit)
    ctx.check(not fake.pending(op), "%s/rx/not-all-read" % T.name,
              "%s: scripted receive results were not all consumed within the call bound" % T.name,
              lambda: {"left": fake.pending(op), "steps": log})
    if not T.serial:
        recs = parse_wirelog(wires.real.getRx(), b"RX")
        ctx.check(recs is not None and b"".join(d for _, d in recs) == fake.delivered,
                  "%s/rx/real-wirelog-buffer-differs" % T.name,
                  "%s: the real WireLog rx buffer does not parse back to the received bytes" % T.name,
                  lambda: {"buffer": repr(wires.real.getRx())[:300], "delivered": fake.delivered.hex()})
    ctx.hit("rx_chunks_%s" % T.name, nchunks)


def random_case(ctx, T, rng):
    """long random script: mixed tx results, with rx chunks serviced in between"""
    nm = rng.randint(3, 12)
    lens = []
    total = 0
    for _ in range(nm):
        n = rng.randint(1, 24)
        if total + n > 230:
            break
        lens.append(n)
        total += n
    r0 = ctx.subrng("c24empty", T.name, tuple(lens))
    if r0.random() < 0.3:
        # a message without bytes (a keep-alive nobody filled in) alone, first, between or after the others: it leaves the
        # queue like any other and holds nothing up
        for _ in range(r0.choice([1, 1, 2])):
            lens.insert(r0.randint(0, len(lens)), 0)
        ctx.hit("tx_cases_with_an_empty_message_%s" % T.name)
    script = []
    for _ in range(rng.randint(8, 60)):
        r = rng.random()
        if r < 0.3:
            script.append(FULL)
        elif r < 0.7:
            script.append(PARTIAL(rng.randint(1, 23)))
        elif r < 0.8 or not T.blocks:
            script.append(ZERO)
        else:
            script.append(rng.choice(T.blocks))
    if not T.serial and rng.random() < 0.25:
        script.insert(rng.randrange(len(script) + 1), ERR(rng.choice((104, 110, 113))))  # ECONNRESET/ETIMEDOUT/EHOSTUNREACH
    stagger = rng.random() < 0.5
    run_tx_case(ctx, T, tuple(lens), stagger, script, rng=rng, kind="random")
    # the same queue with message objects of the caller's own: bytearrays, and one object queued a second time
    r2 = ctx.subrng("c24obj", T.name, tuple(lens), len(script))
    objects = [(r2.choice(["bytes", "bytearray", "bytearray"]), i) for i in range(len(lens))]
    for _ in range(r2.choice([1, 1, 2])):
        j = r2.randrange(len(objects))
        if objects[j][0] != "again" and sum(lens) + lens[objects[j][1]] <= 250:
            objects.insert(r2.randint(j + 1, len(objects)), ("again", j))
    run_tx_case(ctx, T, tuple(lens), stagger, [i for i in script if i[0] != "errno"], rng=r2, kind="random", objects=objects)
    shape = []
    left = 230
    for _ in range(rng.randint(4, 40)):
        if rng.random() < 0.6 and left > 0:
            n = min(left, rng.randint(1, 16))
            shape.append(("chunk", n))
            left -= n
        else:
            shape.append(rng.choice(T.blocks) if T.blocks else ("block",))
    run_rx_case(ctx, T, shape, rng=rng)


from vf.core import exc_key


def close_reopen_case(ctx, T, lens, when):
    """a client that is closed by its owner with messages still queued, serviced while closed (the owner's loop keeps
    running), then opened and connected again: what was queued is sent once and in order on the sockets, service calls on
    the closed client leave the queue alone.  when: how many messages were serviced before the close."""
    from vf.iodoubles import FakeSocket, NEAR
    ub = UniqueBytes()
    msgs = [ub.take(n) for n in lens]
    wires = Wires()
    obj, fake, addr = T.make(wires)
    ctx.case((T.name, "close-reopen", lens, when), nontrivial=True)
    ctx.hit("close_reopen_cases_%s" % T.name)
    raised = None
    steps = []
    fake2 = None
    try:
        for m in msgs[:when]:
            T.queue(obj, m)
        obj.serviceTxes()
        steps.append("serviced %d" % when)
        for m in msgs[when:]:
            T.queue(obj, m)
        obj.close()
        steps.append("closed")
        for _ in range(2):
            obj.serviceTxes()
            obj.serviceReceives()
        steps.append("serviced while closed")
        left = b"".join(bytes(x) for x in T.txq(obj))
        ctx.check(left == b"".join(msgs[when:]) and not obj.connected,
                  "%s/close/queue-or-connected-flag-wrong-while-closed" % T.name,
                  "%s: after close() (connected=%r) the transmit queue no longer holds exactly the messages not yet sent" % (T.name, obj.connected),
                  lambda: {"class": T.name, "lengths": list(lens), "serviced_before_close": when, "left": left.hex(),
                           "want": b"".join(msgs[when:]).hex(), "connected": obj.connected})
        blocks = WANT_READ if T.tls else WOULDBLOCK
        fake2 = FakeSocket(sockname=NEAR, peername=PEER, defaults={"recv": blocks})
        obj.cs = fake2
        obj.opened = True
        if not obj.connect():
            raise RuntimeError("double did not connect again")
        obj.serviceTxes()
        steps.append("reconnected and serviced")
    except Exception as e:    # noqa
        raised = e
    sent1 = b"".join(d for (op, d, r) in fake.log if op == "send" and isinstance(r, int))
    sent2 = b"".join(d for (op, d, r) in (fake2.log if fake2 is not None else []) if op == "send" and isinstance(r, int))
    ctx.event()
    ctx.check(raised is None and sent1 + sent2 == b"".join(msgs),
              "%s/close-reopen/%s" % (T.name, "raises/" + exc_key(raised) if raised is not None else "bytes-lost-or-repeated"),
              "%s: messages queued around a close() / open / connect are not sent exactly once and in order (%s)" % (
                  T.name, ("raised %r" % (raised,)) if raised is not None else "bytes differ"),
              lambda: {"class": T.name, "lengths": list(lens), "serviced_before_close": when, "steps": steps, "raised": repr(raised),
                       "sent_before_close": sent1.hex(), "sent_after_reconnect": sent2.hex(), "queued": b"".join(msgs).hex()})


def worker(ctx, job):
    T = TRANSPORTS[job["cls"]]
    if job["k"] == 0 and T.name in ("Client", "ClientTls", "ClientSharedBuffers"):
        for lens in ((2,), (1, 2), (2, 1, 3), (3, 3), (1, 1, 1, 1)):
            for when in range(0, len(lens)):
                close_reopen_case(ctx, T, lens, when)
    M, L, D = job["M"], job["L"], job["D"]
    Ms, Ls, Ds = job["Ms"], job["Ls"], job["Ds"]
    K, k = job["K"], job["k"]
    n = 0
    first = None
    # the would-block alphabet of the complete enumeration: EAGAIN for plain
    # sockets, WANT_WRITE for TLS; WANT_READ (same branch in the code, the
    # other spelling) is enumerated together with WANT_WRITE two calls shallower
    main_blocks = T.blocks[-1:]
    for ci, lens in enumerate(configs(M, L)):
        if ci % K != k:
            continue
        plans = [(False, D, main_blocks)]
        if len(lens) > 1 and len(lens) <= Ms and max(lens) <= Ls:
            plans.append((True, Ds, main_blocks))
        if len(T.blocks) > 1:
            plans.append((False, D - 2, T.blocks))
        seen = set()
        for stagger, depth, blocks in plans:
            for script in enum_send_scripts(lens, depth, blocks):
                key = (stagger, tuple(script))
                if key in seen:
                    continue
                seen.add(key)
                run_tx_case(ctx, T, lens, stagger, script)
                n += 1
                if first is None and len(script) >= 3 and any(i[0] == "partial" for i in script):
                    first = {"class": T.name, "message_lengths": list(lens), "send_results": names(script)}
        # one connection loss at every position of a short script
        if not T.serial:
            for pos in range(0, 3):
                for code in (104, 110):
                    script = [PARTIAL(1)] * pos + [ERR(code)]
                    run_tx_case(ctx, T, lens, False, script)
    if first:
        ctx.sample(first)
    if k == 0:
        for shape in enum_recv_scripts(job["RC"], 3, job["RD"], T.blocks or [("block",)]):
            run_rx_case(ctx, T, shape)
    rng = ctx.subrng("c24", T.name, k)
    for i in range(job["R"]):
        random_case(ctx, T, rng)
        ctx.hit("random_cases_%s" % T.name)
    ctx.extra["enumerated_tx_cases"] = {T.name: n}


def run(ctx):
    M, L, D = ctx.pick((2, 3, 5), (3, 4, 6))
    Ms, Ls, Ds = ctx.pick((2, 3, 5), (3, 3, 6))
    K = ctx.pick(3, 12)
    jobs = []
    for name in TRANSPORTS:
        for k in range(K):
            jobs.append({"cls": name, "M": M, "L": L, "D": D, "Ms": Ms, "Ls": Ls, "Ds": Ds, "K": K, "k": k,
                         "RC": ctx.pick(3, 4), "RD": ctx.pick(4, 6), "R": ctx.pick(15, 150)})
    ctx.shard(jobs, timeout=ctx.pick(120, 900))
    ctx.extra["bounds"] = {"upfront": {"max_messages": M, "max_message_length": L, "max_send_calls": D},
                           "staggered": {"max_messages": Ms, "max_message_length": Ls, "max_send_calls": Ds},
                           "tls_both_want_kinds_max_send_calls": D - 2}
    ctx.extra["exhaustive_part"] = "all send-result sequences within bounds, per class and queueing mode"
    for name in TRANSPORTS:
        ctx.floor("requeue_%s" % name, ctx.pick(2000, 100000))
        ctx.floor("requeue_partial_%s" % name, ctx.pick(700, 30000))
        ctx.floor("rx_chunks_%s" % name, ctx.pick(200, 3000))
        ctx.floor("random_cases_%s" % name, ctx.pick(15, 500))
        ctx.floor("tx_cases_with_mutable_or_repeated_message_objects_%s" % name, ctx.pick(15, 500))
        ctx.floor("tx_cases_with_an_empty_message_%s" % name, ctx.pick(5, 150))
        if name != "Driver":
            ctx.floor("rx_drains_%s" % name, ctx.pick(30, 800))
        if name != "Driver":
            ctx.floor("cutoff_then_service_%s" % name, ctx.pick(20, 100))
    ctx.floor("distinct_nontrivial", ctx.pick(10000, 500000))
