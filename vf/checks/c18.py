"""C18 store tree (engine B): Store.add / addNode / change / create / createNode /
fetch / fetchShare / fetchNode against a tree model.

Model: nested ordered dict  segment -> node{children} | share, every entry with
an identity token.  After every step: return value identity, the whole tree
(paths in order, kind, identity, recorded name), rejected => tree unchanged.
"""
from vf import hist
from vf.hist import RET, OK, REJECT, EITHER

LEVEL = "exploration"
RULE = ("operation sequences add / addNode / change / create / createNode / fetch / fetchShare / fetchNode / give a "
        "share a field, over the path alphabet {a, a.b, a.b.c, a.c, b, .a, a., .a.b., a..b, x..z, '', '.', a.value, "
        "a.b.value, a.value.x, time, meta.x, ..a.b..} on a fresh Store: (1) every sequence up to length 3 (quick) / 4 "
        "(thorough) over a core alphabet and up to length 2 over the full alphabet; (2) seeded random sequences of "
        "4..40 operations.  distinct = distinct operation list; non-trivial = at least two operations of which at "
        "least one changed the tree")
RULE = __import__("vf.core", fromlist=["rule_add"]).rule_add(RULE, 'paths in which a segment name occurs at two depths')
META = {"engine": "B history",
        "technique": "runtime monitoring: real Store and an executable tree model stepped together; lookup identity, "
                     "names and the whole tree compared after every step, snapshot equality on rejection",
        "level_text": "bounded-exhaustive short histories plus seeded random long histories over a path alphabet with "
                      "shared prefixes, kind conflicts, empty segments and dotted variants; decides the property only "
                      "for the histories produced",
        "level_note": "trusts the tree model in vf/checks/c18.py; a share's recorded name is compared after stripping "
                      "leading / trailing dots; addNode of an existing node may either return it or be rejected "
                      "(statement silent); several leading / trailing dots are treated like one"}

PATHS = ["a", "a.b", "a.b.c", "a.c", "b", ".a", "a.", ".a.b.", "a..b", "x..z", "", ".", "a.value", "a.b.value",
         "a.value.x", "time", "meta.x", "..a.b.."]
OPS = ["add", "addNode", "change", "create", "createNode", "fetch", "fetchShare", "fetchNode"]


def canonical(path):
    """-> list of segments or None when the path has an empty segment"""
    p = path.strip(".")
    segs = p.split(".")
    if any(s == "" for s in segs):
        return None
    return segs


class MNode(object):
    kind = "node"

    def __init__(self, token):
        self.token = token
        self.children = {}


class MShare(object):
    kind = "share"

    def __init__(self, token):
        self.token = token


class Run(object):
    def __init__(self, spec):
        st = spec.storing
        st.Store.Clear()
        self.storing = st
        self.store = st.Store(stamp=0.0)
        self.tokens = {}          # id(real object) -> token
        self.objs = {}            # token -> real object (keeps it alive, ids stay unique)
        self.next_real = 0
        self.root = MNode(-1)
        self.next_model = 0
        self.scan()
        # the store's own entries
        for seg, kind in (("meta", MNode), ("time", MShare), ("realtime", MShare), ("datetime", MShare)):
            self.root.children[seg] = kind(self.mtoken())

    # ---- tokens
    def mtoken(self):
        t = self.next_model
        self.next_model += 1
        return t

    def rtoken(self, obj):
        t = self.tokens.get(id(obj))
        if t is None:
            t = self.next_real
            self.next_real += 1
            self.tokens[id(obj)] = t
            self.objs[t] = obj
        return t

    def scan(self):
        """walk the real tree (parents first, insertion order); unseen objects get the next tokens"""
        Share, Node = self.storing.Share, self.storing.Node
        out = []

        def walk(node, prefix, depth):
            for seg, child in node.items():
                path = prefix + [seg]
                if isinstance(child, Share):
                    nm = child.name
                    out.append([".".join(path), "share", self.rtoken(child),
                                nm.strip(".") if isinstance(nm, str) else repr(nm)])
                elif isinstance(child, Node):
                    out.append([".".join(path), "node", self.rtoken(child), child.name])
                    if depth < 12:
                        walk(child, path, depth + 1)
                else:
                    out.append([".".join(path), "other:" + type(child).__name__, -1, None])
        walk(self.store.shares, [], 0)
        return out

    # ---- model helpers
    def lookup(self, segs):
        """-> (entry or None, passed_through_share)"""
        cur = self.root
        for i, s in enumerate(segs):
            if cur.kind == "share":
                return None, True
            cur = cur.children.get(s)
            if cur is None:
                return None, False
        return cur, False

    def place(self, segs, leaf_factory, leaf_token=None):
        """create missing nodes along segs[:-1] and put a new leaf; None when impossible"""
        cur = self.root
        for s in segs[:-1]:
            nxt = cur.children.get(s)
            if nxt is not None and nxt.kind == "share":
                return None
            if nxt is None:
                break
            cur = nxt
        # second pass: really create (nothing is created when the walk above failed)
        cur = self.root
        for s in segs[:-1]:
            nxt = cur.children.get(s)
            if nxt is None:
                nxt = MNode(self.mtoken())
                cur.children[s] = nxt
            cur = nxt
        leaf = leaf_factory(leaf_token if leaf_token is not None else self.mtoken())
        cur.children[segs[-1]] = leaf
        return leaf

    def model(self, op):
        n, path = op[0], op[1]
        segs = canonical(path)
        if n == "setfield":
            return OK
        if n in ("add", "change"):
            tok = self.mtoken()          # the harness builds the Share object first
            if len(op) > 2 and op[2] == "nonshare":
                return REJECT
            if segs is None:
                self.note = "empty-segment"
                return REJECT
            if n == "add":
                ent, through = self.lookup(segs)
                parent, pthrough = self.lookup(segs[:-1])
                if ent is not None or through or pthrough or (parent is not None and parent.kind == "share"):
                    return REJECT
                self.place(segs, MShare, tok)
                return RET(["obj", tok])
            ent, through = self.lookup(segs)
            if ent is None or ent.kind != "share":
                return REJECT
            parent, _ = self.lookup(segs[:-1])
            parent.children[segs[-1]] = MShare(tok)
            return RET(["obj", tok])
        if n == "create":
            if segs is None:
                self.note = "empty-segment"
                return REJECT
            ent, through = self.lookup(segs)
            if ent is not None and ent.kind == "share":
                return RET(["obj", ent.token])
            parent, pthrough = self.lookup(segs[:-1])
            if ent is not None or through or pthrough or (parent is not None and parent.kind == "share"):
                if through or pthrough or (parent is not None and parent.kind == "share"):
                    self.note = "through-share"
                return REJECT
            leaf = self.place(segs, MShare)
            return RET(["obj", leaf.token])
        if n in ("addNode", "createNode"):
            if segs is None:
                self.note = "empty-segment"
                return REJECT
            ent, through = self.lookup(segs)
            if ent is not None and ent.kind == "node":
                return RET(["obj", ent.token]) if n == "createNode" else EITHER(["obj", ent.token])
            if ent is not None or through:
                if through:
                    self.note = "through-share"
                return REJECT
            leaf = self.place(segs, MNode)
            return RET(["obj", leaf.token])
        if n in ("fetch", "fetchShare", "fetchNode"):
            if segs is None:
                return RET(None)
            ent, through = self.lookup(segs)
            if through:
                self.note = "through-share"
            if ent is None:
                return RET(None)
            if n == "fetchShare" and ent.kind != "share":
                return RET(None)
            if n == "fetchNode" and ent.kind != "node":
                return RET(None)
            return RET(["obj", ent.token])
        raise ValueError(op)

    # ---- real
    def ret(self, r):
        self.scan()
        if r is None:
            return None
        t = self.tokens.get(id(r))
        if t is None or self.objs.get(t) is not r:
            return ["unknown", type(r).__name__, repr(r)[:60]]
        return ["obj", t]

    def real(self, op):
        n, path = op[0], op[1]
        st, store = self.storing, self.store
        if n == "setfield":
            ent, _ = self.lookup(canonical(path) or ["<none>"])
            if ent is not None and ent.kind == "share":
                self.objs[ent.token].update(value=op[2])
            return None
        if n in ("add", "change"):
            share = st.Share(name=path)
            self.rtoken(share)
            arg = "not a share" if len(op) > 2 and op[2] == "nonshare" else share
            return self.ret(getattr(store, n)(arg))
        return self.ret(getattr(store, n)(path))

    def real_state(self):
        return {"tree": self.scan()}

    def model_state(self):
        out = []

        def walk(node, prefix):
            for seg, child in node.children.items():
                path = ".".join(prefix + [seg])
                out.append([path, child.kind, child.token, path])
                if child.kind == "node":
                    walk(child, prefix + [seg])
        walk(self.root, [])
        return {"tree": out}

    def resync(self):
        raise NotImplementedError


class Spec(object):
    name = "store"
    tag = "st"

    def __init__(self):
        from ioflo.base import storing
        self.storing = storing

    def new(self):
        return Run(self)

    def key(self, div):
        n, kind, note = div["op"][0], div["kind"], div.get("note")
        path = div["op"][1]
        if note == "empty-segment":
            fn = "add" if n in ("add", "create") else "addNode"
            if kind == "reject-state":
                return "Store.%s/nodes-created-before-rejection" % fn
            if kind == "accepted" and n == "add" and path.strip(".") == "":
                return "Store.add/empty-tail-accepted"
        if note == "through-share" and kind in ("return", "raised", "accepted") and \
                n in ("fetch", "fetchShare", "fetchNode", "createNode", "create"):
            return "Store.fetch/descends-into-share-fields"
        return None

    def quarantined(self, op):
        n, path = op[0], op[1]
        if canonical(path) is None and n in ("add", "addNode", "create", "createNode"):
            return True
        return "value" in path and n in ("fetch", "fetchShare", "fetchNode", "createNode", "create")

    def random_op(self, rng):
        r = rng.random()
        path = rng.choice(PATHS[:8]) if r < 0.7 else rng.choice(PATHS)
        n = rng.choice(OPS + ["add", "create", "addNode", "setfield"])
        if int(r * 1e6) % 5 == 0:
            # paths in which a segment name occurs at more than one depth
            path = {"a.b.c": "a.b.a", "a.b": "a.a", "a.c": "b.a.b", ".a.b.": ".b.b.b."}.get(path, path)
        if n == "setfield":
            return [n, rng.choice(["a", "a.b", "b"]), rng.randrange(100)]
        if n in ("add", "change") and rng.random() < 0.03:
            return [n, path, "nonshare"]
        return [n, path]

    def core_alphabet(self):
        return [["add", "a"], ["add", "a.b"], ["add", ".a.b.c"], ["addNode", "a"], ["addNode", "a.b"],
                ["change", "a"], ["change", "a.b"], ["create", "a"], ["create", "a.b."], ["createNode", "a"],
                ["createNode", "a.b"], ["fetch", "a.b"], ["fetchShare", "a"], ["fetchNode", ".a"],
                ["add", "a..b"], ["addNode", "x..z"], ["setfield", "a", 5], ["fetch", "a.value"],
                ["fetchNode", "a.value"]]

    def full_alphabet(self):
        al = [[n, p] for n in OPS for p in PATHS]
        al += [["setfield", "a", 5], ["setfield", "a.b", 6], ["add", "a", "nonshare"], ["change", "a", "nonshare"]]
        return al


def worker(ctx, job):
    spec = Spec()
    rep = hist.Reporter(ctx)
    if job["mode"] == "exh":
        al = spec.core_alphabet() if job["alphabet"] == "core" else spec.full_alphabet()
        n = hist.exhaustive(ctx, rep, spec, al, job["maxlen"], firsts=job["firsts"])
        ctx.hit("exhaustive_sequences", n)
        if job["index"] < 3:
            ctx.sample({"exhaustive_alphabet": job["alphabet"], "size": len(al), "maxlen": job["maxlen"],
                        "first_ops": [al[i] for i in job["firsts"][:3]]})
    else:
        rng = ctx.subrng("c18", job["chunk"])
        hist.random_runs(ctx, rep, spec, job["nseq"], 40, rng)
        ctx.hit("random_sequences", job["nseq"])
    rep.flush()
    oc = ctx.extra.get("op_outcomes", {})
    for n in OPS:
        for what in ("changed", "same", "rejected"):
            v = oc.get("store.%s:%s" % (n, what))
            if v:
                ctx.hit("%s_%s" % (n, what), v)


def run(ctx):
    spec = Spec()
    nc, nf = len(spec.core_alphabet()), len(spec.full_alphabet())
    core_len = ctx.pick(3, 4)
    jobs = []
    for firsts in hist.split(nc, ctx.pick(5, 10)):
        jobs.append({"mode": "exh", "alphabet": "core", "maxlen": core_len, "firsts": firsts})
    for firsts in hist.split(nf, ctx.pick(4, 8)):
        jobs.append({"mode": "exh", "alphabet": "full", "maxlen": 2, "firsts": firsts})
    for chunk in range(ctx.pick(6, 16)):
        jobs.append({"mode": "rnd", "chunk": chunk, "nseq": ctx.pick(1500, 20000)})
    ctx.extra["alphabet_sizes"] = {"core": nc, "full": nf}
    ctx.exhaustive = False
    ctx.extra["exhaustive_part"] = "all sequences of length <= %d over the core alphabet and <= 2 over the full " \
                                   "alphabet (not extended past a divergence)" % core_len
    ctx.shard(jobs, timeout=ctx.pick(120, 1500))
    ctx.floor("exhaustive_sequences", ctx.pick(8000, 60000))
    ctx.floor("random_sequences", ctx.pick(4500, 30000))
    for h in ("add_changed", "add_rejected", "addNode_changed", "change_changed", "change_rejected",
              "create_changed", "create_same", "createNode_changed", "createNode_same", "fetch_same",
              "fetchShare_same", "fetchNode_same"):
        ctx.floor(h, ctx.pick(1000, 8000))
    ctx.floor("steps_rejected", ctx.pick(20000, 150000))
    ctx.floor("distinct_nontrivial", ctx.pick(8000, 60000))
