"""C04 bids and fiats change a tasker's state at its next run, last bid wins (engine A)."""
import random
from fractions import Fraction
from math import ceil

from vf.flo import gen, prog as P

LEVEL = "exploration"
RULE = ("seeded random programs with 2-4 active/inactive framers (some with periods, in front/mid/back orders) and 1-2 slaves whose "
        "frames issue bids of all five kinds (incl. all / me, two bids in a row) and ready/start/run/stop/abort fiats at arbitrary "
        "ticks; every scheduler send is one oracle evaluation plus plans with two or three houses in which a clone (reared at run time or built with `aux .. as`) bids a tasker name that every house has; distinct = distinct program text; non-trivial = at least 3 bids "
        "or fiats executed")
META = {"engine": "A floscript", "technique": "runtime history monitor: control received vs (last bid | self-set desire) table model; "
                                               "icontract post-conditions on the Fiat actions",
        "level_text": "Every control the scheduler sends is compared with a 5x5 control/status desire model updated by the observed bids in "
                      "trace order; every send to a slave must come from a fiat; every fiat's return value (recorded by an icontract "
                      "post-condition bound on the real Fiat classes) must equal 'requested status reached'.",
        "level_note": "Bids are located in the trace by a recorder placed immediately before each bid statement in the same context."}

FEATS = [
    dict(nframers=(2, 4), nframes=(2, 5), p_bids=0.5, p_inactive=0.4, order=True, p_period=0.3, p_stop_bid_mid=0.5, mark_bids=True,
         p_let=0.2, ticks=(8, 16), p_bid_period=0.35),
    dict(nframers=(2, 3), nframes=(2, 5), nslaves=(1, 2), p_fiat=0.6, p_bids=0.3, p_inactive=0.3, order=True, mark_bids=True,
         p_let=0.3, ticks=(8, 16), p_stop_bid_mid=0.3),
]
RUNNINGS = ("started", "running")
FIATLOG = []
# feature set 2 is rewritten by `fiat_sequences`: one master walks through a chain of frames, each issuing one fiat on a
# slave whose first outline is guarded by conditions the driver flips between the fiats (ready now, start later ...)
FEATS.append(dict(nframers=(1, 1), nframes=(3, 7), p_nest=0.2, nslaves=(1, 1), ngo=(0, 0), mark_bids=True, ticks=(10, 20),
                  nplan=(3, 8)))


def fiat_sequences(rng, prog):
    framers = prog["houses"][0]["framers"]
    master = [f for f in framers if f["name"] == "m0"][0]
    slave = [f for f in framers if f["sched"] == "slave"][0]
    names = [f["name"] for f in master["frames"]]
    for d in [f for f in framers if f["name"] == "drv"][0]["frames"]:
        for st in d["stmts"]:
            if st["v"] == "put":          # the driver flips the shares the slave's conditions read
                st["dst"] = rng.choice([".c0", ".c1"])
    kind = None
    for i, fr in enumerate(master["frames"]):
        fr["stmts"] = [st for st in fr["stmts"] if st["v"] == "rec"]
        kind = "start" if kind == "ready" and rng.random() < 0.6 else \
            rng.choice(["ready", "ready", "ready", "start", "start", "run", "stop", "abort"])
        fr["stmts"].append({"v": kind, "who": slave["name"], "ctx": rng.choice(["enter", "enter", "recur", "exit"])})
        far = names[i + 1] if i + 1 < len(names) else names[0]
        fr["stmts"].append(P.go(far, [P.cmp("recurred", ">=", rng.randint(1, 2))]))
    frames = []
    for j in range(rng.randint(1, 3)):
        name = "x%d" % j
        base = "%s.%s" % (slave["name"], name)
        st = [P.rec(base + ".benter", "benter")]
        if j == 0 or rng.random() < 0.5:
            st.append({"v": "let", "needs": [P.cmp(rng.choice([".c0", ".c1"]), rng.choice(["==", "!=", ">="]), rng.randint(0, 2))]})
        st += [P.rec(base + "." + c, c) for c in gen.REC_CTX]
        frames.append(P.frame(name, st, over=("x%d" % (j - 1)) if j else None))
    slave["frames"] = frames
    slave["first"] = None
    if rng.random() < 0.45:
        # a cloned auxiliary in the slave's first outline whose own first frame is guarded: the clone's main frame is fixed for
        # life, yet every ready / start of the slave has to evaluate the clone's entry condition again
        gneed = P.cmp(rng.choice([".c0", ".c1"]), rng.choice(["==", "!=", ">="]), rng.randint(0, 2))
        gm = P.framer("gm", [P.frame("g0", [P.rec("gm.g0.benter", "benter"), {"v": "let", "needs": [gneed]}] +
                                     [P.rec("gm.g0." + c, c) for c in gen.REC_CTX])], sched="moot")
        framers.append(gm)
        host = rng.choice(frames)
        host["stmts"].insert(1, {"v": "aux", "aux": "gm", "as": rng.choice(["mine", "kg"])})
        if rng.random() < 0.5:        # sometimes the clone's guard is the only entry condition of the outline
            for fr in frames:
                fr["stmts"] = [st for st in fr["stmts"] if st["v"] != "let"]


def install_fiat_contracts():
    import icontract
    from ioflo.base import fiating
    from vf.flo import recorder, runner

    class FiatPostBroken(Exception):
        pass
    if getattr(fiating, "_vf_contracts", False):
        return
    for cls, want in ((fiating.FiatReady, "readied"), (fiating.FiatStart, "started"), (fiating.FiatRun, "running"),
                      (fiating.FiatStop, "stopped"), (fiating.FiatAbort, "aborted")):
        def post(self, tasker, result, _want=want, _cls=cls):
            FIATLOG.append({"fiat": _cls.__name__, "tasker": tasker.name, "result": result,
                            "status": runner.STATUS.get(tasker.status, tasker.status), "want": _want,
                            "seq": len(recorder.TRACE)})
            return True
        cls.action = icontract.ensure(post, error=FiatPostBroken)(cls.action)
    fiating._vf_contracts = True


def desire_after(control, before, after, d):
    if control == "run":
        if before in RUNNINGS:
            return d
        if before in ("stopped", "readied"):
            return "start"
        return "abort"
    if control == "ready":
        if before in ("stopped", "readied"):
            return d if after == "readied" else "stop"
        if before in RUNNINGS:
            return d
        return "abort"
    if control == "start":
        if before in ("stopped", "readied"):
            return "run" if after == "started" else "stop"
        if before in RUNNINGS:
            return "run"
        return "abort"
    if control == "stop":
        if before in RUNNINGS:
            return "stop"
        if before in ("stopped", "readied"):
            return d
        return "abort"
    return "abort"


def several_houses_case(rng):
    """A plan with two or three houses, each with its own scheduled framer `w`; in one of them a clone of a moot framer --
    reared at run time, or built with `aux ... as` -- bids `w` after some runs.  The bid is about the `w` of the clone's
    own house, whichever house was built last."""
    nh = rng.choice([2, 2, 3])
    houses = ["h%d" % i for i in range(nh)]
    hx = rng.choice(houses)
    ctl = rng.choice(["stop", "abort", "stop"])
    how = rng.choice(["rear", "rear", "aux-mine", "aux-named"])
    k = rng.randint(1, 5)
    lines = []
    ends = {}
    for h in houses:
        e = rng.choice(["1.0", "1.25", "1.5", "2.0"])
        ends[h] = e
        wfirst = rng.random() < 0.5
        w = ["  framer w be active first work", "    frame work", '      do vf rec with tag "%s.w.recur" at recur' % h, ""]
        lines.append("house %s" % h)
        lines.append("")
        if wfirst:
            lines += w
        if h == hx:
            lines += ["  framer boss be active first setup", "    frame setup"]
            if how == "rear":
                lines.append("      rear stopper as mine be aux in frame hold")
            lines += ["      go next", "    frame hold"]
            if how == "aux-mine":
                lines.append("      aux stopper as mine")
            elif how == "aux-named":
                lines.append("      aux stopper as st")
            lines += ["      go next if elapsed >= %s" % e, "    frame finish",
                      '      do vf rec with tag "end|%s" at enter' % h, "      bid stop all", ""]
            lines += ["  framer stopper be moot first s1", "    frame s1", "      go next if recurred >= %d" % k, "    frame s2",
                      '      do vf rec with tag "bid|%s|w|stopper" at enter' % ctl, "      bid %s w" % ctl, "      go next",
                      "    frame s3", "      done me", ""]
        else:
            lines += ["  framer keeper be active first keep", "    frame keep", "      go next if elapsed >= %s" % e, "    frame kend",
                      '      do vf rec with tag "end|%s" at enter' % h, "      bid stop all", ""]
        if not wfirst:
            lines += w
    return {"text": "\n".join(lines) + "\n", "houses": houses, "hx": hx, "ctl": ctl, "how": how, "last": hx == houses[-1]}


def check_several_houses(ctx, case):
    from vf.flo import runner
    text = case["text"]
    res = runner.run_text(text, maxticks=40)
    if not res.built:
        ctx.inconclusive_case("program with several houses did not build: %s" % (res.build_msgs[-1:],))
        return
    if res.exc is not None:
        ctx.fail("several-houses/run-raised/%s" % type(res.exc).__name__, "run raised %r" % (res.exc,), {"program": text})
        return
    tags = [e["tag"] for e in res.trace]
    bidat = [i for i, t in enumerate(tags) if t.startswith("bid|")]
    if len(bidat) != 1:
        ctx.inconclusive_case("the clone's bid was executed %d times" % len(bidat))
        return
    ctx.hit("several_houses_" + case["how"])
    ctx.hit("clone_bids_in_%s_house" % ("the_last" if case["last"] else "an_earlier"))
    ok = True
    for h in case["houses"]:
        endat = [i for i, t in enumerate(tags) if t == "end|%s" % h]
        sends = [s for s in res.sends if s.get("house") == h and s["tasker"] == "w" and s["caller"] == "run" and s["depth"] == 0]
        ctx.event(len(sends))
        upto = min(endat[0] if endat else len(tags), bidat[0] if h == case["hx"] else len(tags))
        before = [s for s in sends if s["seq"] <= upto]
        got = [s["control"] for s in before]
        exp = ["start"] + ["run"] * (len(got) - 1)
        if got != exp or not got:
            ok = False
            ctx.fail("several-houses/control-without-a-bid-in-its-house",
                     "house %s: w received %s although nothing in its house had bid it anything (the clone of house %s bids %s w)" % (
                         h, got, case["hx"], case["ctl"]), {"program": text, "house": h, "controls": got, "case": {k: v for k, v in case.items() if k != "text"}})
        if h == case["hx"]:
            after = [s for s in sends if s["seq"] > bidat[0]]
            ctx.hit("clone_bid_controls_checked")
            if not after or after[0]["control"] != case["ctl"]:
                ok = False
                ctx.fail("several-houses/clone-bid-not-delivered-to-its-house",
                         "house %s: the clone bid %s w, the next run of this house's w received %s" % (
                             h, case["ctl"], after[0]["control"] if after else "nothing"),
                         {"program": text, "house": h, "controls_after_bid": [s["control"] for s in after],
                          "case": {k: v for k, v in case.items() if k != "text"}})
            else:
                # same tick if w runs later in that tick, else the next tick
                bt = res.trace[bidat[0]]["tick"]
                later = any(s["tick"] == bt and s["seq"] <= bidat[0] for s in sends)     # w already ran in the bid's tick
                want = bt + 1 if later else bt
                if after[0]["tick"] != want:
                    ok = False
                    ctx.fail("several-houses/clone-bid-delivered-at-wrong-tick",
                             "house %s: bid at tick %d, w %s in that tick; control arrived at tick %d, expected %d" % (
                                 h, bt, "had already run" if later else "ran later", after[0]["tick"], want), {"program": text})
    ctx.case(text, nontrivial=True, sample={"program": text, "how": case["how"]} if ctx.hits.get("several_houses_" + case["how"], 0) <= 1 else None)
    if ok:
        ctx.check(True, "ok")


def ready_flip_start_case(rng):
    """a slave (stepped by fiats) or an inactive framer (stepped by bids) is readied, the share its first-frame condition
    reads is written, and it is started: the start evaluates the condition as it is then -- whatever the ready found"""
    via = rng.choice(["fiat", "fiat", "bid"])
    c_ready, c_start = rng.choice([(1, 0), (1, 0), (0, 1), (1, 1), (0, 0)])
    same_tick = rng.random() < 0.5
    L = ["house h", "", "  init .c0 with %d" % c_ready, ""]
    L += ["  framer boss be active first b0", "    frame b0"]
    # (the fiat in the enter context: in its native before-enter context a failing `ready` would refuse the frame itself)
    L += ["      enter", "      ready s0", "      native"] if via == "fiat" else ["      bid ready s0"]
    if same_tick and via == "fiat":
        L += ["      put %d into .c0" % c_start, "      start s0", "      go b3"]
    else:
        L += ["      go next", "    frame b1", "      put %d into .c0" % c_start, "      go next" if via == "fiat" else "      go next if recurred >= 1",
              "    frame b2", "      start s0" if via == "fiat" else "      bid start s0", "      go next"]
    L += ["    frame b3", "      go next if recurred >= 3", "    frame b4", "      bid stop all", ""]
    L += ["  framer s0 be %s first x0" % ("slave" if via == "fiat" else "inactive"), "    frame x0", "      let me if .c0 == 1",
          '      do vf rec with tag "s0.x0.enter" at enter', ""]
    return {"text": "\n".join(L) + "\n", "via": via, "c_ready": c_ready, "c_start": c_start}


def ready_flip_start_check(ctx, rng):
    from vf.flo import runner
    case = ready_flip_start_case(rng)
    res = runner.run_text(case["text"], maxticks=30)
    if not res.built:
        ctx.inconclusive_case("ready / start program did not build: %s" % (res.build_msgs[-2:],))
        return
    ctx.case(case["text"], nontrivial=True)
    if res.exc is not None:
        ctx.fail("ready-then-start/run-raised/%s" % type(res.exc).__name__, "run raised %r" % (res.exc,), {"program": case["text"]})
        return
    sends = [s for s in res.sends if s["tasker"] == "s0"]
    starts = [s for s in sends if s["control"] == "start"]
    readies = [s for s in sends if s["control"] == "ready"]
    ctx.event(len(sends))
    if not starts or not readies:
        ctx.inconclusive_case("the slave / inactive framer did not receive both controls: %s" % [(s["control"], s.get("status")) for s in sends])
        return
    ctx.hit("ready_then_start_cases")
    entered = any(e["tag"] == "s0.x0.enter" for e in res.trace)
    want = "started" if case["c_start"] == 1 else "stopped"
    if case["c_ready"] == 1 and case["c_start"] == 0:
        ctx.hit("starts_with_false_condition_after_successful_ready")
    if case["c_ready"] == 0 and case["c_start"] == 1:
        ctx.hit("starts_with_true_condition_after_failed_ready")
    got_ready = readies[0].get("status")
    ctx.check(got_ready == ("readied" if case["c_ready"] == 1 else "stopped"), "ready-then-start/ready-result",
              "ready with the first-frame condition %s left the tasker %s" % (bool(case["c_ready"]), got_ready), lambda: {"program": case["text"]})
    ctx.check(starts[0].get("status") == want and entered == (want == "started"),
              "first-frame-condition-%s-but-%s" % ("false" if want == "stopped" else "true", "started" if want == "stopped" else "not-started"),
              "start (by %s) after a ready that %s, first-frame condition now %s: status %s, first frame entered: %s" % (
                  case["via"], "succeeded" if case["c_ready"] else "failed", bool(case["c_start"]), starts[0].get("status"), entered),
              lambda: {"program": case["text"], "sends": [(s["tick"], s["control"], s.get("status")) for s in sends]})


def worker(ctx, job):
    from vf.flo import runner, monitors
    install_fiat_contracts()
    for seed in job.get("rfs", []):
        ready_flip_start_check(ctx, random.Random(seed))
    for seed in job.get("houses", []):
        check_several_houses(ctx, several_houses_case(random.Random(seed)))
    for seed, fi in job["items"]:
        rng = random.Random(seed)
        prog = gen.gen_program(rng, gen.pickfeat(FEATS, fi))
        if fi % len(FEATS) == 2:
            fiat_sequences(rng, prog)
        text = P.render(prog)
        del FIATLOG[:]
        res = runner.run_text(text, maxticks=prog["ticks"] + 14, post=True, watch=gen.WATCH)
        if not res.built:
            ctx.inconclusive_case("generated program did not build: %s" % (res.build_msgs[-1:],))
            continue
        if res.exc is not None:
            ctx.fail("run-raised/%s" % type(res.exc).__name__, "run raised %r" % (res.exc,), {"program": text})
            continue
        info = monitors.Info(prog)
        wit = lambda extra=None: {"program": text, "detail": extra}
        taskables = [n for n, sc in info.sched.items() if sc in ("active", "inactive")]
        slaves = [n for n, sc in info.sched.items() if sc == "slave"]
        # ---- events per target
        ev = {n: [] for n in taskables}
        nb = 0
        for i, e in enumerate(res.trace):
            if e["tag"].startswith("bid|"):
                _, ctl, who, src = e["tag"].split("|")[:4]
                at = (e["tag"].split("|") + [None])[4]
                targets = taskables if who == "all" else [src if who == "me" else who]
                for t in targets:
                    if t in ev:
                        ev[t].append((i + 0.5, "bid", ctl, src, at))
                if at is not None:
                    ctx.hit("bids_with_period")
                nb += 1
                ctx.hit("bid_" + ctl)
        status = {n: "stopped" for n in info.sched}
        for s in res.sends:
            ctx.event()
            n = s["tasker"]
            # a start (or ready) from stopped / readied evaluates the first-frame conditions *now*: with the shares as
            # they are when the control arrives -- whatever an earlier ready found
            if n in info.S and s["control"] in ("start", "ready") and status.get(n) in ("stopped", "readied") \
                    and "status" in s and s.get("pre") is not None:
                S = info.S[n]
                firsts = S.outline(S.first)
                needs = [nd for f in firsts for nd in info.guarded.get((n, f), [])]
                for f in firsts:          # entry conditions of the first outline of every cloned aux in these frames
                    for st in S.frames[f]["stmts"]:
                        if st["v"] == "aux" and st.get("as") and st["aux"] in info.S:
                            M = info.S[st["aux"]]
                            needs += [nd for g in M.outline(M.first) for nd in info.guarded.get((st["aux"], g), [])]
                            ctx.hit("starts_through_a_guarded_clone")
                plain_auxes = [a for f in firsts for a in info.plain.get((n, f), [])]
                verdict = monitors.eval_let(needs, s["pre"]) if needs else True
                if verdict is False:
                    ctx.hit("starts_with_false_first_frame_condition")
                    if status.get(n) == "readied":
                        ctx.hit("starts_with_false_condition_after_successful_ready")
                    ents = [e for e in res.trace[s["seq"]:s.get("seq_end", s["seq"])] if e["framer"] == n and e["ctx"] == "enter"]
                    ctx.check(s["status"] == "stopped" and not ents, "first-frame-condition-false-but-%s" % (
                        "started" if s["control"] == "start" else "readied"),
                              "tick %d: %s received %s while a first-frame condition is false, yet became %s (entered %s)" % (
                                  s["tick"], n, s["control"], s["status"], [e["frame"] for e in ents]),
                              lambda: wit({"send": {k: s[k] for k in ("tick", "tasker", "control", "status")}, "shares": s["pre"],
                                           "needs": needs, "status_before": status.get(n)}))
                elif verdict is True and not plain_auxes and not any(
                        st["v"] not in ("rec", "let") and (st.get("ctx") or P.NATIVE_CTX.get(st["v"])) == "benter"
                        for f in firsts for st in S.frames[f]["stmts"]):
                    # (other before-enter actions, e.g. a `ready` fiat whose result is falsy, may also refuse the entry)
                    ctx.hit("starts_with_true_first_frame_condition")
                    want = "started" if s["control"] == "start" else "readied"
                    ctx.check(s["status"] == want, "first-frame-condition-true-but-not-%s" % want,
                              "tick %d: %s received %s with every first-frame condition true, yet is %s" % (
                                  s["tick"], n, s["control"], s["status"]),
                              lambda: wit({"send": {k: s[k] for k in ("tick", "tasker", "control", "status")}, "shares": s["pre"],
                                           "needs": needs, "status_before": status.get(n)}))
            if "status" in s:
                status[n] = s["status"]
            if n in slaves:
                ctx.hit("slave_sends")
                ctx.check(s["depth"] > 0, "slave-run-by-scheduler",
                          "slave %s was sent %s by the scheduler itself (tick %d)" % (n, s["control"], s["tick"]), lambda: wit(s))
                if s["control"] == "start" and s.get("status") == "stopped":
                    ctx.hit("failed_starts")
                    ents = [e for e in res.trace[s["seq"]:s.get("seq_end", s["seq"])] if e["framer"] == n and e["ctx"] == "enter"]
                    ctx.check(not ents, "failed-start-entered-frames", "slave %s start left it stopped but entered %s" % (
                        n, [e["frame"] for e in ents]), lambda: wit(s))
                continue
            if n not in ev or s["caller"] != "run" or s["depth"] != 0 or "seq_end" not in s:
                continue
            ev[n].append((s["seq"], "run", s))
            if s["control"] == "abort":
                ev[n].append((s["seq_end"] - 0.25, "aborted-end", None))
        Ptick = Fraction(prog.get("period", "0.125"))
        periods = {fr["name"]: Fraction(fr.get("period") or "0") for fr in prog["houses"][0]["framers"]}
        for n in taskables:
            d = "start" if info.sched[n] == "active" else "stop"
            before = "stopped"
            last_bid = None
            bids_since = 0
            # when the control arrives: the ideal schedule of the statement of C02 -- first run at tick 0, then each run at the
            # first tick at or after (sum of the periods in force at the reschedules so far); a bid's `at` period is in force
            # from the reschedule after the target's next run
            period, due, prev_tick = periods.get(n, Fraction(0)), Fraction(0), None
            atbids = sorted((x[0], Fraction(x[4])) for x in ev[n] if x[1] == "bid" and x[4] is not None)
            nat = 0
            for item in sorted(ev[n], key=lambda x: x[0]):
                if item[1] == "bid":
                    d = item[2]
                    last_bid = item
                    bids_since += 1
                elif item[1] == "aborted-end":
                    d = "abort"
                else:
                    s = item[2]
                    ctx.hit("controls_checked")
                    if bids_since >= 2:
                        ctx.hit("two_bids_before_run")
                    if last_bid is not None and bids_since:
                        ctx.hit("bid_decided_control")
                    ctx.check(s["control"] == d, "control-not-last-bid-or-desire",
                              "tick %d: %s received %s; most recent bid / self-set desire says %s (last bid %s)" % (
                                  s["tick"], n, s["control"], d, last_bid),
                              lambda: wit({"tasker": n, "tick": s["tick"], "received": s["control"], "expected": d,
                                           "last_bid": last_bid}))
                    need = int(ceil(due / Ptick)) if due > 0 else 0
                    exp_tick = need if prev_tick is None else max(prev_tick + 1, need)
                    ctx.check(s["tick"] == exp_tick, "control-not-delivered-at-next-due-tick",
                              "%s (period %s) received %s at tick %d, its next due tick is %d" % (n, float(period), s["control"], s["tick"], exp_tick),
                              lambda: wit({"tasker": n, "tick": s["tick"], "due_tick": exp_tick, "period_in_force": float(period),
                                           "last_bid": last_bid}))
                    # the skedder reads the period right after the run returns: every `at` bid executed before that instant
                    # (also one the tasker makes on itself during this very run) is in force for this reschedule
                    while nat < len(atbids) and atbids[nat][0] < s["seq_end"]:
                        period = atbids[nat][1]
                        nat += 1
                    due, prev_tick = due + period, s["tick"]
                    d = desire_after(s["control"], before, s.get("status"), s["control"])
                    if s["control"] == "start" and before in ("stopped", "readied") and s.get("status") == "stopped":
                        ctx.hit("failed_starts")
                    before = s.get("status")
                    bids_since = 0
        # ---- fiats
        for f in FIATLOG:
            ctx.hit("fiat_" + f["fiat"])
            ctx.check(f["result"] == (f["status"] == f["want"]), "fiat-return-not-state-reached",
                      "%s on %s returned %r while its status afterwards is %s" % (f["fiat"], f["tasker"], f["result"], f["status"]),
                      lambda: wit(f))
        ctx.case(text, nontrivial=(nb + len(FIATLOG)) >= 3,
                 sample={"program": text, "bids": nb, "fiats": len(FIATLOG)} if nb + len(FIATLOG) >= 3 and len(text) < 2200 else None)


def run(ctx):
    n = ctx.pick(400, 24000)
    items = [(ctx.rng.randrange(1 << 30), i % gen.nfeats(FEATS, ctx)) for i in range(n)]
    hs = [ctx.rng.randrange(1 << 30) for _ in range(ctx.pick(96, 3000))]
    rfs = [ctx.rng.randrange(1 << 30) for _ in range(ctx.pick(160, 4000))]
    ctx.shard([{"items": items[i::16], "houses": hs[i::16], "rfs": rfs[i::16]} for i in range(16)], timeout=ctx.pick(300, 1500))
    ctx.floor("ready_then_start_cases", ctx.pick(100, 2500))
    ctx.floor("clone_bid_controls_checked", 40)
    ctx.floor("clone_bids_in_an_earlier_house", 15)
    ctx.floor("several_houses_rear", 15)
    for k in ("stop", "start", "run", "abort", "ready"):
        ctx.floor("bid_" + k, 10)
    for k in ("FiatReady", "FiatStart", "FiatRun", "FiatStop", "FiatAbort"):
        ctx.floor("fiat_" + k, 10)
    ctx.floor("two_bids_before_run", 10)
    ctx.floor("failed_starts", 5)
    ctx.floor("starts_with_false_first_frame_condition", 30)
    ctx.floor("starts_with_false_condition_after_successful_ready", 30)
    ctx.floor("starts_with_true_first_frame_condition", 100)
    ctx.floor("controls_checked", 2000)
    ctx.floor("bids_with_period", 20)
    ctx.floor("starts_through_a_guarded_clone", 30)
    ctx.floor("slave_sends", 100)
