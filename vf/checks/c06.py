"""C06 frame enter and exit actions are properly bracketed and ordered (engine A)."""
import random

from vf.flo import gen, prog as P

LEVEL = "exploration"
RULE = ("seeded random programs (frame forests; transitions to self / ancestor / descendant / sibling subtree / other tree; plain "
        "and conditional auxiliaries; stop/abort/start bids; slaves stepped by fiats) with a recorder in the enter, exit, "
        "renter, rexit contexts of every frame; plus Framer.ExEn called directly on all (current outline, target) pairs of every "
        "generated forest; every program with a singly used auxiliary framer is also run with that framer turned into a clone of a moot framer (gen.cloneify); distinct = distinct program text; non-trivial = at least 3 transitions / starts / stops observed")
RULE = __import__("vf.core", fromlist=["rule_add"]).rule_add(RULE, 'also clones reared into a frame and razed while it is active (enter / recur / precur context), with or without their own `done me` before')
META = {"engine": "A floscript", "technique": "trace automaton (bracketing) + per-run expected action list from the AST outline difference",
        "level_text": "Per frame a two-state enter/exit automaton over the whole run; at every tick boundary the entered set is compared with "
                      "the full outlines of running framers and active auxiliaries; for every run of a scheduled/slave framer the exact list "
                      "of exit, rexit, renter, enter events is compared with the list derived from the AST; ExEn itself is compared on all "
                      "outline/target pairs.",
        "level_note": "Order inside auxiliary framers is checked through bracketing and boundary sets only (their runs are nested in the main framer's)."}

FEATS = [
    dict(p_under=0.4, p_nest=0.65, nframes=(3, 8), p_stop_bid_mid=0.5, p_bids=0.2, p_inactive=0.2, ngo=(1, 2)),
    dict(p_under=0.4, p_nest=0.7, nframes=(3, 8), p_aux=0.4, naux=(1, 3), p_stop_bid_mid=0.4, ngo=(1, 2), p_let=0.1),
    dict(p_under=0.4, p_nest=0.7, nframes=(3, 8), p_aux=0.3, naux=(2, 4), p_condaux=0.6, p_stop_bid_mid=0.5, ngo=(0, 2)),
    dict(p_under=0.3, p_nest=0.6, nframes=(3, 6), nslaves=(1, 2), p_fiat=0.5, p_bids=0.3, p_stop_bid_mid=0.3, ngo=(1, 2)),
]


def exen_pairs(ctx, prog, res):
    """Framer.ExEn on the built frame objects for all (outline of frame a, target b) pairs"""
    from ioflo.base import framing
    house = res.skedder.houses[0]
    from ioflo.base.globaling import MOOT
    alias = getattr(res, "alias", None) or {}
    for fr in house.framers:
        if alias and fr.schedule == MOOT:
            continue          # the moot's own links stay unresolved; its clone is checked under the moot's name
        S = P.Static([f for f in prog["houses"][0]["framers"] if f["name"] == alias.get(fr.name, fr.name)][0])
        objs = dict(fr.frameNames)
        for a in S.order:
            nears = [objs[n] for n in S.outline(a)]
            for b in S.order:
                ex, en, rx = framing.Framer.ExEn(nears, objs[b])
                got = ([f.name for f in ex], [f.name for f in en], [f.name for f in rx])
                exp = tuple(S.exen(S.outline(a), b))
                ctx.hit("exen_pairs")
                ctx.check(got == tuple(exp), "ExEn-differs-from-outline-difference",
                          "ExEn(outline(%s), %s) = %s, expected %s" % (a, b, got, exp),
                          lambda: {"framer": fr.name, "from": a, "to": b, "got": got, "expected": exp,
                                   "outline_from": S.outline(a), "outline_to": S.outline(b)})


def razed_clone_case(rng):
    """A moot framer reared as insular clone(s) into frame b of the main framer and razed while b is still active (raze
    in the enter / recur / renter context of b or of a frame above it, not in the default exit context where the frame's
    auxiliaries have been exited already), with or without a `done me` of the clone before the raze.  A razed clone is
    no auxiliary of any frame any more, so none of its frames may stay entered."""
    depth = rng.randint(1, 3)
    names = ["x", "y", "z"][:depth]
    done_at = rng.choice([None, None, ("x", "enter"), ("x", "recur"), (names[-1], "enter"), (names[-1], "recur")])
    hop = depth == 1 and rng.random() < 0.4       # a second top frame the clone moves to before it is done / razed
    lines = ["house h", "  framer main be active first a", "    frame top", "    frame a in top"]
    nclones = rng.choice([1, 1, 2])
    for k in range(nclones):
        lines.append("      rear mo %sin frame b" % rng.choice(["as mine be aux ", "", "be aux "]) if k == 0
                     else "      rear mo in frame b")
    lines += ["      go b", "    frame b in top"]
    for c in ("enter", "exit"):
        lines.append('      do vf rec with tag "main.b.%s" at %s' % (c, c))
    raze_in = rng.choice(["b", "b", "top"])
    raze_ctx = rng.choice(["recur", "recur", "enter", "precur"])
    who = rng.choice(["all", "all", "first", "last"])
    raze = ["      %s" % raze_ctx, "      raze %s%s" % (who, rng.choice(["", " in frame b"]) if raze_in == "b" else " in frame b"), "      native"]
    wait = rng.randint(1, 4)
    if raze_in == "b":
        lines += raze
    lines += ["      go c if recurred >= %d" % (wait + rng.randint(1, 3)), "    frame c", "      bid stop all"]
    if raze_in == "top":
        # the raze stands in the frame above and waits for a while (a conditional razer: `raze` runs when .go is set)
        i = lines.index("    frame top")
        lines[i + 1:i + 1] = ["      %s" % raze_ctx, "      raze %s in frame b" % who, "      native"]
    lines += ["  framer mo be moot first x"]
    for i, n in enumerate(names):
        lines.append("    frame %s%s" % (n, (" in %s" % names[i - 1]) if i else ""))
        for c in ("enter", "exit"):
            lines.append('      do vf rec with tag "mo.%s.%s" at %s' % (n, c, c))
        if done_at and done_at[0] == n:
            lines += ["      %s" % done_at[1], "      done me", "      native"]
        if hop and n == "x":
            lines.append("      go w if recurred >= 1")
    if hop:
        lines += ["    frame w"] + ['      do vf rec with tag "mo.w.%s" at %s' % (c, c) for c in ("enter", "exit")]
        if rng.random() < 0.5:
            lines.append("      done me")
    return {"text": "\n".join(lines) + "\n", "done_at": done_at, "raze_ctx": raze_ctx, "raze_in": raze_in, "who": who,
            "nclones": nclones, "depth": depth}


def razed_clone_check(ctx, case):
    from vf.flo import runner
    res = runner.run_text(case["text"], maxticks=40)
    if not res.built:
        ctx.inconclusive_case("razed clone program did not build: %s" % (res.build_msgs[-1:],))
        return
    if res.exc is not None:
        ctx.fail("razed-clone/run-raised/%s" % type(res.exc).__name__, "run raised %r" % (res.exc,), {"program": case["text"]})
        return
    ctx.event(len(res.trace))
    state = {}
    order_ok = True
    for e in res.trace:
        if e["ctx"] not in ("enter", "exit"):
            continue
        k = (e["framer"], e["frame"])
        was = state.get(k, False)
        if (e["ctx"] == "enter") == was:
            order_ok = False
        state[k] = e["ctx"] == "enter"
    clones = sorted(set(k[0] for k in state if k[0] != "main"))
    left = sorted("%s.%s" % k for k, v in state.items() if v)
    ctx.case(case["text"], nontrivial=bool(clones), sample=None)
    ctx.hit("razed_clone_histories")
    if case["done_at"] and clones:
        ctx.hit("razed_clone_histories_with_a_done_clone")
    ctx.check(order_ok, "razed-clone/enter-exit-do-not-alternate", "enter and exit actions of a frame do not alternate",
              lambda: {"program": case["text"], "trace": [(e["tick"], e["framer"], e["frame"], e["ctx"]) for e in res.trace]})
    ctx.check(not left, "razed-clone/frames-still-entered-after-the-run" + ("/clone-was-done" if case["done_at"] else ""),
              "after the run ended (stop, final sweep) these frames were entered and never exited: %s" % left,
              lambda: {"program": case["text"], "left_entered": left, "case": {k: v for k, v in case.items() if k != "text"},
                       "trace": [(e["tick"], e["framer"], e["frame"], e["ctx"]) for e in res.trace]})


def worker(ctx, job):
    from vf.flo import runner, monitors
    for seed in job.get("razed", []):
        razed_clone_check(ctx, razed_clone_case(random.Random(seed)))
    # "a transition first runs its transit actions, then exits": transitions guarded by `is changed` / `is updated`
    # out of frames whose exit action writes the watched share -- the marker rule model of the C20 check decides (a
    # snapshot taken after the exit action instead of before it shows as a later change that is not seen)
    from vf.checks import c20
    for case in job.get("transit", []):
        nf = len(ctx.fails)
        c20.check_case(ctx, case)
        for f in ctx.fails[nf:]:
            f["key"] = "transit-before-exit/" + f["key"]
        for k in list(ctx.fail_counts):
            if k.startswith("marker-condition/"):
                ctx.fail_counts["transit-before-exit/" + k] = ctx.fail_counts.get("transit-before-exit/" + k, 0) + ctx.fail_counts.pop(k)
    variants = []
    for seed, fi in job["items"]:
        rng = random.Random(seed)
        prog = gen.gen_program(rng, gen.pickfeat(FEATS, fi))
        variants.append((prog, None))
        # the same program with auxiliary framers turned into clones of moot framers (frames and action lists copied by
        # Frame.clone): monitored under the names of the framers they stand for
        p2, alias = gen.cloneify(prog, random.Random(seed ^ 0x5EED))
        if alias:
            variants.append((prog, (p2, alias)))
    for prog, cloned in variants:
        text = P.render(cloned[0] if cloned else prog)
        res = runner.run_text(text, maxticks=prog["ticks"] + 12, post=True, alias=cloned[1] if cloned else None)
        if cloned:
            ctx.hit("cloned_aux_variants")
        if not res.built:
            ctx.inconclusive_case("generated program did not build: %s" % (res.build_msgs[-1:],))
            continue
        if res.exc is not None:
            ctx.fail("run-raised/%s" % type(res.exc).__name__, "run raised %r" % (res.exc,), {"program": text})
            continue
        info = monitors.Info(prog)
        nf = len(ctx.fails)
        before = sum(v for k, v in ctx.hits.items() if k.startswith("trans_"))
        monitors.bracket_monitor(ctx, info, res)
        monitors.transition_order_monitor(ctx, info, res)
        exen_pairs(ctx, prog, res)
        n = sum(v for k, v in ctx.hits.items() if k.startswith("trans_")) - before
        for f in ctx.fails[nf:]:
            if isinstance(f.get("witness"), dict):
                f["witness"]["program"] = text
        ctx.case(text, nontrivial=n >= 3, sample={"program": text, "transitions_checked": n} if n >= 3 and len(text) < 2500 else None)


def run(ctx):
    n = ctx.pick(500, 30000)
    items = [(ctx.rng.randrange(1 << 30), i % gen.nfeats(FEATS, ctx)) for i in range(n)]
    from vf.checks import c20
    opts = c20.need_opts()
    transit = [c20.random_case(ctx.rng, opts, exitwrites=True) for _ in range(ctx.pick(480, 9600))]
    razed = [ctx.rng.randrange(1 << 30) for _ in range(ctx.pick(320, 8000))]
    ctx.shard([{"items": items[i::16], "transit": transit[i::16], "razed": razed[i::16]} for i in range(16)],
              timeout=ctx.pick(300, 1500))
    ctx.floor("razed_clone_histories", 200)
    ctx.floor("razed_clone_histories_with_a_done_clone", 60)
    ctx.floor("exit_writes", 200)
    for k in ("self", "ancestor", "descendant", "same_tree", "other_tree", "start", "stop_abort"):
        ctx.floor("trans_" + k, 10)
    ctx.floor("boundaries_checked", 1000)
    ctx.floor("exen_pairs", 5000)
