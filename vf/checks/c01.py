"""C01 every module imports cold, in any order (engine G).

One fresh interpreter per case.  The child script records which stdlib
modules were loaded *before* the import (proof of coldness) and, through
``sys.addaudithook``, the order in which ioflo modules were imported.
"""
import json
import os
import subprocess

from vf.core import PY, REPO, NCPU, child_env, canon

LEVEL = "exploration"
NEEDS_IOFLO = False
RULE = ("every library module under ioflo/ (not in a sub-package test dir, not _test*) imported alone in a fresh "
        "interpreter with and without -S; plus random import orders of 6-12 modules compared with each module's "
        "namespace when imported alone; distinct = distinct (module, flags) or distinct order; non-trivial = "
        "interpreter verified cold (collections.abc not loaded before the import)")
META = {"engine": "G import", "technique": "one fresh interpreter per module / per import order; exit status, sys.modules cold-precondition and audit-hook import log observed",
        "level_text": "every library module is imported alone in a fresh interpreter (with and without -S) and random orders of module sets are imported in fresh interpreters; the set of modules is recomputed from the tree on every run (exhaustive over modules)",
        "level_note": "trusts the interpreter's import machinery; third-party dependencies are those installed in /venv"}

CHILD = r'''
import sys, json
repo, mods = sys.argv[1], sys.argv[2:]
sys.path.insert(0, repo)
order = []
def hook(ev, args):
    if ev == "import" and args and isinstance(args[0], str) and args[0].startswith("ioflo"):
        order.append(args[0])
sys.addaudithook(hook)
pre = sorted(m for m in ("collections.abc", "os.path", "email.parser", "json", "ioflo") if m in sys.modules)
cold = "collections.abc" not in sys.modules and not any(m.startswith("ioflo") for m in sys.modules)
out = {"pre": pre, "cold": cold, "results": []}
import importlib
for m in mods:
    try:
        mod = importlib.import_module(m)
        names = sorted(n for n, v in vars(mod).items() if not n.startswith("_") and type(v) is not type(sys))
        f = getattr(mod, "__file__", "") or ""
        out["results"].append({"mod": m, "ok": True, "names": names, "file": f})
    except BaseException as e:
        import traceback
        tb = traceback.extract_tb(e.__traceback__)
        inner = [fr for fr in tb if "/ioflo/" in fr.filename]
        where = ("%s:%s" % (inner[-1].filename.split("/ioflo/")[-1], " ".join((inner[-1].line or "").split()))) if inner else "?"
        out["results"].append({"mod": m, "ok": False, "err": type(e).__name__, "msg": str(e)[:200], "where": where})
out["order"] = order[:400]
sys.stdout.write("\n@@RESULT@@" + json.dumps(out))
'''


def list_modules():
    lib, tests = [], []
    root = os.path.join(REPO, "ioflo")
    for dp, dns, fns in os.walk(root):
        dns[:] = sorted(d for d in dns if d != "__pycache__")
        rel = os.path.relpath(dp, REPO)
        parts = rel.split(os.sep)
        for fn in sorted(fns):
            if not fn.endswith(".py"):
                continue
            name = ".".join(parts + ([] if fn == "__init__.py" else [fn[:-3]]))
            in_test = ("test" in parts[2:]) or fn.startswith("_test") or fn.startswith("test_")
            (tests if in_test else lib).append(name)
    return lib, tests


def run_child(mods, flags=()):
    cmd = [PY, "-B"] + list(flags) + ["-c", CHILD, REPO] + list(mods)
    env = child_env()
    env.pop("PYTHONPATH", None)       # nothing pre-imported, nothing on the path but the repo
    try:
        p = subprocess.run(cmd, env=env, cwd="/", capture_output=True, text=True, timeout=120)
    except subprocess.TimeoutExpired:
        return None, "timeout"
    if "@@RESULT@@" not in p.stdout:
        return None, "rc=%s stderr=%s" % (p.returncode, p.stderr[-400:])
    return json.loads(p.stdout.split("@@RESULT@@", 1)[1]), None


def run(ctx):
    from concurrent.futures import ThreadPoolExecutor
    lib, tests = list_modules()
    ctx.extra["library_modules"] = len(lib)
    ctx.extra["test_modules_secondary"] = len(tests)
    ctx.exhaustive = True

    # (1) each module alone, with and without -S
    jobs = [(m, fl) for m in lib for fl in ((), ("-S",))]
    alone = {}
    with ThreadPoolExecutor(NCPU) as ex:
        outs = list(ex.map(lambda j: run_child([j[0]], j[1]), jobs))
    for (m, fl), (out, err) in zip(jobs, outs):
        if out is None:
            ctx.inconclusive_case("child for %s failed: %s" % (m, err))
            continue
        ctx.case((m, fl), nontrivial=out["cold"])
        ctx.event(len(out["order"]))
        if not out["cold"]:
            ctx.inconclusive_case("interpreter not cold for %s: %s" % (m, out["pre"]))
            continue
        r = out["results"][0]
        ctx.hit("alone_imports")
        if r["ok"] and not os.path.realpath(r["file"]).startswith(os.path.realpath(REPO)):
            ctx.inconclusive_case("%s imported from %s" % (m, r["file"]))
        ctx.check(r["ok"], "cold-import/%s@%s" % (r.get("err"), r.get("where")),
                  "import %s in a fresh interpreter%s fails: %s: %s" % (m, " -S" if fl else "", r.get("err"), r.get("msg")),
                  {"module": m, "flags": fl, "result": r, "preloaded": out["pre"]})
        if r["ok"] and not fl:
            alone[m] = r["names"]
    if lib:
        ctx.sample({"module": lib[0], "alone_import_order_seen_by_audit_hook": (outs[0][0] or {}).get("order", [])[:8]})

    # (2) random orders
    norders = ctx.pick(16, 200)
    orders = []
    for i in range(norders):
        k = ctx.rng.randint(6, 12)
        orders.append(ctx.rng.sample(lib, min(k, len(lib))))
    with ThreadPoolExecutor(NCPU) as ex:
        outs = list(ex.map(lambda o: run_child(o), orders))
    seen_orders = set()
    for o, (out, err) in zip(orders, outs):
        if out is None:
            ctx.inconclusive_case("order child failed: %s" % err)
            continue
        ctx.case(("order", o), nontrivial=out["cold"])
        seen_orders.add(canon(out["order"][:50]))
        ctx.event(len(out["order"]))
        for r in out["results"]:
            if not ctx.check(r["ok"], "cold-import/%s@%s" % (r.get("err"), r.get("where")),
                             "import %s (order %s) fails: %s" % (r["mod"], o, r.get("msg")),
                             {"order": o, "result": r}):
                continue
            if r["mod"] in alone:
                ctx.check(r["names"] == alone[r["mod"]], "order-dependent-namespace",
                          "public names of %s differ when imported after %s" % (r["mod"], o),
                          {"order": o, "module": r["mod"],
                           "only_alone": sorted(set(alone[r["mod"]]) - set(r["names"]))[:10],
                           "only_in_order": sorted(set(r["names"]) - set(alone[r["mod"]]))[:10]})
    ctx.hit("distinct_import_orders", len(seen_orders))
    if orders:
        ctx.sample({"random_order": orders[0]})

    # (3) secondary: test modules are only reported
    with ThreadPoolExecutor(NCPU) as ex:
        outs = list(ex.map(lambda m: run_child([m]), tests if not ctx.quick else tests[:8]))
    bad = [o["results"][0]["mod"] + ":" + o["results"][0]["err"] for o, e in outs if o and not o["results"][0]["ok"]]
    ctx.extra["secondary_test_module_import_failures"] = bad[:20]

    ctx.floor("alone_imports", 2 * 80)
    ctx.floor("distinct_import_orders", 10)
