"""C32 malformed HTTP input only affects its own connection (engine E).

Server part: a real ``Valet`` with three concurrent connections.  Two are real
``Patron`` clients doing correct exchanges (unique ids, echoed by the WSGI
application); the third is a raw connection that delivers a byte-level
mutation of a valid request (or random bytes), in one to three pieces, and
sometimes hangs up.  In-memory socket doubles for volume, real loopback
sockets for every tenth case.

Client part: a real ``Patron`` whose request is answered by a scripted peer
with a mutated response.

Oracle: no exception leaves ``Valet.serviceAll`` / ``Patron.serviceAll``; the
two well-behaved connections receive exactly their own correct responses,
before and after the malformed bytes were processed; a response whose status
line is certainly invalid is recorded as errored by the client.  What happens
to the malformed connection itself (answered, left waiting, closed) is only
classified and counted.
"""
from vf import net
import socket
import time

from vf import httpgen as hg
from vf.core import exc_key, digest

LEVEL = "exploration"
RULE = ("valid generated request/response (length|chunked|none framing) x one byte-level mutation (flip, delete, insert, "
        "truncate, duplicate, broken start line, broken header line, bad chunk size, bad chunk terminator, bad length, "
        "oversized line, missing colon, bare CR/LF, NUL) or random bytes, delivered in 1-3 pieces, optional hang-up; "
        "server cases run beside two well-behaved keep-alive clients (2 requests each); distinct = distinct delivered "
        "byte strings + delivery plan; non-trivial = the malformed bytes reached the parser (server: the connection was "
        "accepted and bytes were read; client: the response bytes were read) and differ from the valid message")
RULE = __import__("vf.core", fromlist=["rule_add"]).rule_add(RULE, 'also a failing request pipelined behind a valid one whose response is still queued (judged when the server marked it failed)')
META = {"engine": "E http", "technique": "fault injection at the byte level with bystander connections as witnesses",
        "level_text": "exploration: sampled mutations; every mutation operator and every outcome class floor-counted",
        "level_note": "only exceptions and bystander disturbance are verdicts for the malformed connection; whether a "
                      "mutated message is still acceptable is not judged, except certainly-invalid status lines"}

BAD_STATUS_LINES = [b"HTTP/1.1 abc OK", b"HTTP/1.1 99 Low", b"HTTP/1.1 1000 High", b"HTTP/3 200 OK", b"ICY 200 OK",
                    b"HTTP/1.1", b"200 OK", b"HTTP/2.0 200 OK"]


def jsonable(o):
    if isinstance(o, (bytes, bytearray)):
        return bytes(o).decode("latin-1")
    if isinstance(o, dict):
        return {str(k): jsonable(v) for k, v in o.items()}
    if isinstance(o, (list, tuple)):
        return [jsonable(v) for v in o]
    if isinstance(o, (str, int, float, bool)) or o is None:
        return o
    return repr(o)


def echo_app(environ, start_response):
    rid = environ.get("HTTP_X_VF_ID", "?")
    body = ("echo %s %s %s" % (rid, environ.get("REQUEST_METHOD"), environ.get("PATH_INFO"))).encode("utf-8")
    body += environ["wsgi.input"].read()
    start_response("200 OK", [("Content-Type", "text/plain"), ("Content-Length", str(len(body))), ("X-Vf-Id", rid)])
    return [body]


def expected_echo(rid, path):
    return ("echo %s GET %s" % (rid, path)).encode("utf-8")


class RawMem(object):
    def __init__(self, pair):
        self.cs = pair.net.connect()
        self.pipes = pair.net.conns[-1]

    def send(self, data):
        self.cs.send(data)

    def hangup(self):
        self.cs.close()

    def received(self):
        return bytes(self.pipes[3].total)

    def closed_by_server(self):
        return self.pipes[3].closed

    def close(self):
        self.cs.close()


class RawLoop(object):
    def __init__(self, pair):
        self.s = socket.create_connection((net.host(), pair.port), timeout=2)
        self.s.setblocking(False)
        self.rx = bytearray()
        self.eof = False
        self.pending = bytearray()

    def send(self, data):
        self.pending += data
        self._flush()

    def _flush(self):
        try:
            while self.pending:
                k = self.s.send(bytes(self.pending[:65536]))
                del self.pending[:k]
        except (BlockingIOError, InterruptedError):
            pass
        except OSError:
            self.pending.clear()

    def hangup(self):
        self._flush()
        try:
            self.s.shutdown(socket.SHUT_WR)
        except OSError:
            pass

    def poll(self):
        self._flush()
        try:
            while True:
                d = self.s.recv(65536)
                if not d:
                    self.eof = True
                    break
                self.rx += d
        except (BlockingIOError, InterruptedError):
            pass
        except OSError:
            self.eof = True

    def received(self):
        self.poll()
        return bytes(self.rx)

    def closed_by_server(self):
        self.poll()
        return self.eof

    def close(self):
        self.s.close()


def gen_bad_request(rng):
    m = hg.gen_message(rng, kind="request", framing=rng.choice(["length", "chunked", "none"]), seps=(": ",), tail=b"",
                       maxbody=30, lf=False)
    valid = m["raw"]
    if rng.random() < 0.06:
        return valid, valid, "none"
    data, op = hg.mutate(rng, valid)
    return valid, data, op


def server_case(ctx, rng, idx, mem, deadline):
    valid, data, op = gen_bad_request(rng)
    npieces = rng.choice([1, 1, 2, 3])
    cuts = tuple(sorted(rng.sample(range(1, len(data)), min(npieces - 1, len(data) - 1)))) if len(data) > 1 else ()
    pieces = hg.cut(data, cuts)
    hang = rng.random() < 0.3
    tag = "j%d-%d" % (ctx.job["index"] if ctx.job else 0, idx)
    wit = lambda extra=None: jsonable(dict({"delivered": data if len(data) < 2000 else data[:200] + b"...(%d bytes)" % len(data),
                                            "pieces": [len(p) for p in pieces], "mutation": op, "valid_original": valid,
                                            "hangup": hang, "transport": "memory" if mem else "loopback"}, **(extra or {})))
    pair = hg.Pair(echo_app, rng=rng, mem=mem)
    raw = None
    escaped = []
    try:
        goods = [pair.patron(), pair.patron()]
        raw = RawMem(pair) if mem else RawLoop(pair)
        plan = {}      # patron index -> list of (id, path)
        for gi, g in enumerate(goods):
            plan[gi] = [("%s-g%d-%d" % (tag, gi, k), "/g%d/%d" % (gi, k)) for k in range(2)]
            rid, path = plan[gi][0]
            g.request(method="GET", path=path, headers=_od([("X-Vf-Id", rid)]))
        sent_second = False
        arrived = [[], []]     # responses copied in the round they appear (the client reuses the body buffer)
        queue = list(pieces)
        rounds = 0
        cap = 80 if mem else 400
        read_any = False
        while rounds < cap:
            rounds += 1
            if time.time() > deadline:
                ctx.inconclusive_case("wall-clock watchdog")
                return
            if queue and rounds % 2 == 1:
                raw.send(queue.pop(0))
                if not queue and hang:
                    raw.hangup()
            for g in goods:
                try:
                    g.serviceAll()
                except Exception as ex:
                    escaped.append(("patron", exc_key(ex), "%s: %s" % (type(ex).__name__, str(ex)[:100])))
            for gi, g in enumerate(goods):
                while len(arrived[gi]) < len(g.responses):
                    r = g.responses[len(arrived[gi])]
                    arrived[gi].append((str(r["status"]), bytes(r["body"]), bool(r["errored"])))
            pair.deliver()
            try:
                pair.valet.serviceAll()
            except Exception as ex:
                if len(escaped) < 5:
                    escaped.append(("valet", exc_key(ex), "%s: %s" % (type(ex).__name__, str(ex)[:100])))
            pair.deliver()
            pair.store.advanceStamp(0.01)
            if not mem:
                time.sleep(0.0005)
            if not sent_second and not queue and rounds > 6 and all(len(g.responses) >= 1 for g in goods):
                for gi, g in enumerate(goods):       # second exchange after the malformed bytes were processed
                    rid, path = plan[gi][1]
                    g.request(method="GET", path=path, headers=_od([("X-Vf-Id", rid)]))
                sent_second = True
            if sent_second and all(len(g.responses) >= 2 for g in goods) and rounds > 12:
                break
        ctx.event(rounds)
        # ---- verdicts
        first = escaped[0] if escaped else None
        ctx.check(not escaped, "server/exception/%s" % (first[1] if first else ""),
                  "%s escapes %s.serviceAll after malformed bytes on one connection (mutation %s)" % (
                      first[2] if first else "", first[0] if first else "", op),
                  lambda: wit({"escaped": escaped}))
        ok_goods = True
        detail = []
        for gi, g in enumerate(goods):
            got = arrived[gi]
            want = [("200", expected_echo(rid, path), False) for rid, path in plan[gi]]
            detail.append({"got": got, "want": want})
            ok_goods = ok_goods and got == want
        ctx.check(ok_goods, "server/other-connection-disturbed" + ("/after-escaped-exception" if escaped else ""),
                  "a well-behaved connection did not receive exactly its own two correct responses while another "
                  "connection delivered malformed bytes (mutation %s)" % op,
                  lambda: wit({"bystanders": detail, "escaped": escaped, "rounds": rounds}))
        got_bytes = raw.received()
        if raw.closed_by_server():
            outcome = "closed-with-response" if got_bytes else "closed"
        elif got_bytes:
            outcome = "responded"
        else:
            outcome = "waiting"
        ctx.hit("bad:" + outcome)
        ctx.hit("op:" + op)
        ctx.hit("transport:" + ("memory" if mem else "loopback"))
        if hang:
            ctx.hit("hangup")
        if npieces > 1:
            ctx.hit("delivered_in_pieces")
        ctx.case(("server", data, cuts, hang), nontrivial=(data != valid))
        if len(ctx.samples) < 2:
            ctx.sample(wit({"outcome_for_malformed_connection": outcome}))
    finally:
        if raw:
            raw.close()
        pair.close()


def porter_case(ctx, rng, idx):
    """the sibling server class: a Porter (its stewards echo every request as JSON) with two well-behaved patrons and one
    raw connection that delivers a damaged request: the service loop never raises and the bystanders get their answers"""
    from ioflo.base import storing
    from ioflo.aio.http import serving, clienting
    valid, data, op = gen_bad_request(rng)
    npieces = rng.choice([1, 1, 2, 3])
    cuts = tuple(sorted(rng.sample(range(1, len(data)), min(npieces - 1, len(data) - 1)))) if len(data) > 1 else ()
    pieces = hg.cut(data, cuts)
    store = storing.Store(stamp=0.0)
    net_ = hg.MemNet(rng)
    porter = serving.Porter(servant=hg.mem_server(net_, store, 30.0), store=store)
    goods = []
    for gi in range(2):
        conn = hg.mem_client(net_, store)
        goods.append(clienting.Patron(connector=conn, store=store, hostname="127.0.0.1", port=net_.addr[1]))
    raw = net_.connect()
    rawpipes = net_.conns[-1]
    for gi, g in enumerate(goods):
        g.request(method="GET", path="/p%d/0" % gi)
    wit = lambda extra=None: jsonable(dict({"delivered": data if len(data) < 2000 else data[:200], "pieces": [len(x) for x in pieces],
                                            "mutation": op, "valid_original": valid}, **(extra or {})))
    escaped = []
    queue = list(pieces)
    second = False
    for rounds in range(80):
        if queue and rounds % 2 == 1:
            raw.send(queue.pop(0))
        for g in goods:
            try:
                g.serviceAll()
            except Exception as ex:
                escaped.append(("patron", exc_key(ex), "%s: %s" % (type(ex).__name__, str(ex)[:100])))
        net_.deliver()
        try:
            porter.serviceAll()
        except Exception as ex:
            if len(escaped) < 5:
                escaped.append(("porter", exc_key(ex), "%s: %s" % (type(ex).__name__, str(ex)[:100])))
        net_.deliver()
        store.advanceStamp(0.01)
        if not second and not queue and rounds > 6 and all(len(g.responses) >= 1 for g in goods):
            for gi, g in enumerate(goods):
                g.request(method="GET", path="/p%d/1" % gi)
            second = True
        if second and all(len(g.responses) >= 2 for g in goods) and rounds > 12:
            break
    ctx.event(rounds)
    ctx.hit("porter_cases")
    first = escaped[0] if escaped else None
    ctx.check(not escaped, "porter/exception/%s" % (first[1] if first else ""),
              "%s escapes %s.serviceAll after malformed bytes on one connection of a Porter (mutation %s)" % (
                  first[2] if first else "", first[0] if first else "", op), lambda: wit({"escaped": escaped}))
    got = [[(r["status"], (r.get("data") or {}).get("path") if isinstance(r.get("data"), dict) else None) for r in g.responses]
           for g in goods]
    import json as _json

    def paths(g):
        out = []
        for r in g.responses:
            try:
                out.append((r["status"], _json.loads(bytes(r["body"]).decode("utf-8")).get("path")))
            except Exception:      # noqa
                out.append((r["status"], None))
        return out
    got = [paths(g) for g in goods]
    want = [[(200, "/p%d/0" % gi), (200, "/p%d/1" % gi)] for gi in range(2)]
    ctx.check(got == want, "porter/other-connection-disturbed" + ("/after-escaped-exception" if escaped else ""),
              "a well-behaved connection of a Porter did not receive its own two answers while another connection delivered "
              "malformed bytes (mutation %s)" % op, lambda: wit({"bystanders": got, "escaped": escaped}))
    ctx.case(("porter", data, cuts), nontrivial=(data != valid))
    for g in goods:
        g.connector.close()
    raw.close()


CERTAINLY_BAD = [b"BAD\r\n\r\n", b"GET\r\n\r\n", b"GET / HTTP/1.1 extra words\r\n\r\n", b"\x00\x01\x02 / HTTP/1.1\r\n\r\n",
                 b"GET / HTTP/9.9\r\n\r\n", b"GET / HTTP/1.1\r\nno colon here\r\n\r\n"]


def big_app(environ, start_response):
    body = (b"%s|" % environ.get("PATH_INFO", "").encode("latin-1")) * 4000
    start_response("200 OK", [("Content-Type", "text/plain"), ("Content-Length", str(len(body)))])
    return [body]


def pipelined_garbage_case(ctx, rng, idx):
    """a request that certainly fails arrives right behind a valid one on a kept-alive connection whose reader is slow:
    it is parsed while part of the previous response is still queued for sending.  That request is marked failed and
    its connection is closed -- now, not never."""
    import random
    bad = rng.choice(CERTAINLY_BAD)
    pair = hg.Pair(big_app, rng=random.Random(rng.random()), mem=True, choppy=True)
    raw = None
    try:
        raw = RawMem(pair)
        tosend = bytearray(b"GET /big%d HTTP/1.1\r\nHost: h\r\n\r\n" % idx + bad)
        escaped = None
        pending_at_failure = None
        seen_close = {}
        orig_close = pair.valet.closeConnection

        def spy(ca):        # (observation only: were response bytes still queued when the server closed the connection?)
            ix = pair.valet.servant.ixes.get(ca)
            seen_close["pending"] = bool(ix is not None and ix.txes)
            return orig_close(ca)
        pair.valet.closeConnection = spy
        for rounds in range(600):
            if tosend:                      # (the harness' own sends are accepted partly / not at all on this connection too)
                try:
                    del tosend[:raw.cs.send(bytes(tosend))]
                except BlockingIOError:
                    pass
            pair.deliver()
            try:
                pair.valet.serviceAll()
            except Exception as ex:      # noqa
                escaped = "%s: %s" % (type(ex).__name__, str(ex)[:100])
                break
            rq = list(pair.valet.reqs.values())
            if pending_at_failure is None and rq and rq[0].errored:
                ix = list(pair.valet.servant.ixes.values())
                pending_at_failure = bool(ix and ix[0].txes)
            pair.deliver()
            pair.store.advanceStamp(0.01)
            if raw.closed_by_server() and rounds > 5:
                break
        ctx.event(rounds)
        ctx.case(("pipelined-garbage", bad, idx), nontrivial=True)
        ctx.hit("pipelined_garbage_cases")
        if pending_at_failure or seen_close.get("pending"):
            ctx.hit("request_failed_while_previous_response_still_queued")
        wit = lambda: jsonable({"garbage": bad, "rounds": rounds, "received_bytes": len(raw.received()), "escaped": escaped,
                                "still_in_reqs": len(pair.valet.reqs), "still_in_ixes": len(pair.valet.servant.ixes)})
        if not ctx.check(escaped is None, "server/exception/pipelined-garbage", "%s escapes valet.serviceAll" % escaped, wit):
            return
        if tosend:
            ctx.hit("pipelined_garbage_not_delivered")
            return
        if pending_at_failure is None and not raw.closed_by_server():
            ctx.hit("pipelined_garbage_taken_for_a_request")        # (the parser is lenient with some of these: a request it is)
            return
        ctx.hit("pipelined_garbage_marked_failed")
        ctx.check(raw.closed_by_server(), "server/failed-request-connection-not-closed",
                  "the server marked the second request of a connection (%r) as failed, the connection was still open %d service "
                  "rounds later" % (bad, rounds + 1), wit)
    finally:
        if raw:
            raw.close()
        pair.close()


def gen_bad_response(rng):
    m = hg.gen_message(rng, kind="response", framing=rng.choice(["length", "chunked", "close", "length"]), seps=(": ",),
                       tail=b"", maxbody=30, interim=False, lf=False)
    valid = m["raw"]
    r = rng.random()
    if r < 0.05:
        return valid, valid, "none", False
    if r < 0.2:
        eol = valid.find(b"\r\n")
        return valid, rng.choice(BAD_STATUS_LINES) + valid[eol:], "badstatusline", True
    if r < 0.32:
        # a well-formed head that promises JSON, with a body that is not: invalid JSON text, bytes that are not UTF-8
        # (latin-1 character, multi-byte sequence cut short by the length, random high bytes), an empty body
        body = rng.choice([b"[" * 100000, b'{"a":' * 30000 + b"1" + b"}" * 30000,      # nested deeper than the decoder recurses
                           b'{"a": 1', b"[1, 2,,]", b"nope", b"", b'{"caf\xe9": 1}', b'{"k": "\xe2\x82"}', b'"\xf0\x9f\x98"',
                           bytes(rng.randrange(128, 256) for _ in range(rng.randint(1, 12))), b'{"ok": true}', b"\xff\xfe{}"])
        ctype = rng.choice([b"application/json", b"application/json; charset=utf-8", b"application/json",
                            # parameters without a value, with a blank instead of `=`, several of them
                            b"application/json; charset", b"application/json; charset utf-8", b"application/json; charset=utf-8; q",
                            b"application/json;", b"application/json; =", b"application/json; charset=;"])
        if rng.random() < 0.3:
            raw = (b"HTTP/1.1 200 OK\r\nContent-Type: " + ctype + b"\r\nTransfer-Encoding: chunked\r\n\r\n" +
                   (b"%x\r\n" % len(body) + body + b"\r\n" if body else b"") + b"0\r\n\r\n")
        else:
            raw = b"HTTP/1.1 200 OK\r\nContent-Type: " + ctype + b"\r\nContent-Length: %d\r\n\r\n" % len(body) + body
        return raw, raw, "jsonbody", False
    if r < 0.42:
        # a well-formed redirect whose Location value is a damaged url (bracket lost, port digits replaced or out of
        # range) or, as the control, a fine relative reference to the same server
        loc = rng.choice(BAD_LOCATIONS)
        status = rng.choice([b"301 Moved Permanently", b"302 Found", b"303 See Other", b"307 Temporary Redirect"])
        raw = b"HTTP/1.1 " + status + b"\r\nLocation: " + loc + b"\r\nContent-Length: 0\r\n\r\n"
        import zlib
        if zlib.crc32(raw) % 7 == 0:
            # a redirect status without any Location header
            raw = b"HTTP/1.1 " + status + b"\r\nContent-Length: 0\r\n\r\n"
            return raw, raw, "nolocation", False
        return raw, raw, "location", False
    data, op = hg.mutate(rng, valid)
    return valid, data, op, False


BAD_LOCATIONS = [b"http://[::1/x", b"http://127.0.0.1:99999/x", b"http://127.0.0.1:8o80/x", b"http://[fe80::1%eth0/x",
                 b"http://127.0.0.1:-5/x", b"http://[::1]:x/", b"/ok/relative", b"relative?q=1", b"http://127.0.0.1:65536/",
                 b"http://[/x", b"//[::1/y",
                 # a url without a host, a bracketed host of the IPvFuture form with letters where the port stands
                 b"https:///nohost", b"http://[v1.zz:ab]/x", b"http://[v1.a:b]:80/x", b"//:x/y", b"http://:70000/",
                 # a path that begins with two slashes (the requester takes it for `//host/path`)
                 b"http://127.0.0.1:8080//x/y", b"//127.0.0.1:8080//x/y"]


def client_case(ctx, rng, idx, deadline):
    from ioflo.base import storing
    from ioflo.aio.http import clienting
    valid, data, op, certainly_bad = gen_bad_response(rng)
    npieces = rng.choice([1, 1, 2, 3])
    cuts = tuple(sorted(rng.sample(range(1, len(data)), min(npieces - 1, len(data) - 1)))) if len(data) > 1 else ()
    pieces = hg.cut(data, cuts)
    hang = rng.random() < 0.5
    wit = lambda extra=None: jsonable(dict({"delivered": data if len(data) < 2000 else data[:200] + b"...(%d bytes)" % len(data),
                                            "pieces": [len(p) for p in pieces], "mutation": op, "valid_original": valid,
                                            "hangup": hang}, **(extra or {})))
    store = storing.Store(stamp=0.0)
    net = hg.MemNet(rng)
    import zlib
    recon = hang and zlib.crc32(bytes(data[:40]) + bytes([npieces])) % 3 == 0
    if recon:
        # a long-lived client that reconnects on its own: its reconnect timer ran out long ago (it is only restarted by a
        # reopen), so the cut off and the reopen can fall into the same service pass
        conn = hg.mem_client(net, store, reconnectable=True, timeout=0.5)
        store.advanceStamp(2.0)
        ctx.hit("client_cases_with_a_reconnectable_connector")
    else:
        conn = hg.mem_client(net, store)
    patron = clienting.Patron(connector=conn, store=store, hostname="127.0.0.1", port=net.addr[1],
                              **({"dictable": True} if (op == "jsonbody" and rng.random() < 0.5) else {}))
    ss, ca = net.listener.pending.popleft()
    patron.request(method="GET", path="/x")
    queue = list(pieces)
    escaped = None
    req_seen = False
    for rounds in range(40):
        try:
            patron.serviceAll()
        except Exception as ex:
            escaped = (exc_key(ex), "%s: %s" % (type(ex).__name__, str(ex)[:100]))
            break
        net.deliver()
        if net.conns[0][2].buf:
            req_seen = True
        if req_seen and queue:
            ss.send(queue.pop(0))
            if not queue and hang:
                ss.close()
        net.deliver()
        store.advanceStamp(0.01)
        if not queue and rounds > 8 and (patron.responses or not hang):
            if rounds > 14:
                break
    ctx.event(rounds)
    ctx.check(escaped is None, "client/exception/%s" % (escaped[0] if escaped else ""),
              "%s escapes Patron.serviceAll on a malformed response (mutation %s)" % (escaped[1] if escaped else "", op),
              lambda: wit({"escaped": escaped}))
    if patron.responses:
        r = patron.responses[0]
        outcome = "errored" if r["errored"] else "accepted"
    else:
        outcome = "waiting"
    if certainly_bad and escaped is None:
        ctx.check(outcome == "errored", "client/invalid-status-line-not-errored",
                  "a response with an invalid status line is not recorded as errored (outcome %s)" % outcome,
                  lambda: wit({"outcome": outcome, "responses": [dict(r) for r in patron.responses]}))
    ctx.hit("client:" + outcome)
    ctx.hit("cop:" + op)
    followable = op == "location" and (b"Location: /ok/relative" in data or b"Location: relative?q=1" in data)
    if hang and not queue and escaped is None and conn.cutoff and outcome == "errored" and not followable and b"//x/y" not in data:
        # a second life: the owner connects the client again (a fresh connection of the in-memory net) and asks once more;
        # what the dead connection left unparsed is none of the new connection's business
        left = bytes(conn.rxbs)
        conn.cs = net.connect()
        conn.opened = True
        conn.cutoff = False
        ss2, ca2 = net.listener.pending.popleft()
        patron.request(method="GET", path="/second-life")
        sent = False
        esc3 = None
        for r3 in range(30):
            try:
                patron.serviceAll()
            except Exception as ex:
                esc3 = (exc_key(ex), "%s: %s" % (type(ex).__name__, str(ex)[:100]))
                break
            net.deliver()
            if not sent and net.conns[-1][2].buf:
                ss2.send(b"HTTP/1.1 200 OK\r\nContent-Length: 2\r\n\r\nok")
                sent = True
            net.deliver()
            store.advanceStamp(0.01)
        ctx.hit("second_life_after_a_response_cut_short")
        got2 = [(r["status"], bytes(r["body"]), bool(r["errored"]), r["error"]) for r in list(patron.responses)[1:]]
        ctx.check(esc3 is None and [g[:3] for g in got2] == [(200, b"ok", False)],
                  "client/next-connection-disturbed-by-what-a-cut-short-response-left-behind",
                  "after a response cut short by the server's close (recorded as errored) the client was connected again and asked once "
                  "more; the well-formed answer gave %s%s" % (got2, ", raised %s" % (esc3[1],) if esc3 else ""),
                  lambda: wit({"left_in_receive_buffer_after_the_first_connection": left, "second_life": repr(got2), "escaped": esc3}))
    if hang and not queue and escaped is None and (conn.cutoff or recon) and not followable:
        # everything the server sent was delivered, the server closed and the client has noticed: the exchange is over -- a
        # response that can never be completed is an error to record, not something to wait for
        ctx.hit("client_exchanges_ended_by_the_servers_close")
        if outcome == "waiting":
            ctx.hit("client_left_waiting_after_close:" + op)
        ctx.check(outcome != "waiting", "client/waits-for-ever-after-the-connection-closed",
                  "the server sent an incomplete response and closed; the client noticed the closed connection and still records "
                  "nothing (no response, no error) after %d service rounds (mutation %s)" % (rounds, op),
                  lambda: wit({"left_in_receive_buffer": bytes(conn.rxbs), "respondent_ended": patron.respondent.ended,
                               "waited": patron.waited}))
    if op in ("location", "nolocation") and not queue and escaped is None and not followable:
        # the redirect response is complete and cannot be followed: it is delivered (recorded), never asked for again and again
        nreq0 = bytes(net.conns[0][2].buf).count(b"GET ")
        ctx.check(outcome != "waiting" and nreq0 == 1, "client/complete-redirect-response-neither-followed-nor-recorded/" + op,
                  "a complete redirect response (%s) is not recorded after %d service rounds; the request was sent %d times" % (
                      op, rounds, nreq0), lambda: wit({"requests_sent": nreq0, "redirects_kept": len(patron.redirects)}))
    if op in ("location", "nolocation") and not followable and not hang and escaped is None and len(patron.responses) == 1 \
            and not conn.cutoff and b"//x/y" not in data:       # (those name another server: the patron has left this one)
        # normal use after the redirect that could not be followed: the next exchange on the same patron is an ordinary one
        seen_before = len(net.conns[0][2].buf)
        patron.request(method="GET", path="/after")
        sent = False
        esc2 = None
        for r2 in range(30):
            try:
                patron.serviceAll()
            except Exception as ex:
                esc2 = (exc_key(ex), "%s: %s" % (type(ex).__name__, str(ex)[:100]))
                break
            net.deliver()
            if not sent and len(net.conns[0][2].buf) > seen_before:
                ss.send(b"HTTP/1.1 200 OK\r\nContent-Length: 2\r\n\r\nok")
                sent = True
            net.deliver()
            store.advanceStamp(0.01)
        ctx.hit("exchanges_after_a_redirect_not_followed")
        got = [(r["status"], bytes(r["body"]), bool(r["errored"])) for r in list(patron.responses)[1:]]
        nreq = bytes(net.conns[0][2].buf)[seen_before:].count(b"GET ")
        ctx.check(esc2 is None and got == [(200, b"ok", False)] and nreq == 1,
                  "client/exchange-after-a-redirect-not-followed/%s" % ("raises" if esc2 else "wrong-response" if nreq == 1 else "requests-repeated"),
                  "after a redirect that could not be followed the next exchange on the same patron (answered 200 ok) gave %s, %d "
                  "request(s) sent%s" % (got, nreq, ", raised %s" % (esc2[1],) if esc2 else ""),
                  lambda: wit({"second_exchange": got, "requests_sent": nreq, "escaped": esc2}))
    ctx.case(("client", data, cuts, hang), nontrivial=((data != valid or op == "jsonbody") and req_seen))
    conn.close()


def _od(pairs):
    from ioflo.aid.odicting import odict
    return odict(pairs)


def worker(ctx, job):
    deadline = time.time() + job["budget"]
    rng = ctx.rng
    errs = []
    for i in range(job["n"]):
        if time.time() > deadline:
            ctx.inconclusive_case("wall-clock watchdog")
            break
        try:
            server_case(ctx, rng, i, mem=(i % 10 != 0), deadline=deadline)
            client_case(ctx, rng, i, deadline)
            if i % 5 == 0:
                pipelined_garbage_case(ctx, ctx.subrng("c32pg", job.get("index", 0), i), i)
            if i % 4 == 1:
                porter_case(ctx, ctx.subrng("c32porter", job.get("index", 0), i), i)
        except (OSError, RuntimeError) as ex:      # the harness's own real sockets, never a verdict
            errs.append("%s: %s" % (type(ex).__name__, ex))
    hg.tolerate_socket_errors(ctx, errs, job["n"])


def run(ctx):
    n = ctx.pick(100, 20000)
    jobs = [{"n": n, "budget": ctx.pick(25, 900)} for _ in range(16)]
    ctx.shard(jobs, timeout=ctx.pick(60, 1500))
    total = 16 * n
    ctx.floor("distinct_nontrivial", total // 2)
    ctx.floor("transport:loopback", total // 30)
    ctx.floor("transport:memory", total // 3)
    ctx.floor("delivered_in_pieces", total // 6)
    ctx.floor("hangup", total // 10)
    for k, d in (("bad:closed", 8), ("bad:closed-with-response", 30), ("bad:responded", 12), ("bad:waiting", 40),
                 ("client:accepted", 10), ("client:errored", 10), ("client:waiting", 15)):
        ctx.floor(k, total // d)
    for op in ("flip", "delete", "insert", "truncate", "dup", "startline", "headerline", "chunksize", "chunkend",
               "length", "random", "bigline", "nocolon", "barelf", "nul"):
        ctx.floor("op:" + op, total // 60)
        ctx.floor("cop:" + op, total // 80)
    ctx.floor("cop:jsonbody", total // 40)
    ctx.floor("request_failed_while_previous_response_still_queued", total // 40)
