"""C17 direct data literals convert to the documented typed values (engines A + C).

Two workloads, reported separately in the evidence:

  floscript  generated FloScripts are built and run by the REAL builder /
             skedder; every literal is observed where it lands:
               init            share field after build
               put / set / inc act parms after build, share field after the first ticks
               do with|per|cum a harness Doer (`do vf lit`, vf.flo.literals.VfLit) records the
                               action parameters / ioinits / constructor arguments it is given
               need goal       the built need act (NeedDirect goal | NeedIndirect share) and the
                               transition outcome with the state share set to the expected value
                               (must fire) and a decoy value (must not fire)
               bid period      the built want act and tasker.period after the bid ran
             literals that the documented order rejects are built one statement per script and
             must not be stored as a value.
  direct     every Convert2* function of ioflo.base.building called on the whole grammar.

Oracle 1: vf.flo.literals.classify* - an independent classifier of the documented conversion
order per context.  Oracle 2: round trip value -> literal -> converted value (same type, same value).
Corners the documentation leaves open are counted `ambiguous` and only checked against the set of
acceptable readings (or not at all).
"""
import math

from vf.core import exc_key
from vf.flo import literals as L

LEVEL = "exploration"
RULE = ("literal shapes = exhaustive shape grammar (signs x leading zeros x magnitudes; 0x/0X hex and hex-looking words; "
        "mantissa x exponent forms incl. `.5` `5.` `1E-3` overflow/underflow; inf/nan spellings; complex forms; every "
        "case mix of none/true/yes/false/no; both quote kinds around empty, number-, boolean-, path-, point-looking and "
        "punctuation contents; absolute/relative/trailing-dot paths; deg x N/E/S/W x minutes lat/lon; x/y/z n/e/d f/s/b "
        "points in 2D and 3D with signs, fractions and letter cases; near misses of every family) plus seeded random "
        "numbers/strings/points/lat-lon and one-character mutants, plus round-trip values (ints, repr floats, complex, "
        "booleans, None, points, quote-free strings in both quote kinds); each literal in every context that can hold it "
        "(init, put, set, inc, do with, do per, do cum, need goal, bid period) and through every Convert2* function; "
        "distinct = distinct (context, literal text); non-trivial = the documented order gives a definite outcome "
        "(value, indirect path or rejection) that was compared with what the real code stored")
RULE = __import__("vf.core", fromlist=["rule_add"]).rule_add(RULE, 'field names recur over commands (k%11), the driver frame is entered twice, an earlier init of the same field is overridden')
META = {"engine": "A floscript + C function",
        "technique": "runtime observation of stored type/value vs independent classifier of the documented order + round trip",
        "level_text": "exploration: the shape grammar is enumerated completely (same for every seed) and crossed with all "
                      "literal contexts on the real builder/skedder; random literals and mutants widen it per seed",
        "level_note": "python's int()/float()/complex() give the value once the classifier has chosen the step; ascii "
                      "literals only; corners the documentation leaves open (bare hex words such as 1e3/ff, digit "
                      "underscores, exponent/leading-dot point components, bare j, trailing-dot share paths, zero/negative/"
                      "nan bid periods) are accepted in any documented reading"}

DATA_CTXS = ["init", "put", "set", "inc", "do_with", "do_per", "do_cum"]
ALL_CTXS = DATA_CTXS + ["need", "bid"]
CTXKIND = dict((c, "data") for c in DATA_CTXS)
CTXKIND.update(need="need", bid="num")
NUMERIC_KINDS = ("dec", "hex", "float", "infnan", "complex", "latlon", "bool")
ACTLISTS = ("beacts", "preacts", "enacts", "renacts", "reacts", "exacts", "rexacts")
BEHAVIORS = ["vf.flo.literals"]

DATA_BATCH = 120
NEED_BATCH = 40
BID_BATCH = 60
MAXTICKS = 3


# ------------------------------------------------------------------ cases
def gen_cases(ctx):
    """the same list in the parent and in every worker (seeded)"""
    seen = set()
    cases = []
    for t, fam in L.grammar():
        seen.add(t)
        cases.append({"t": t, "fam": fam})
    for t, fam in L.random_literals(ctx.subrng("c17-random"), ctx.pick(2500, 36000)):
        if t not in seen:
            seen.add(t)
            cases.append({"t": t, "fam": fam})
    for v, lit in L.roundtrip_values(ctx.subrng("c17-roundtrip"), ctx.pick(1000, 18000)):
        cases.append({"t": lit, "fam": "roundtrip", "rt": v, "has_rt": True})
    return cases


def has_error_alt(e):
    if e.kind == "error":
        return True
    if e.kind == "ambiguous":
        return e.alts is None or any(has_error_alt(a) for a in e.alts)
    return False


def has_indirect(e):
    if e.kind == "indirect":
        return True
    return e.kind == "ambiguous" and bool(e.alts) and any(has_indirect(a) for a in e.alts)


def bid_expect(e):
    """bid period: a real number, clamped at zero by `max(0.0, period)` (clamp and nan undocumented)"""
    if e.kind in ("dec", "hex", "float", "infnan"):
        v = e.value
        if v != v:
            return L.Exp("ambiguous")
        if v > 0:
            return e
        return L.Exp("ambiguous", alts=[L.Exp("float", 0.0), L.Exp("dec", 0)])
    if e.kind == "complex":
        return L.Exp("error")            # "period: number" that is compared with 0.0: has to be real
    if e.kind == "ambiguous" and e.alts:
        return L.Exp("ambiguous", alts=[bid_expect(a) for a in e.alts])
    return e


def expect(text, c):
    e = L.classify_ctx(text, CTXKIND[c])
    if c == "bid":
        e = bid_expect(e)
    return e


def values_of(e):
    if e.kind == "ambiguous":
        out = []
        for a in e.alts or []:
            out.extend(values_of(a))
        return out
    return [e.value] if e.is_value else []


def fits(c, e):
    """can a literal with documented outcome `e` be exercised in context c at all"""
    if c == "inc":
        # "inc destination with data": a number is added; strings are a documented ParseError,
        # None / points are not numbers -> not generated for inc
        vals = values_of(e)
        if e.kind in ("error",):
            return True
        return bool(vals) and all(isinstance(v, (int, float, complex)) for v in vals)
    return True


# ------------------------------------------------------------------ script plans
class Plan(object):
    """one FloScript holding many literal statements; remembers where each literal must land"""

    def __init__(self):
        self.inits = []
        self.drv = []
        self.targets = []
        self.needfr = []
        self.items = []
        self.dogroup = []
        self.ndo = 0
        self.k = 0

    def _item(self, **kw):
        self.items.append(kw)
        return kw

    def add_data(self, case, ctxs, exps):
        k = self.k
        self.k += 1
        t = case["t"]
        field = "value" if k % 3 else "fa"          # bare `value` form and `field value` form
        lit = t if field == "value" else "fa " + t
        for c in ctxs:
            base = dict(ctx=c, k=k, case=case, exp=exps[c], field=field)
            if c == "init":
                if k % 4 == 1 and getattr(exps[c], "is_value", False):
                    # an earlier init of the same field (a default that this one overrides): the later literal is what counts
                    self.inits.append("init .vi%d with %s" % (k, "424242" if field == "value" else "fa 424242"))
                    self.reinits = getattr(self, "reinits", 0) + 1
                self.inits.append("init .vi%d with %s" % (k, lit))
                self._item(share=".vi%d" % k, stmt=None, **base)
            elif c == "put":
                s = "put %s into .vp%d" % (lit, k)
                self.drv.append(s)
                self._item(share=".vp%d" % k, stmt=s, **base)
            elif c == "set":
                s = "set .vg%d with %s" % (k, lit)
                self.drv.append(s)
                self._item(share=".vg%d" % k, stmt=s, **base)
            elif c == "inc":
                s = "inc .vc%d with %s" % (k, t)
                self.drv.append(s)
                base["field"] = "value"
                self._item(share=".vc%d" % k, stmt=s, incbase=(0, 10, -3)[k % 3], **base)
        dos = [c for c in ctxs if c.startswith("do_")]
        if dos:
            if k % 7 == 0 and len(dos) == 3:      # bare value form, one literal in all three clauses
                s = "do vf lit as u%d with %s per %s cum %s" % (k, t, t, t)
                self.drv.append(s)
                for c in dos:
                    self._item(ctx=c, k=k, case=case, exp=exps[c], field="value", stmt=s, share=None)
            else:
                self.dogroup.append((k, case, dos, exps))
                if len(self.dogroup) >= 6:
                    self.flush_do()

    def flush_do(self):
        if not self.dogroup:
            return
        clauses = {"do_with": [], "do_per": [], "do_cum": []}
        # field names recur from one `do` statement to the next (w3 here and w3 in a later statement, with another
        # literal): every act keeps its own literals
        fname, used = {}, set()
        for k, case, dos, exps in self.dogroup:
            n = k % 11 if (k % 11) not in used else k
            used.add(n)
            fname[k] = n
        for k, case, dos, exps in self.dogroup:
            for c in dos:
                clauses[c].append("%s%d %s" % (c[3], fname[k], case["t"]))
        s = "do vf lit as g%d" % self.ndo
        self.ndo += 1
        for c, word in (("do_with", "with"), ("do_per", "per"), ("do_cum", "cum")):
            if clauses[c]:
                s += " %s %s" % (word, " ".join(clauses[c]))
        self.drv.append(s)
        for k, case, dos, exps in self.dogroup:
            for c in dos:
                self._item(ctx=c, k=k, case=case, exp=exps[c], field="%s%d" % (c[3], fname[k]), stmt=s, share=None)
        self.dogroup = []

    def add_need(self, case, e):
        k = self.k
        self.k += 1
        s1 = "go b if .vs%d == %s" % (k, case["t"])
        lines = ["framer q%d be active" % k, "  frame a", "    " + s1]
        two = e.is_value
        if two:
            lines += ["  frame b", "    go c if .vd%d == %s" % (k, case["t"]), "  frame c"]
        else:
            lines += ["  frame b"]
        self.needfr.append(lines)
        self._item(ctx="need", k=k, case=case, exp=e, stmt=s1, framer="q%d" % k, two=two, field=None, share=None)

    def add_bid(self, case, e):
        k = self.k
        self.k += 1
        s = "bid start t%d at %s" % (k, case["t"])
        self.targets.append(["framer t%d be inactive" % k, "  frame a"])
        self.drv.append(s)
        self._item(ctx="bid", k=k, case=case, exp=e, stmt=s, framer="t%d" % k, field=None, share=None)

    def render(self):
        self.flush_do()
        out = ["house h"]
        out += ["  " + s for s in self.inits]
        for fr in self.targets:
            out += ["  " + s for s in fr]
        # the driver's frame is entered twice (one forced re-entry): every statement runs a second time with the very same
        # literal -- put / set / do leave what they left before, inc adds its literal once more
        out.insert(1, "  init .vfn with 0")
        out += ["  framer drv be active", "    frame f0", "      inc .vfn with 1"]
        out += ["      " + s for s in self.drv]
        out += ["      go me if .vfn == 1"]
        for fr in self.needfr:
            out += ["  " + s for s in fr]
        return "\n".join(out) + "\n"


def decoy_for(v):
    if isinstance(v, bool):
        return not v
    if v is None:
        return 0
    if isinstance(v, str):
        return v + "x"
    return 1 if v == 0 else 0          # numbers (nan != 0 -> 0)


def collect_acts(house):
    acts = {}
    for fr in house.framers:
        for frame in fr.frameNames.values():
            for lst in ACTLISTS:
                for act in getattr(frame, lst):
                    acts.setdefault(act.human, act)
    return acts


# ------------------------------------------------------------------ judging
class Judge(object):
    def __init__(self, ctx, workload="flo"):
        self.ctx = ctx
        self.wl = workload

    def tally(self, c, e, case):
        ctx = self.ctx
        ctx.hit("%s.ctx.%s" % (self.wl, c))
        ctx.hit("%s.kind.%s" % (self.wl, e.kind))
        ctx.hit("%s.%s.%s" % (self.wl, c, e.kind))
        if case.get("has_rt"):
            ctx.hit("%s.roundtrip.%s" % (self.wl, c))

    def check(self, c, e, case, outcome, where, transform=None):
        """one oracle-1 evaluation (+ oracle 2 when the case is a round-trip case)"""
        ctx = self.ctx
        text = case["t"]
        ee = transform(e) if transform else e
        ok, div = L.matches(ee, outcome)
        if e.kind == "ambiguous":
            ctx.hit("ambiguous")
            ctx.hit("%s.ambiguous_checked_against_alternatives" % self.wl if e.alts else "%s.ambiguous_unchecked" % self.wl)
        ctx.check(ok, "%s/%s/%s" % (c, e.kind, div),
                  "%s literal `%s` (%s): documented order gives %s, observed %s at %s"
                  % (c, text, case["fam"], L.describe_exp(ee), describe_outcome(outcome), where),
                  lambda: {"context": c, "literal": text, "family": case["fam"], "expected": L.describe_exp(ee),
                           "observed": describe_outcome(outcome), "where": where, "script": case.get("_script", "")[:1500]})
        if case.get("has_rt") and rt_applies(c, case["rt"]):
            v = case["rt"]
            if transform:
                rte = transform(L.Exp("rt", v))
                v = rte.value
            if outcome[0] != "value":
                d = "not-a-value"
            else:
                d = L.same_value(v, outcome[1])
            ctx.hit("%s.roundtrip_checks" % self.wl)
            ctx.check(d is None, "roundtrip/%s/%s/%s" % (c, type(case["rt"]).__name__, d),
                      "round trip in %s: value %r written as `%s` came back as %s" % (c, case["rt"], text, describe_outcome(outcome)),
                      lambda: {"context": c, "value": repr(case["rt"]), "literal": text, "observed": describe_outcome(outcome),
                               "where": where})
        return ok


def rt_applies(c, v):
    """does the round trip statement speak about value v in context c (the context's documented
    order must have the step for the value's type)"""
    if c == "need":
        return not isinstance(v, L.Point)
    if c == "bid":
        return isinstance(v, (int, float)) and not isinstance(v, bool) and v > 0
    if c == "inc":
        return isinstance(v, (int, float, complex))
    return True


def describe_outcome(o):
    if o[0] == "value":
        return {"value": L.describe(o[1])}
    return {o[0]: str(o[1])[:200]}


def inc_transform(base):
    def tr(e):
        if e.kind == "ambiguous" and e.alts:
            return L.Exp("ambiguous", alts=[tr(a) for a in e.alts])
        if e.is_value or e.kind == "rt":
            return L.Exp(e.kind, base + e.value + e.value)      # executed twice (see Plan.render)
        return e
    return tr


# ------------------------------------------------------------------ running plans
def run_plan(ctx, plan, judge, build_only=False):
    """-> 'ok' | 'build-failed' (items not judged)"""
    from vf.flo import runner
    text = plan.render()
    L.reset()
    res = runner.run_text(text, maxticks=MAXTICKS, behaviors=BEHAVIORS, build_only=True)
    if not res.built:
        return "build-failed", res
    sk = res.skedder
    house = sk.houses[0]
    store = house.store
    acts = collect_acts(house)
    log_build = list(L.LOG)
    for it in plan.items:
        it["case"]["_script"] = text if len(plan.items) < 4 else it.get("stmt") or ""
    # ---- build-time observations
    for it in plan.items:
        c, e, case = it["ctx"], it["exp"], it["case"]
        judge.tally(c, e, case)
        ctx.case("%s|%s" % (c, case["t"]), nontrivial=e.kind != "ambiguous")
        if c == "init":
            sh = store.fetchShare(it["share"])
            if sh is None or it["field"] not in sh:
                out = ("error", "share/field missing after build")
            else:
                out = ("value", sh[it["field"]])
            judge.check(c, e, case, out, "build")
            ctx.event()
            continue
        act = acts.get(it["stmt"])
        if act is None:
            ctx.inconclusive_case("statement not found among built acts: %r" % (it["stmt"],))
            continue
        ctx.event()
        if c in ("put", "set", "inc"):
            out = ("value", act.parms["sourceData"][it["field"]])
        elif c == "do_with":
            out = ("value", act.parms[it["field"]])
        elif c == "do_per":
            out = ("value", (act.ioinits or {})[it["field"]])
        elif c == "do_cum":
            out = ("value", (act.inits or {})[it["field"]])
        elif c == "need":
            need = act.parms["needs"][0]
            it["need"] = need
            kind = type(need.actor).__name__
            if kind == "NeedDirect":
                out = ("value", need.parms["goal"])
            elif kind == "NeedIndirect":
                out = ("indirect", getattr(need.parms["goal"], "name", need.parms["goal"]))
            else:
                out = ("error", "need actor %s" % kind)
        elif c == "bid":
            if act.parms.get("source") is not None:
                out = ("indirect", getattr(act.parms["source"], "name", act.parms["source"]))
            else:
                out = ("value", act.parms["period"])
        it["built_outcome"] = out
        judge.check(c, e, case, out, "build")
        if c in ("do_per", "do_cum"):
            # what the behaviour itself was handed at resolve time
            key = c[3:]
            evs = [ev for ev in log_build if ev["k"] == key and ev["actor"]._act is act]
            if not evs or it["field"] not in evs[0]["data"]:
                out2 = ("error", "behaviour did not receive the %s argument" % key)
            else:
                out2 = ("value", evs[0]["data"][it["field"]])
            ctx.event()
            judge.check(c, e, case, out2, "behaviour")
    if build_only:
        return "ok", res
    # ---- prepare state for the run
    for it in plan.items:
        c, e = it["ctx"], it["exp"]
        if c == "inc":
            sh = store.fetchShare(it["share"])
            if sh is not None:
                sh.update(value=it["incbase"])
        elif c == "need" and it.get("two"):
            v = e.value
            store.create(".vs%d" % it["k"]).update(value=v)
            store.create(".vd%d" % it["k"]).update(value=decoy_for(v))
    # ---- run (bounded by the tick cap of runner.run_text)
    L.reset()
    res2 = run_built(res, sk)
    if res2["exc"] is not None and not isinstance(res2["exc"], KeyboardInterrupt):
        ctx.fail("run-raised/%s" % exc_key(res2["exc"]), "running the literal script raised %r" % (res2["exc"],),
                 {"script": text[:3000]})
        return "ok", res
    withs = {}
    for ev in L.LOG:
        if ev["k"] == "with":
            withs.setdefault(id(ev["actor"]._act), ev)
    framers = dict((fr.name, fr) for fr in house.framers)
    for it in plan.items:
        c, e, case = it["ctx"], it["exp"], it["case"]
        if c in ("put", "set"):
            sh = store.fetchShare(it["share"])
            out = ("value", sh[it["field"]]) if sh is not None and it["field"] in sh else ("error", "share/field missing after run")
            ctx.event()
            judge.check(c, e, case, out, "run")
        elif c == "inc":
            sh = store.fetchShare(it["share"])
            out = ("value", sh["value"]) if sh is not None and "value" in sh else ("error", "share/field missing after run")
            ctx.event()
            judge.check(c, e, case, out, "run", transform=inc_transform(it["incbase"]))
        elif c == "do_with":
            act = acts.get(it["stmt"])
            ev = withs.get(id(act))
            out = ("value", ev["data"][it["field"]]) if ev and it["field"] in ev["data"] else ("error", "action never ran / parameter missing")
            ctx.event()
            judge.check(c, e, case, out, "run")
        elif c == "need" and it.get("two"):
            where = res2["active"].get(it["framer"])
            v = e.value
            should = not (isinstance(v, float) and v != v)      # state == goal; nan never equals
            want = "b" if should else "a"
            ctx.event()
            ctx.hit("flo.need_transition_observed")
            div = None
            if where == "c":
                div = "fires-for-a-different-state"
            elif where != want:
                div = "does-not-fire-for-the-written-value" if should else "fires-for-nan"
            ctx.check(div is None, "need/%s/%s" % (e.kind, div),
                      "`go b if state == %s`: with state %r (decoy %r) the framer ended in frame %s, expected %s"
                      % (case["t"], v, decoy_for(v), where, want),
                      lambda: {"literal": case["t"], "state": repr(v), "decoy": repr(decoy_for(v)), "ended_in": where,
                               "expected": want, "goal_parm": L.describe(it["need"].parms.get("goal")) if it.get("need") else None})
        elif c == "bid":
            fr = framers.get(it["framer"])
            if it.get("built_outcome", ("x",))[0] == "value" and fr is not None:
                ctx.event()
                judge.check(c, e, case, ("value", fr.period), "run")
    return "ok", res


def run_built(res, sk):
    """run the already built skedder for MAXTICKS ticks; returns the active frame of every framer at the
    end of the last completed tick (Skedder.run calls store.changeStamp once per tick)"""
    from vf.flo import runner
    from ioflo.base import skedding
    state = {"tick": 0, "active": {}}
    house0 = sk.houses[0]
    orig = house0.store.changeStamp
    first = [True]

    def wrapper(stamp):
        if first[0]:
            first[0] = False
            return orig(stamp)
        state["active"] = dict((fr.name, fr.active.name if fr.active else None) for fr in house0.framers)
        r = orig(stamp)
        state["tick"] += 1
        if state["tick"] >= MAXTICKS:
            raise runner.TickCap()
        return r
    house0.store.changeStamp = wrapper
    exc = None
    try:
        sk.run()
    except BaseException as e:       # noqa
        from vf import core
        if isinstance(e, core.Watchdog):
            raise
        exc = e
    return {"exc": exc, "active": state["active"], "ticks": state["tick"]}


def single_outcome(ctx, c, case, e, judge):
    """one statement per script, build only: used for literals the documented order rejects (and
    for the members of a batch that failed to build)"""
    from vf.flo import runner
    plan = Plan()
    exps = {c: e}
    if c in DATA_CTXS:
        plan.k = 1                       # bare value form
        plan.add_data(case, [c], exps)
    elif c == "need":
        plan.add_need(case, e)
    else:
        plan.add_bid(case, e)
    status, res = run_plan(ctx, plan, judge, build_only=True)
    if status == "ok":
        return
    # the build was refused
    judge.tally(c, e, case)
    ctx.case("%s|%s" % (c, case["t"]), nontrivial=e.kind != "ambiguous")
    ctx.event()
    err = res.build_error
    ename = type(err).__name__ if err is not None else "build-returned-False"
    ctx.hit("flo.rejected_with.%s" % ename)
    case["_script"] = plan.render()
    if c == "bid" and ename not in ("ParseError", "build-returned-False", "ValueError"):
        # a period literal must be stored or refused as a script error
        ctx.fail("bid/%s/internal-error-%s" % (L.classify_ctx(case["t"], "num").kind, ename),
                 "`bid start t at %s` left the builder with %s: %s" % (case["t"], ename, str(err)[:200]),
                 {"literal": case["t"], "script": case["_script"], "error": "%s: %s" % (ename, str(err)[:300])})
        return
    judge.check(c, e, case, ("error", "%s: %s" % (ename, str(err)[:160])), "build")


# ------------------------------------------------------------------ workers
def worker(ctx, job):
    from ioflo.base import building
    policy = L.probe(building.Convert2Num)      # does the hex step of the real code read unprefixed hex digits?
    ctx.hit("barehex_policy_%s" % {True: "hex", False: "not_hex", None: "mixed"}[policy])
    if job["kind"] == "direct":
        return worker_direct(ctx, job)
    return worker_flo(ctx, job)


def worker_direct(ctx, job):
    """second, cheaper workload: the Convert2* functions called directly"""
    from ioflo.base import building
    cases = gen_cases(ctx)[job["shard"]::job["of"]]
    judge = Judge(ctx, "direct")
    present = [fn for fn in L.FUNC_STEPS if hasattr(building, fn)]
    ctx.extra["direct_functions_present"] = {fn: 1 for fn in present}
    for fn in present:
        steps = L.FUNC_STEPS[fn]
        f = getattr(building, fn)
        for case in cases:
            t = case["t"]
            e = L.classify(t, steps)
            try:
                out = ("value", f(t))
            except ValueError as ex:
                out = ("error", "ValueError: %s" % str(ex)[:120])
            except Exception as ex:       # noqa
                ctx.fail("direct/%s" % exc_key(ex), "%s(%r) raised %r" % (fn, t, ex), {"function": fn, "literal": t})
                continue
            ctx.event()
            judge.tally(fn, e, case)
            ctx.case("%s|%s" % (fn, t), nontrivial=e.kind != "ambiguous")
            rt = case.get("has_rt")
            if rt:
                # the round trip only applies where the chain has the step for the value's type
                v = case["rt"]
                need = ("quoted" if isinstance(v, str) else "nonebool" if (v is None or isinstance(v, bool)) else
                        "point" if isinstance(v, L.Point) else None)
                if need and need not in steps:
                    case = dict(case, has_rt=False)
            judge.check(fn, e, case, out, "call")


def worker_flo(ctx, job):
    cases = gen_cases(ctx)[job["shard"]::job["of"]]
    judge = Judge(ctx, "flo")
    rng = ctx.subrng("c17-sample", job["shard"])
    single_budget = [ctx.pick(260, 100000)]      # single-statement builds per worker
    fallback_budget = [ctx.pick(60, 400)]

    scriptable = [c for c in cases if L.scriptable(c["t"])]
    ctx.hit("flo.literals", len(scriptable))
    batch = {"data": [], "need": [], "bid": []}
    singles = []
    for case in scriptable:
        t = case["t"]
        exps = dict((c, expect(t, c)) for c in ALL_CTXS)
        dctx = [c for c in DATA_CTXS if fits(c, exps[c])]
        ed = exps["init"]
        if ed.kind == "ambiguous" and ed.alts is None:
            ctx.hit("ambiguous")
            ctx.hit("flo.ambiguous_not_generated")
        elif has_error_alt(ed):
            singles.extend((c, case, exps[c]) for c in dctx)
        else:
            batch["data"].append((case, dctx, exps))
        for c in ("need", "bid"):
            e = exps[c]
            if e.kind == "ambiguous" and e.alts is None:
                ctx.hit("ambiguous")
                ctx.hit("flo.ambiguous_not_generated")
            elif has_error_alt(e) or has_indirect(e):
                singles.append((c, case, e))
            else:
                batch[c].append((case, e))

    def nfails():
        return sum(ctx.fail_counts.values())

    def fallback(c, items):
        """a one-context batch that does not build: judge its members one per script (bounded)"""
        before = nfails()
        for n, (c_, case, e) in enumerate(items):
            if fallback_budget[0] <= 0:
                ctx.fail("%s/batch-build-failed" % c, "a batch of %s literals that the documented order accepts did not "
                         "build and the budget for single rebuilds is used up" % c, {"literal": case["t"]})
                return
            fallback_budget[0] -= 1
            single_outcome(ctx, c, case, e, judge)
        if nfails() == before:
            ctx.fail("%s/batch-rejected-though-each-literal-builds" % c,
                     "a script with many %s statements was refused although every statement alone is accepted "
                     "(conversion depends on the position of the literal in the statement)" % c,
                     {"literals": [case["t"] for c_, case, e in items][:40]})

    def fallback_data(rows):
        """the mixed batch did not build: one batch per context, then one script per literal"""
        ctx.hit("flo.batch_build_failed")
        for c in DATA_CTXS:
            sub = [(case, exps) for case, dctx, exps in rows if c in dctx]
            if not sub:
                continue
            plan = Plan()
            for case, exps in sub:
                plan.add_data(case, [c], exps)
            status, res = run_plan(ctx, plan, judge)
            if status != "ok":
                fallback(c, [(c, case, exps[c]) for case, exps in sub])

    # ---- data contexts
    rows = batch["data"]
    for i in range(0, len(rows), DATA_BATCH):
        plan = Plan()
        for case, dctx, exps in rows[i:i + DATA_BATCH]:
            plan.add_data(case, dctx, exps)
        status, res = run_plan(ctx, plan, judge)
        ctx.hit("flo.scripts_built_and_run")
        if i == 0 and job["shard"] == 0:
            ctx.sample({"script_excerpt": plan.render()[:1800], "statements": len(plan.items), "built_and_ran": status})
        if status != "ok":
            fallback_data(rows[i:i + DATA_BATCH])
    # ---- need goals
    rows = batch["need"]
    for i in range(0, len(rows), NEED_BATCH):
        plan = Plan()
        for case, e in rows[i:i + NEED_BATCH]:
            plan.add_need(case, e)
        status, res = run_plan(ctx, plan, judge)
        ctx.hit("flo.scripts_built_and_run")
        if status != "ok":
            ctx.hit("flo.batch_build_failed")
            fallback("need", [("need", case, e) for case, e in rows[i:i + NEED_BATCH]])
    # ---- bid periods
    rows = batch["bid"]
    for i in range(0, len(rows), BID_BATCH):
        plan = Plan()
        for case, e in rows[i:i + BID_BATCH]:
            plan.add_bid(case, e)
        status, res = run_plan(ctx, plan, judge)
        ctx.hit("flo.scripts_built_and_run")
        if status != "ok":
            ctx.hit("flo.batch_build_failed")
            fallback("bid", [("bid", case, e) for case, e in rows[i:i + BID_BATCH]])
    # ---- literals the documented order rejects / reads as a share path: one statement per script
    if len(singles) > single_budget[0]:
        # keep every (context, family) represented, then fill up at random
        rng.shuffle(singles)
        seen, keep, rest = set(), [], []
        for s in singles:
            key = (s[0], s[1]["fam"], s[2].kind)
            if key not in seen:
                seen.add(key)
                keep.append(s)
            else:
                rest.append(s)
        singles = (keep + rest)[:max(single_budget[0], len(keep))]
    for c, case, e in singles:
        ctx.hit("flo.single_statement_scripts")
        single_outcome(ctx, c, case, e, judge)


# ------------------------------------------------------------------ parent
# floors: one third of the smallest value measured on the tree with the proposed fixes applied
# (quick: seeds 0-3, thorough: seeds 0-1); every context, every literal class, every context x class
FLOORS_QUICK = {
    "direct.Convert2BoolCoordNum.bool": 56, "direct.Convert2BoolCoordNum.complex": 272,
    "direct.Convert2BoolCoordNum.dec": 238, "direct.Convert2BoolCoordNum.error": 1320,
    "direct.Convert2BoolCoordNum.float": 456, "direct.Convert2BoolCoordNum.hex": 155,
    "direct.Convert2BoolCoordNum.infnan": 11, "direct.Convert2BoolCoordNum.latlon": 262,
    "direct.Convert2BoolCoordNum.none": 20, "direct.Convert2BoolCoordPointNum.bool": 56,
    "direct.Convert2BoolCoordPointNum.complex": 272, "direct.Convert2BoolCoordPointNum.dec": 238,
    "direct.Convert2BoolCoordPointNum.error": 590, "direct.Convert2BoolCoordPointNum.float": 456,
    "direct.Convert2BoolCoordPointNum.hex": 155, "direct.Convert2BoolCoordPointNum.infnan": 11,
    "direct.Convert2BoolCoordPointNum.latlon": 262, "direct.Convert2BoolCoordPointNum.none": 20,
    "direct.Convert2BoolCoordPointNum.point2": 382, "direct.Convert2BoolCoordPointNum.point3": 332,
    "direct.Convert2BoolPathCoordPointNum.bool": 56, "direct.Convert2BoolPathCoordPointNum.complex": 272,
    "direct.Convert2BoolPathCoordPointNum.dec": 238, "direct.Convert2BoolPathCoordPointNum.error": 501,
    "direct.Convert2BoolPathCoordPointNum.float": 456, "direct.Convert2BoolPathCoordPointNum.hex": 155,
    "direct.Convert2BoolPathCoordPointNum.infnan": 7, "direct.Convert2BoolPathCoordPointNum.latlon": 262,
    "direct.Convert2BoolPathCoordPointNum.none": 20, "direct.Convert2BoolPathCoordPointNum.path": 159,
    "direct.Convert2BoolPathCoordPointNum.point2": 382, "direct.Convert2BoolPathCoordPointNum.point3": 332,
    "direct.Convert2CoordNum.complex": 272, "direct.Convert2CoordNum.dec": 238,
    "direct.Convert2CoordNum.error": 1401, "direct.Convert2CoordNum.float": 456, "direct.Convert2CoordNum.hex": 155,
    "direct.Convert2CoordNum.infnan": 11, "direct.Convert2CoordNum.latlon": 262,
    "direct.Convert2CoordPointNum.complex": 272, "direct.Convert2CoordPointNum.dec": 238,
    "direct.Convert2CoordPointNum.error": 671, "direct.Convert2CoordPointNum.float": 456,
    "direct.Convert2CoordPointNum.hex": 155, "direct.Convert2CoordPointNum.infnan": 11,
    "direct.Convert2CoordPointNum.latlon": 262, "direct.Convert2CoordPointNum.point2": 382,
    "direct.Convert2CoordPointNum.point3": 332, "direct.Convert2Num.complex": 272, "direct.Convert2Num.dec": 238,
    "direct.Convert2Num.error": 1663, "direct.Convert2Num.float": 456, "direct.Convert2Num.hex": 155,
    "direct.Convert2Num.infnan": 11, "direct.Convert2PathCoordPointNum.complex": 272,
    "direct.Convert2PathCoordPointNum.dec": 238, "direct.Convert2PathCoordPointNum.error": 501,
    "direct.Convert2PathCoordPointNum.float": 456, "direct.Convert2PathCoordPointNum.hex": 155,
    "direct.Convert2PathCoordPointNum.infnan": 7, "direct.Convert2PathCoordPointNum.latlon": 262,
    "direct.Convert2PathCoordPointNum.path": 241, "direct.Convert2PathCoordPointNum.point2": 382,
    "direct.Convert2PathCoordPointNum.point3": 332, "direct.Convert2PointNum.complex": 272,
    "direct.Convert2PointNum.dec": 238, "direct.Convert2PointNum.error": 933, "direct.Convert2PointNum.float": 456,
    "direct.Convert2PointNum.hex": 155, "direct.Convert2PointNum.infnan": 11, "direct.Convert2PointNum.point2": 382,
    "direct.Convert2PointNum.point3": 332, "direct.Convert2StrBoolCoordNum.bool": 56,
    "direct.Convert2StrBoolCoordNum.complex": 272, "direct.Convert2StrBoolCoordNum.dec": 238,
    "direct.Convert2StrBoolCoordNum.error": 1111, "direct.Convert2StrBoolCoordNum.float": 456,
    "direct.Convert2StrBoolCoordNum.hex": 155, "direct.Convert2StrBoolCoordNum.infnan": 11,
    "direct.Convert2StrBoolCoordNum.latlon": 262, "direct.Convert2StrBoolCoordNum.none": 20,
    "direct.Convert2StrBoolCoordNum.quoted": 245, "direct.Convert2StrBoolPathCoordPointNum.bool": 56,
    "direct.Convert2StrBoolPathCoordPointNum.complex": 272, "direct.Convert2StrBoolPathCoordPointNum.dec": 238,
    "direct.Convert2StrBoolPathCoordPointNum.error": 292, "direct.Convert2StrBoolPathCoordPointNum.float": 456,
    "direct.Convert2StrBoolPathCoordPointNum.hex": 155, "direct.Convert2StrBoolPathCoordPointNum.infnan": 7,
    "direct.Convert2StrBoolPathCoordPointNum.latlon": 262, "direct.Convert2StrBoolPathCoordPointNum.none": 20,
    "direct.Convert2StrBoolPathCoordPointNum.path": 159, "direct.Convert2StrBoolPathCoordPointNum.point2": 382,
    "direct.Convert2StrBoolPathCoordPointNum.point3": 332, "direct.Convert2StrBoolPathCoordPointNum.quoted": 245,
    "direct.ctx.Convert2BoolCoordNum": 2976, "direct.ctx.Convert2BoolCoordPointNum": 2976,
    "direct.ctx.Convert2BoolPathCoordPointNum": 2976, "direct.ctx.Convert2CoordNum": 2976,
    "direct.ctx.Convert2CoordPointNum": 2976, "direct.ctx.Convert2Num": 2976,
    "direct.ctx.Convert2PathCoordPointNum": 2976, "direct.ctx.Convert2PointNum": 2976,
    "direct.ctx.Convert2StrBoolCoordNum": 2976, "direct.ctx.Convert2StrBoolPathCoordPointNum": 2976,
    "direct.kind.bool": 280, "direct.kind.complex": 2723, "direct.kind.dec": 2380, "direct.kind.error": 8986,
    "direct.kind.float": 4560, "direct.kind.hex": 1556, "direct.kind.infnan": 99, "direct.kind.latlon": 2096,
    "direct.kind.none": 101, "direct.kind.path": 560, "direct.kind.point2": 2292, "direct.kind.point3": 1992,
    "direct.kind.quoted": 490, "direct.roundtrip.Convert2BoolCoordNum": 410,
    "direct.roundtrip.Convert2BoolCoordPointNum": 410, "direct.roundtrip.Convert2BoolPathCoordPointNum": 410,
    "direct.roundtrip.Convert2CoordNum": 410, "direct.roundtrip.Convert2CoordPointNum": 410,
    "direct.roundtrip.Convert2Num": 410, "direct.roundtrip.Convert2PathCoordPointNum": 410,
    "direct.roundtrip.Convert2PointNum": 410, "direct.roundtrip.Convert2StrBoolCoordNum": 410,
    "direct.roundtrip.Convert2StrBoolPathCoordPointNum": 410, "direct.roundtrip_checks": 2630, "flo.bid.dec": 141,
    "flo.bid.error": 287, "flo.bid.float": 246, "flo.bid.hex": 98, "flo.bid.indirect": 36, "flo.bid.infnan": 4,
    "flo.ctx.bid": 1211, "flo.ctx.do_cum": 2687, "flo.ctx.do_per": 2692, "flo.ctx.do_with": 2688,
    "flo.ctx.inc": 1536, "flo.ctx.init": 2684, "flo.ctx.need": 1943, "flo.ctx.put": 2689, "flo.ctx.set": 2691,
    "flo.do_cum.bool": 56, "flo.do_cum.complex": 272, "flo.do_cum.dec": 238, "flo.do_cum.error": 57,
    "flo.do_cum.float": 456, "flo.do_cum.hex": 155, "flo.do_cum.infnan": 7, "flo.do_cum.latlon": 262,
    "flo.do_cum.none": 20, "flo.do_cum.path": 159, "flo.do_cum.point2": 382, "flo.do_cum.point3": 332,
    "flo.do_cum.quoted": 244, "flo.do_per.bool": 56, "flo.do_per.complex": 272, "flo.do_per.dec": 238,
    "flo.do_per.error": 55, "flo.do_per.float": 456, "flo.do_per.hex": 155, "flo.do_per.infnan": 7,
    "flo.do_per.latlon": 262, "flo.do_per.none": 20, "flo.do_per.path": 159, "flo.do_per.point2": 382,
    "flo.do_per.point3": 332, "flo.do_per.quoted": 244, "flo.do_with.bool": 56, "flo.do_with.complex": 272,
    "flo.do_with.dec": 238, "flo.do_with.error": 54, "flo.do_with.float": 456, "flo.do_with.hex": 155,
    "flo.do_with.infnan": 7, "flo.do_with.latlon": 262, "flo.do_with.none": 20, "flo.do_with.path": 159,
    "flo.do_with.point2": 382, "flo.do_with.point3": 332, "flo.do_with.quoted": 244, "flo.inc.bool": 56,
    "flo.inc.complex": 272, "flo.inc.dec": 238, "flo.inc.error": 55, "flo.inc.float": 456, "flo.inc.hex": 155,
    "flo.inc.infnan": 7, "flo.inc.latlon": 262, "flo.init.bool": 56, "flo.init.complex": 272, "flo.init.dec": 238,
    "flo.init.error": 54, "flo.init.float": 456, "flo.init.hex": 155, "flo.init.infnan": 7, "flo.init.latlon": 262,
    "flo.init.none": 20, "flo.init.path": 159, "flo.init.point2": 382, "flo.init.point3": 332,
    "flo.init.quoted": 244, "flo.kind.bool": 448, "flo.kind.complex": 2178, "flo.kind.dec": 2048,
    "flo.kind.error": 872, "flo.kind.float": 3899, "flo.kind.hex": 1347, "flo.kind.indirect": 56,
    "flo.kind.infnan": 67, "flo.kind.latlon": 2096, "flo.kind.none": 142, "flo.kind.path": 958,
    "flo.kind.point2": 2292, "flo.kind.point3": 1992, "flo.kind.quoted": 1712, "flo.literals": 2975,
    "flo.need.bool": 56, "flo.need.complex": 272, "flo.need.dec": 238, "flo.need.error": 167, "flo.need.float": 456,
    "flo.need.hex": 155, "flo.need.indirect": 19, "flo.need.infnan": 11, "flo.need.latlon": 262, "flo.need.none": 20,
    "flo.need.quoted": 244, "flo.need_transition_observed": 1723, "flo.put.bool": 56, "flo.put.complex": 272,
    "flo.put.dec": 238, "flo.put.error": 56, "flo.put.float": 456, "flo.put.hex": 155, "flo.put.infnan": 7,
    "flo.put.latlon": 262, "flo.put.none": 20, "flo.put.path": 159, "flo.put.point2": 382, "flo.put.point3": 332,
    "flo.put.quoted": 244, "flo.roundtrip.bid": 158, "flo.roundtrip.do_cum": 410, "flo.roundtrip.do_per": 410,
    "flo.roundtrip.do_with": 410, "flo.roundtrip.inc": 213, "flo.roundtrip.init": 410, "flo.roundtrip.need": 361,
    "flo.roundtrip.put": 410, "flo.roundtrip.set": 410, "flo.roundtrip_checks": 5415,
    "flo.scripts_built_and_run": 85, "flo.set.bool": 56, "flo.set.complex": 272, "flo.set.dec": 238,
    "flo.set.error": 58, "flo.set.float": 456, "flo.set.hex": 155, "flo.set.infnan": 7, "flo.set.latlon": 262,
    "flo.set.none": 20, "flo.set.path": 159, "flo.set.point2": 382, "flo.set.point3": 332, "flo.set.quoted": 244,
    "flo.single_statement_scripts": 1040,
}
FLOORS_THOROUGH = {
    "direct.Convert2BoolCoordNum.bool": 682, "direct.Convert2BoolCoordNum.complex": 1332,
    "direct.Convert2BoolCoordNum.dec": 2278, "direct.Convert2BoolCoordNum.error": 8465,
    "direct.Convert2BoolCoordNum.float": 2652, "direct.Convert2BoolCoordNum.hex": 1256,
    "direct.Convert2BoolCoordNum.infnan": 11, "direct.Convert2BoolCoordNum.latlon": 1502,
    "direct.Convert2BoolCoordNum.none": 338, "direct.Convert2BoolCoordPointNum.bool": 682,
    "direct.Convert2BoolCoordPointNum.complex": 1332, "direct.Convert2BoolCoordPointNum.dec": 2278,
    "direct.Convert2BoolCoordPointNum.error": 5310, "direct.Convert2BoolCoordPointNum.float": 2652,
    "direct.Convert2BoolCoordPointNum.hex": 1256, "direct.Convert2BoolCoordPointNum.infnan": 11,
    "direct.Convert2BoolCoordPointNum.latlon": 1502, "direct.Convert2BoolCoordPointNum.none": 338,
    "direct.Convert2BoolCoordPointNum.point2": 1600, "direct.Convert2BoolCoordPointNum.point3": 1497,
    "direct.Convert2BoolPathCoordPointNum.bool": 682, "direct.Convert2BoolPathCoordPointNum.complex": 1332,
    "direct.Convert2BoolPathCoordPointNum.dec": 2278, "direct.Convert2BoolPathCoordPointNum.error": 4694,
    "direct.Convert2BoolPathCoordPointNum.float": 2652, "direct.Convert2BoolPathCoordPointNum.hex": 1256,
    "direct.Convert2BoolPathCoordPointNum.infnan": 7, "direct.Convert2BoolPathCoordPointNum.latlon": 1502,
    "direct.Convert2BoolPathCoordPointNum.none": 338, "direct.Convert2BoolPathCoordPointNum.path": 1338,
    "direct.Convert2BoolPathCoordPointNum.point2": 1600, "direct.Convert2BoolPathCoordPointNum.point3": 1497,
    "direct.Convert2CoordNum.complex": 1332, "direct.Convert2CoordNum.dec": 2278,
    "direct.Convert2CoordNum.error": 9491, "direct.Convert2CoordNum.float": 2652,
    "direct.Convert2CoordNum.hex": 1256, "direct.Convert2CoordNum.infnan": 11,
    "direct.Convert2CoordNum.latlon": 1502, "direct.Convert2CoordPointNum.complex": 1332,
    "direct.Convert2CoordPointNum.dec": 2278, "direct.Convert2CoordPointNum.error": 6336,
    "direct.Convert2CoordPointNum.float": 2652, "direct.Convert2CoordPointNum.hex": 1256,
    "direct.Convert2CoordPointNum.infnan": 11, "direct.Convert2CoordPointNum.latlon": 1502,
    "direct.Convert2CoordPointNum.point2": 1600, "direct.Convert2CoordPointNum.point3": 1497,
    "direct.Convert2Num.complex": 1332, "direct.Convert2Num.dec": 2278, "direct.Convert2Num.error": 10994,
    "direct.Convert2Num.float": 2652, "direct.Convert2Num.hex": 1256, "direct.Convert2Num.infnan": 11,
    "direct.Convert2PathCoordPointNum.complex": 1332, "direct.Convert2PathCoordPointNum.dec": 2278,
    "direct.Convert2PathCoordPointNum.error": 4694, "direct.Convert2PathCoordPointNum.float": 2652,
    "direct.Convert2PathCoordPointNum.hex": 1256, "direct.Convert2PathCoordPointNum.infnan": 7,
    "direct.Convert2PathCoordPointNum.latlon": 1502, "direct.Convert2PathCoordPointNum.path": 2365,
    "direct.Convert2PathCoordPointNum.point2": 1600, "direct.Convert2PathCoordPointNum.point3": 1497,
    "direct.Convert2PointNum.complex": 1332, "direct.Convert2PointNum.dec": 2278,
    "direct.Convert2PointNum.error": 7839, "direct.Convert2PointNum.float": 2652,
    "direct.Convert2PointNum.hex": 1256, "direct.Convert2PointNum.infnan": 11,
    "direct.Convert2PointNum.point2": 1600, "direct.Convert2PointNum.point3": 1497,
    "direct.Convert2StrBoolCoordNum.bool": 682, "direct.Convert2StrBoolCoordNum.complex": 1332,
    "direct.Convert2StrBoolCoordNum.dec": 2278, "direct.Convert2StrBoolCoordNum.error": 5801,
    "direct.Convert2StrBoolCoordNum.float": 2652, "direct.Convert2StrBoolCoordNum.hex": 1256,
    "direct.Convert2StrBoolCoordNum.infnan": 11, "direct.Convert2StrBoolCoordNum.latlon": 1502,
    "direct.Convert2StrBoolCoordNum.none": 338, "direct.Convert2StrBoolCoordNum.quoted": 3121,
    "direct.Convert2StrBoolPathCoordPointNum.bool": 682, "direct.Convert2StrBoolPathCoordPointNum.complex": 1332,
    "direct.Convert2StrBoolPathCoordPointNum.dec": 2278, "direct.Convert2StrBoolPathCoordPointNum.error": 2030,
    "direct.Convert2StrBoolPathCoordPointNum.float": 2652, "direct.Convert2StrBoolPathCoordPointNum.hex": 1256,
    "direct.Convert2StrBoolPathCoordPointNum.infnan": 7, "direct.Convert2StrBoolPathCoordPointNum.latlon": 1502,
    "direct.Convert2StrBoolPathCoordPointNum.none": 338, "direct.Convert2StrBoolPathCoordPointNum.path": 1338,
    "direct.Convert2StrBoolPathCoordPointNum.point2": 1600, "direct.Convert2StrBoolPathCoordPointNum.point3": 1497,
    "direct.Convert2StrBoolPathCoordPointNum.quoted": 3121, "direct.ctx.Convert2BoolCoordNum": 19952,
    "direct.ctx.Convert2BoolCoordPointNum": 19952, "direct.ctx.Convert2BoolPathCoordPointNum": 19952,
    "direct.ctx.Convert2CoordNum": 19952, "direct.ctx.Convert2CoordPointNum": 19952, "direct.ctx.Convert2Num": 19952,
    "direct.ctx.Convert2PathCoordPointNum": 19952, "direct.ctx.Convert2PointNum": 19952,
    "direct.ctx.Convert2StrBoolCoordNum": 19952, "direct.ctx.Convert2StrBoolPathCoordPointNum": 19952,
    "direct.kind.bool": 3413, "direct.kind.complex": 13320, "direct.kind.dec": 22780, "direct.kind.error": 65657,
    "direct.kind.float": 26526, "direct.kind.hex": 12563, "direct.kind.infnan": 99, "direct.kind.latlon": 12021,
    "direct.kind.none": 1691, "direct.kind.path": 5042, "direct.kind.point2": 9600, "direct.kind.point3": 8986,
    "direct.kind.quoted": 6242, "direct.roundtrip.Convert2BoolCoordNum": 7021,
    "direct.roundtrip.Convert2BoolCoordPointNum": 7021, "direct.roundtrip.Convert2BoolPathCoordPointNum": 7021,
    "direct.roundtrip.Convert2CoordNum": 7021, "direct.roundtrip.Convert2CoordPointNum": 7021,
    "direct.roundtrip.Convert2Num": 7021, "direct.roundtrip.Convert2PathCoordPointNum": 7021,
    "direct.roundtrip.Convert2PointNum": 7021, "direct.roundtrip.Convert2StrBoolCoordNum": 7021,
    "direct.roundtrip.Convert2StrBoolPathCoordPointNum": 7021, "direct.roundtrip_checks": 45130, "flo.bid.dec": 1291,
    "flo.bid.error": 10682, "flo.bid.float": 1643, "flo.bid.hex": 847, "flo.bid.indirect": 1461, "flo.bid.infnan": 4,
    "flo.ctx.bid": 18552, "flo.ctx.do_cum": 19823, "flo.ctx.do_per": 19823, "flo.ctx.do_with": 19823,
    "flo.ctx.inc": 11917, "flo.ctx.init": 19823, "flo.ctx.need": 19015, "flo.ctx.put": 19823, "flo.ctx.set": 19823,
    "flo.do_cum.bool": 682, "flo.do_cum.complex": 1332, "flo.do_cum.dec": 2278, "flo.do_cum.error": 2030,
    "flo.do_cum.float": 2652, "flo.do_cum.hex": 1256, "flo.do_cum.infnan": 7, "flo.do_cum.latlon": 1502,
    "flo.do_cum.none": 338, "flo.do_cum.path": 1338, "flo.do_cum.point2": 1600, "flo.do_cum.point3": 1497,
    "flo.do_cum.quoted": 3120, "flo.do_per.bool": 682, "flo.do_per.complex": 1332, "flo.do_per.dec": 2278,
    "flo.do_per.error": 2030, "flo.do_per.float": 2652, "flo.do_per.hex": 1256, "flo.do_per.infnan": 7,
    "flo.do_per.latlon": 1502, "flo.do_per.none": 338, "flo.do_per.path": 1338, "flo.do_per.point2": 1600,
    "flo.do_per.point3": 1497, "flo.do_per.quoted": 3120, "flo.do_with.bool": 682, "flo.do_with.complex": 1332,
    "flo.do_with.dec": 2278, "flo.do_with.error": 2030, "flo.do_with.float": 2652, "flo.do_with.hex": 1256,
    "flo.do_with.infnan": 7, "flo.do_with.latlon": 1502, "flo.do_with.none": 338, "flo.do_with.path": 1338,
    "flo.do_with.point2": 1600, "flo.do_with.point3": 1497, "flo.do_with.quoted": 3120, "flo.inc.bool": 682,
    "flo.inc.complex": 1332, "flo.inc.dec": 2278, "flo.inc.error": 2030, "flo.inc.float": 2652, "flo.inc.hex": 1256,
    "flo.inc.infnan": 7, "flo.inc.latlon": 1502, "flo.init.bool": 682, "flo.init.complex": 1332,
    "flo.init.dec": 2278, "flo.init.error": 2030, "flo.init.float": 2652, "flo.init.hex": 1256, "flo.init.infnan": 7,
    "flo.init.latlon": 1502, "flo.init.none": 338, "flo.init.path": 1338, "flo.init.point2": 1600,
    "flo.init.point3": 1497, "flo.init.quoted": 3120, "flo.kind.bool": 5461, "flo.kind.complex": 10656,
    "flo.kind.dec": 19515, "flo.kind.error": 30077, "flo.kind.float": 22864, "flo.kind.hex": 10897,
    "flo.kind.indirect": 1897, "flo.kind.infnan": 67, "flo.kind.latlon": 12021, "flo.kind.none": 2368,
    "flo.kind.path": 8032, "flo.kind.point2": 9600, "flo.kind.point3": 8986, "flo.kind.quoted": 21840,
    "flo.literals": 19950, "flo.need.bool": 682, "flo.need.complex": 1332, "flo.need.dec": 2278,
    "flo.need.error": 5185, "flo.need.float": 2652, "flo.need.hex": 1256, "flo.need.indirect": 435,
    "flo.need.infnan": 11, "flo.need.latlon": 1502, "flo.need.none": 338, "flo.need.quoted": 3120,
    "flo.need_transition_observed": 13192, "flo.put.bool": 682, "flo.put.complex": 1332, "flo.put.dec": 2278,
    "flo.put.error": 2030, "flo.put.float": 2652, "flo.put.hex": 1256, "flo.put.infnan": 7, "flo.put.latlon": 1502,
    "flo.put.none": 338, "flo.put.path": 1338, "flo.put.point2": 1600, "flo.put.point3": 1497,
    "flo.put.quoted": 3120, "flo.roundtrip.bid": 6701, "flo.roundtrip.do_cum": 7021, "flo.roundtrip.do_per": 7021,
    "flo.roundtrip.do_with": 7021, "flo.roundtrip.inc": 3673, "flo.roundtrip.init": 7021, "flo.roundtrip.need": 7021,
    "flo.roundtrip.put": 7021, "flo.roundtrip.set": 7021, "flo.roundtrip_checks": 92776,
    "flo.scripts_built_and_run": 587, "flo.set.bool": 682, "flo.set.complex": 1332, "flo.set.dec": 2278,
    "flo.set.error": 2030, "flo.set.float": 2652, "flo.set.hex": 1256, "flo.set.infnan": 7, "flo.set.latlon": 1502,
    "flo.set.none": 338, "flo.set.path": 1338, "flo.set.point2": 1600, "flo.set.point3": 1497,
    "flo.set.quoted": 3120, "flo.single_statement_scripts": 33031,
}


def run(ctx):
    cases = gen_cases(ctx)
    ctx.exhaustive = False
    ctx.extra["grammar_literals"] = len(L.grammar())
    ctx.extra["literals_total"] = len(cases)
    ctx.extra["roundtrip_values"] = sum(1 for c in cases if c.get("has_rt"))
    fams = {}
    for c in cases:
        fams[c["fam"]] = fams.get(c["fam"], 0) + 1
    ctx.extra["literal_families"] = fams
    for c in [cases[3], cases[len(L.grammar()) + 7], cases[-3]]:
        ctx.sample({"literal": c["t"], "family": c["fam"],
                    "documented_outcome": dict((k, L.describe_exp(expect(c["t"], k))) for k in ("put", "need", "bid"))})
    nflo = 12
    jobs = [{"kind": "flo", "shard": i, "of": nflo} for i in range(nflo)]
    jobs += [{"kind": "direct", "shard": i, "of": 2} for i in range(2)]
    ctx.shard(jobs, timeout=ctx.pick(150, 600), procs=14)
    # the two workloads, separately
    for wl, name in (("flo.", "workload_floscript"), ("direct.", "workload_direct_calls")):
        ctx.extra[name] = dict((k[len(wl):], v) for k, v in sorted(ctx.hits.items())
                               if k.startswith(wl) and k.count(".") == 2 and k.split(".")[1] in ("ctx", "kind", "roundtrip"))
        ctx.extra[name]["oracle2_roundtrip_checks"] = ctx.hits.get(wl + "roundtrip_checks", 0)
    ctx.extra["workload_floscript"]["scripts_built_and_run"] = ctx.hits.get("flo.scripts_built_and_run", 0)
    ctx.extra["workload_floscript"]["single_statement_scripts"] = ctx.hits.get("flo.single_statement_scripts", 0)
    ctx.extra["workload_floscript"]["need_transitions_observed"] = ctx.hits.get("flo.need_transition_observed", 0)
    floors = FLOORS_QUICK if ctx.quick else FLOORS_THOROUGH
    for k, v in floors.items():
        ctx.floor(k, v)
