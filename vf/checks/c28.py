"""C28 idle timeouts drop only idle connections (engine D).

Real ``Valet`` (WSGI server) and ``Porter`` on a pre-built ``Server`` /
``ServerTls`` (``servant=``, ephemeral 127.0.0.1 port, certificates from
ioflo/aio/test/tls/certs), driven tick by tick under virtual time (a shared
Stamper is the store of server, front end and wire log).  Clients are ioflo
``Client`` / ``ClientTls`` objects used as byte pipes.  Per connection a plan
says at which ticks request pieces are sent and (Valet) at which ticks the
streaming WSGI application yields body chunks; gaps are placed around the
timeout (8 ticks).

Monitor: a recording wire log (``wlog=``) stamps every chunk the server
received / sent per connection with the virtual time; after every
``serviceAll`` the connection table is compared with the one before.

    a connection that disappears although the client did not close and the
    response had not ended was closed by the idle timer:
        now - max(accept instant, last rx/tx instant)  >=  timeout
    a connection whose request the server marked persisted is never closed
    by the server while the client keeps it open
"""
import random
import time
import ssl

from vf.core import exc_key, Inconclusive, REPO
from vf.iodoubles import RecWireLog, Loop, clock

LEVEL = "exploration"
TICKS = 8          # ticks per timeout
RULE = ("front end in {Valet, Porter} x socket in {plain, TLS} x timeout in {1, 2} x 1..2 concurrent connections, each with "
        "a plan: request kind in {HTTP/1.1 persisted, HTTP/1.1 Connection: close, HTTP/1.0, HTTP/1.0 keep-alive, nothing "
        "sent}, request split into 1..4 pieces and (Valet) 1..4 streamed body chunks with gaps of 0,1,3,7,8,9,12 ticks "
        "(timeout = 8 ticks), then up to 20 idle ticks; 2..3 service rounds per tick in generated order; distinct = "
        "distinct (front, socket, timeout, plans); non-trivial = some connection saw activity later than one timeout "
        "after its accept, or was closed by the timer, or stayed persisted and idle beyond the timeout")
RULE = __import__("vf.core", fromlist=["rule_add"]).rule_add(RULE, 'also a Valet built without a timeout (its class default); also three-phase connections (keep-alive request, silence for several timeouts, a last request that asks to close and is answered some passes later) and TLS connections that complete their handshake late')
META = {"engine": "D loopback", "technique": "trace invariant over virtual-time activity instants and connection-table changes",
        "level_text": "generated request/stream schedules around the timeout over real loopback sockets, plain and TLS",
        "level_note": "persistence is read from the server's own Requestant.persisted; TLS handshake happens at one virtual instant"}

from vf import net
HOST = net.host()       # a loopback address of this process alone (see vf/net.py)
CERTS = REPO + "/ioflo/aio/test/tls/certs/"
GAPS = (0, 1, 3, 7, 8, 9, 12)

REQS = {
    "p11": b"GET /%s HTTP/1.1\r\nHost: localhost\r\nContent-Length: 0\r\n\r\n",
    "close11": b"GET /%s HTTP/1.1\r\nHost: localhost\r\nConnection: close\r\nContent-Length: 0\r\n\r\n",
    "http10": b"GET /%s HTTP/1.0\r\n\r\n",
    "keep10": b"GET /%s HTTP/1.0\r\nConnection: keep-alive\r\nContent-Length: 0\r\n\r\n",
}


class Plan(object):
    def __init__(self, name, kind, start, pieces, emits, idle):
        self.name = name          # path / id
        self.kind = kind
        self.start = start        # tick at which the client connects
        self.pieces = pieces      # [(tick, bytes)]
        self.emits = emits        # [tick] at which the application yields a body chunk
        self.idle = idle          # idle ticks after the last planned action
        self.finished = False     # application generator ran to its end
        self.emitted = 0
        self.big = 0              # > 0: the one body chunk has this many bytes and the client drains it slowly

    def describe(self):
        return {"id": self.name, "request": self.kind, "connect_tick": self.start,
                "piece_ticks": [t for t, _ in self.pieces], "piece_lengths": [len(b) for _, b in self.pieces],
                "body_chunk_ticks": self.emits, "idle_ticks_after": self.idle, "big_body_bytes": self.big}

    def last_tick(self):
        return max([self.start] + [t for t, _ in self.pieces] + self.emits) + self.idle


def gen_plan(rng, name, front, start):
    kind = rng.choice(("p11", "close11", "http10", "keep10", "close11", "http10", "silent"))
    pieces = []
    t = start
    if kind != "silent":
        req = REQS[kind] % name.encode()
        n = rng.randint(1, 4)
        cuts = sorted(rng.sample(range(1, len(req)), n - 1)) if n > 1 else []
        parts = [req[a:b] for a, b in zip([0] + cuts, cuts + [len(req)])]
        for p in parts:
            t += rng.choice(GAPS)
            pieces.append((t, p))
    emits = []
    if front == "Valet" and kind != "silent":
        for _ in range(rng.randint(1, 4)):
            t += max(1, rng.choice(GAPS))
            emits.append(t)
    plan = Plan(name, kind, start, pieces, emits, rng.choice((2, 9, 12, 20)))
    if emits and kind in ("close11", "http10") and rng.random() < 0.35:
        # a body much larger than the (deliberately small) socket buffers, read slowly by the client: for longer than
        # the timeout every server pass is a *partial* send -- bytes flow all the time, the connection is not idle
        plan.big = rng.choice((300000, 450000, 1200000, 1200000))
        plan.emits = emits[:1]
        plan.idle = 60
    return plan


class World(object):
    def __init__(self, front, tls, T, plans, own=False):
        from ioflo.aio.tcp import serving, clienting
        from ioflo.aio.http import serving as hserving
        self.front_name = front
        self.tls = tls
        self.T = T
        self.dt = T / TICKS
        self.clk = clock()
        self.tick = 0
        self.plans = {p.name: p for p in plans}
        self.wl = RecWireLog(clock=self.clk)
        if own:
            # the Valet builds its servant itself from scheme / address / timeout (a port has to be named: 0 means the
            # scheme's default port there)
            kw = dict(scheme="https", certify=ssl.CERT_NONE, keypath=CERTS + "server_key.pem",
                      certpath=CERTS + "server_cert.pem") if tls else dict(scheme="http")
            for port in net.listen_ports():
                if own == "default":
                    self.front = hserving.Valet(store=self.clk, app=self.app, ha=(HOST, port), wlog=self.wl, **kw)
                    if self.front.timeout != T:
                        raise Inconclusive("a Valet built without a timeout reports %r, not its class default" % (self.front.timeout,))
                else:
                    self.front = hserving.Valet(store=self.clk, app=self.app, timeout=T, ha=(HOST, port), wlog=self.wl, **kw)
                self.srv = self.front.servant
                if self.srv.reopen():
                    break
            else:
                raise Inconclusive("cannot open a loopback listen socket")
        else:
            if tls:
                self.srv = serving.ServerTls(ha=(HOST, 0), store=self.clk, timeout=T, wlog=self.wl, certify=ssl.CERT_NONE,
                                             keypath=CERTS + "server_key.pem", certpath=CERTS + "server_cert.pem")
            else:
                self.srv = serving.Server(ha=(HOST, 0), store=self.clk, timeout=T, wlog=self.wl)
            if front == "Valet":
                self.front = hserving.Valet(servant=self.srv, store=self.clk, app=self.app, timeout=T)
            else:
                self.front = hserving.Porter(servant=self.srv, store=self.clk, timeout=T)
            if not self.srv.reopen():
                raise Inconclusive("cannot open a loopback listen socket")
        self.srv.eha = self.srv.ha       # ServerTls compares accepted sockets with .eha; port 0 is only known now
        if any(p.big for p in plans):
            import socket as _socket        # accepted sockets inherit the small send buffer (and no auto-tuning)
            self.srv.ss.setsockopt(_socket.SOL_SOCKET, _socket.SO_SNDBUF, 8192)
        self.clients = {}
        self.clienting = clienting

    def app(self, environ, start_response):
        plan = self.plans[environ["PATH_INFO"].lstrip("/")]
        start_response("200 OK", [("Content-Type", "text/plain")])
        while plan.emitted < len(plan.emits):
            if self.tick >= plan.emits[plan.emitted]:
                plan.emitted += 1
                if plan.big:
                    yield b"%-16s" % (b"<%s#big>" % plan.name.encode()) * (plan.big // 16)
                else:
                    yield b"<%s#%d>" % (plan.name.encode(), plan.emitted)
            else:
                yield b""
        plan.finished = True

    def connect(self, plan):
        if self.tls:
            cl = self.clienting.ClientTls(ha=self.srv.ha, store=self.clk, certify=ssl.CERT_NONE, hostify=False,
                                          certedhost="localhost", timeout=0.0)
        else:
            cl = self.clienting.Client(ha=self.srv.ha, store=self.clk, timeout=0.0)
        cl.reopen()
        if plan.big:
            import socket as _socket
            cl.cs.setsockopt(_socket.SOL_SOCKET, _socket.SO_RCVBUF, 4096)
        self.clients[plan.name] = cl
        return cl

    def requestant(self, ca):
        if self.front_name == "Valet":
            return self.front.reqs.get(ca)
        st = self.front.stewards.get(ca)
        return st.requestant if st is not None else None

    def close(self):
        for cl in self.clients.values():
            try:
                cl.close()
            except Exception:   # noqa
                pass
        try:
            self.srv.closeAll()
        except Exception:   # noqa
            pass


def run_case(ctx, rng, idx):
    front = rng.choice(("Valet", "Porter"))
    tls = rng.random() < 0.5
    T = rng.choice((1.0, 2.0))
    own = front == "Valet" and rng.random() < 0.3
    if own:
        T = rng.choice((1.0, 2.0, 8.0, 8.0))      # also a timeout beyond the class default
        # ... or no timeout argument at all: the configured timeout is then the one the Valet reports (its class default)
        r2 = random.Random(repr((idx, front, tls, T)))
        if r2.random() < 0.5:
            own = "default"
            from ioflo.aio.http import serving as _hs
            T = float(_hs.Valet.Timeout)
    nconn = rng.choice((1, 1, 2))
    plans = [gen_plan(rng, "c%da" % idx, front, 0)]
    if nconn == 2:
        plans.append(gen_plan(rng, "c%db" % idx, front, rng.choice((0, 1, 3, 5, 9))))
    sock = "tls" if tls else "plain"
    desc = {"front": front, "socket": sock, "timeout": T, "ticks_per_timeout": TICKS, "plans": [p.describe() for p in plans]}
    W = World(front, tls, T, plans, own=own)
    if own:
        ctx.hit("valet_builds_its_own_servant_" + sock)
        if own == "default":
            ctx.hit("valet_with_default_timeout_" + sock)
        desc["servant"] = "built by the Valet"
    loop = Loop(W.clk, wall_limit=30.0)
    rounds_per_tick = 3 if tls else 2
    info = {}       # plan name -> dict(ca, accept, persisted, closed, client_closed)
    log = []
    nontrivial = [False]

    def wit(extra=None):
        def f():
            w = dict(desc, tick=W.tick, clock=W.clk.stamp, log=log[-25:])
            if extra:
                w.update(extra)
            return w
        return f

    def last_activity(ca, accept, upto=None):
        stamps = [s for (_, a, s) in W.wl.stamps[:upto] if a == ca]
        return max([accept] + stamps)

    def serve():
        before = set(W.srv.ixes.keys())
        nstamps = len(W.wl.stamps)      # closing a connection flushes its last bytes: that is not activity before the close
        loop.call("serviceAll", W.front.serviceAll)
        after = set(W.srv.ixes.keys())
        ctx.event()
        now = W.clk.stamp
        for name, cl in W.clients.items():
            st = info.setdefault(name, {"ca": None, "accept": None, "persisted": False, "closed": None})
            if st["ca"] is None and cl.connected and cl.ca in after:
                st["ca"], st["accept"] = cl.ca, now
                log.append("tick %d: %s accepted as %r" % (W.tick, name, cl.ca))
            ca = st["ca"]
            if ca is None or st["closed"] is not None:
                continue
            r = W.requestant(ca)
            if r is not None and r.persisted and not st["persisted"]:
                st["persisted"] = True
                log.append("tick %d: %s marked persisted by the server" % (W.tick, name))
            plan = W.plans[name]
            la = last_activity(ca, st["accept"], None if ca in after else nstamps)
            if ca in after:
                if not st["persisted"] and now - st["accept"] >= T and la > st["accept"] + T - 1e-9:
                    ctx.hit("active_beyond_timeout_%s" % sock)
                    nontrivial[0] = True
                if st["persisted"] and now - la >= T:
                    ctx.hit("persisted_idle_beyond_timeout_%s" % sock)
                    ctx.check(True, "%s/%s/persisted-connection-closed-by-server" % (front, sock))   # still open: holds
                    nontrivial[0] = True
                continue
            if ca in before and ca not in after:
                st["closed"] = now
                sent_all = b"".join(d for a, d in W.wl.rx if a == ca) == b"".join(b for _, b in plan.pieces) and plan.pieces
                if front == "Valet":
                    ended = plan.finished
                    if plan.big:        # ... and ended only when the server has handed the whole body to its socket
                        handed = sum(len(d) for a, d in W.wl.tx if a == ca)
                        ended = ended and handed >= plan.big
                        ctx.hit("big_body_closures")
                        if now - st["accept"] > T:
                            ctx.hit("big_body_transfer_longer_than_timeout")
                else:
                    ended = bool(sent_all)
                reason = "response ended" if (ended and not st["persisted"]) else "timer"
                log.append("tick %d (t=%g): server closed %s, last activity t=%g, reason: %s"
                           % (W.tick, now, name, la, reason))
                w = wit({"connection": name, "closed_at": now, "accepted_at": st["accept"], "last_activity_at": la,
                         "idle_for": now - la, "activity_before_the_closing_call": [(k, s) for (k, a, s) in W.wl.stamps[:nstamps] if a == ca][-12:]})
                if st["persisted"]:
                    ctx.fail("%s/%s/persisted-connection-closed-by-server" % (front, sock),
                             "%s (%s): a connection kept alive by HTTP persistence was closed by the server although the "
                             "client kept it open (idle for %g, timeout %g)" % (front, sock, now - la, T), w)
                elif reason == "timer":
                    ctx.hit("timer_closures_%s" % sock)
                    nontrivial[0] = True
                    ctx.check(now - la >= T - 1e-9, "%s/%s/closed-before-idle-timeout" % (front, sock),
                              "%s (%s): connection closed for idleness %g after its last activity, timeout is %g"
                              % (front, sock, now - la, T), w)
                else:
                    ctx.hit("ended_closures")
                    ctx.check(True, "ok")

    try:
        try:
            last = max(p.last_tick() for p in plans)
            for tick in range(last + 1):
                W.tick = tick
                for p in plans:
                    if p.start == tick:
                        cl = W.connect(p)
                        # connection set-up (and TLS handshake) at one virtual instant
                        def c_rx(cl=cl):
                            if cl.connected and not cl.cutoff:
                                cl.serviceReceives()
                        r = loop.until(lambda: (cl.connected and cl.ca in W.srv.ixes) or cl.cutoff,
                                       [("C.serviceConnect", cl.serviceConnect), ("serve", serve), ("C.rx", c_rx)], 200)
                        if cl.cutoff:
                            # accepted and dropped by the server at the very instant of the accept
                            ctx.fail("%s/%s/closed-before-idle-timeout" % (front, sock),
                                     "%s (%s): connection closed by the server at the instant it was accepted, "
                                     "timeout is %g" % (front, sock, T), wit({"connection": p.name}))
                            return
                        if r is None:
                            ctx.inconclusive_case("C28: client did not connect to the loopback server in 200 rounds")
                            return
                    for (t, data) in p.pieces:
                        if t == tick and p.name in W.clients:
                            W.clients[p.name].tx(data)
                            log.append("tick %d: %s sends %d request bytes" % (tick, p.name, len(data)))
                for _ in range(rounds_per_tick):
                    order = list(W.clients.values())
                    rng.shuffle(order)
                    for cl in order:
                        if cl.connected and not cl.cutoff:
                            try:
                                cl.serviceTxes()
                            except OSError:
                                # the harness' own client writes to a connection the server has closed (EPIPE propagates
                                # from Client.send by design): the client end is gone, not a server-side event
                                cl.cutoff = True
                                ctx.hit("harness_client_write_after_server_close")
                    serve()
                    for cl in order:
                        if cl.connected and not cl.cutoff:
                            if any(p.big and W.clients.get(p.name) is cl for p in plans):
                                cl.serviceReceiveOnce()      # a slow reader: one buffer per round
                                del cl.rxbs[:]
                            else:
                                cl.serviceReceives()
                loop.watchdog()
                loop.advance(W.dt)
            ctx.hit("connections", len(plans))
            ctx.hit("cases_%s_%s" % (front, sock))
        except Inconclusive:
            raise
        except Exception as ex:   # noqa
            ctx.fail("%s/%s/raises/%s" % (front, sock, exc_key(ex)), "a service call raised %r" % (ex,),
                     wit({"raised": repr(ex)}))
    finally:
        ctx.case((front, sock, T, [p.describe() for p in plans]), nontrivial=nontrivial[0])
        if idx % 1000 == 0:
            ctx.sample(dict(desc, log=log[:12]))
        W.close()


def persist_then_close_case(ctx, rng, idx):
    """One connection, three phases: a keep-alive request; silence for several timeouts (the connection is persistent and
    stays); a last request that asks to close and whose application produces nothing for a few service passes (an upload
    being stored, a slow lookup).  The request has just arrived, so the idle timer - which applies again to a connection
    that is no longer kept alive - must not drop it: the response arrives complete."""
    from vf import httpgen as hg
    from ioflo.aid.odicting import odict
    T = rng.choice((1.0, 2.0))
    quiet = rng.choice((2, 3, 5)) * T + rng.choice((0.0, 0.25))
    lag = rng.randint(1, 4)              # service passes before the application's first byte
    state = {"n": 0}

    def app(environ, start_response):
        path = environ.get("PATH_INFO")
        start_response("200 OK", [("Content-Type", "text/plain")])
        if path == "/last":
            for _ in range(lag):
                yield b""
        yield b"answer to " + path.encode()
    pair = hg.Pair(app, rng=rng, mem=True, timeout=T)
    dt = rng.choice((0.125, 0.25))
    try:
        patron = pair.patron()
        patron.request(method="GET", path="/first")
        pair.pump(lambda: len(patron.responses) >= 1, cap=60)
        if len(patron.responses) != 1:
            ctx.inconclusive_case("the keep-alive exchange did not complete")
            return
        t = 0.0
        while t < quiet:
            pair.store.advanceStamp(dt)
            t += dt
            pair.round()
        alive = bool(pair.servant.ixes)
        patron.request(method="GET", path="/last", headers=odict([("Connection", "close")]))
        for _ in range(80):
            if len(patron.responses) >= 2:
                break
            pair.store.advanceStamp(dt)
            pair.round()
        ctx.event(pair.rounds)
        ctx.case(("persist-then-close", T, quiet, lag, dt), nontrivial=True)
        ctx.hit("persist_then_close_cases")
        got = [(r["status"], bytes(r["body"]), bool(r["errored"])) for r in patron.responses]
        w = lambda: {"timeout": T, "quiet_seconds": quiet, "passes_before_first_byte": lag, "store_step": dt, "responses": repr(got),
                     "connection_alive_after_the_quiet_time": alive}
        ctx.check(alive, "Valet/plain/persisted-connection-closed-by-server/three-phase",
                  "a connection kept alive by HTTP persistence was gone after %.2f s of quiet (timeout %.1f)" % (quiet, T), w)
        if alive:
            ctx.check(got[1:] == [(200, b"answer to /last", False)], "Valet/plain/last-request-of-a-persistent-connection-dropped-by-a-stale-idle-timer",
                      "the last request of a connection that had been kept alive (Connection: close, application silent for %d passes) did "
                      "not get its complete answer: %r" % (lag, got[1:]), w)
    finally:
        pair.close()


def late_handshake_case(ctx, rng, idx):
    """A TLS connection whose client connects, stays silent for a while and only then performs the handshake (bytes in both
    directions), sending its request a little later: the handshake is activity on the connection, so the idle period counts
    from it, not from the accept."""
    front = rng.choice(("Valet", "Porter"))
    T = rng.choice((1.0, 2.0))
    rng.choice(("p11", "close11", "http10"))
    kind = "p11"        # a persistent request: the only thing that can take the connection away before it is answered is the idle timer
    plan = Plan("late%d" % idx, kind, 0, [], [], 9)
    W = World(front, True, T, [plan])
    dt = T / TICKS
    hs_at = rng.choice((TICKS // 2, TICKS - 2, TICKS - 1))            # ticks of silence before the handshake
    req_after = rng.choice((1, 2, TICKS // 2))                         # ticks between handshake and request (well below T)
    while hs_at + req_after < TICKS:                                   # ... at least one timeout after the accept
        req_after += 1
    desc = {"front": front, "timeout": T, "tick": dt, "handshake_at_tick": hs_at, "request_at_tick": hs_at + req_after, "request": kind}
    try:
        cl = W.connect(plan)

        def serve():
            W.front.serviceAll()
        # the TCP connection is made and accepted (the server starts its TLS side), then nobody speaks
        for _ in range(200):
            if cl.accepted or W.clienting.Client.accept(cl):      # the TCP connection alone: no TLS record yet
                serve()
                if W.srv.cxes or W.srv.ixes:
                    break
            serve()
            time.sleep(0.0005)
        if not (W.srv.cxes or W.srv.ixes):
            ctx.hit("late_handshake_not_completed")
            return
        for tick in range(hs_at):
            for _ in range(3):
                serve()
            W.clk.advanceStamp(dt)
        # the handshake, at one virtual instant
        if not cl.certedhost:
            cl.certedhost = cl.ha[0]
        cl.wrap()
        for _ in range(200):
            cl.serviceConnect()
            serve()
            if (cl.connected and cl.ca in W.srv.ixes) or cl.cutoff:
                break
            time.sleep(0.0005)
        if not cl.connected or cl.cutoff or cl.ca not in W.srv.ixes:
            ctx.hit("late_handshake_not_completed")       # (dropped before the timeout would be a plain-row verdict)
            return
        for tick in range(req_after):
            W.clk.advanceStamp(dt)
            for _ in range(3):
                serve()
        alive = cl.ca in W.srv.ixes
        cl.tx(REQS[kind] % plan.name.encode())
        got = b""
        dropped = not alive
        for k in range(400):
            # no virtual time passes in this loop: the verdict is what the server does with the connection (answers it, or has
            # removed it), not how many wall-clock milliseconds the TLS records take to arrive
            try:
                cl.serviceTxes()
            except OSError:
                dropped = True
                break
            serve()
            if cl.connected and not cl.cutoff:
                cl.serviceReceives()
            got = bytes(cl.rxbs)
            if b"\r\n\r\n" in got:
                break
            if cl.cutoff:           # the server's end of the connection is closed and everything it sent has been read
                dropped = not got.startswith(b"HTTP/1.")
                break
            time.sleep(0.0005 if k < 40 else 0.005)
        ctx.event()
        ctx.case(("late-handshake", front, T, hs_at, req_after, kind), nontrivial=True)
        if not dropped and not got.startswith(b"HTTP/1."):
            ctx.hit("late_handshake_answer_not_seen_in_time")
            return
        ctx.hit("late_handshake_cases")
        ctx.check(not dropped, "%s/tls/closed-before-idle-timeout/idle-period-counted-from-the-accept" % front,
                  "%s (tls): the connection completed its TLS handshake %.2f s after the accept and sent a request %.2f s later "
                  "(timeout %.1f); the server dropped it as idle%s" % (front, hs_at * dt, req_after * dt, T,
                                                                      "" if alive else " before the request"),
                  lambda: dict(desc, alive_at_request=alive, received=got[:80].decode("latin-1")))
    finally:
        W.close()


def worker(ctx, job):
    if job.get("ptc"):
        rng2 = ctx.subrng("c28late", job["k"])
        for i in range(max(2, job["ptc"] // 2)):
            try:
                late_handshake_case(ctx, rng2, i)
            except Inconclusive as e:
                ctx.inconclusive_case(str(e))
    if job.get("ptc"):
        rng = ctx.subrng("c28ptc", job["k"])
        for i in range(job["ptc"]):
            persist_then_close_case(ctx, rng, i)
    from ioflo.aid.consoling import getConsole
    console = getConsole()
    console.reinit(verbosity=console.Wordage.mute)
    rng = ctx.subrng("c28", job["k"])
    for i in range(job["N"]):
        run_case(ctx, rng, job["k"] * 1000 + i)


def run(ctx):
    K = ctx.pick(12, 16)
    jobs = [{"k": k, "N": ctx.pick(30, 1500), "ptc": ctx.pick(6, 120)} for k in range(K)]
    ctx.floor("persist_then_close_cases", ctx.pick(50, 1000))
    ctx.floor("late_handshake_cases", ctx.pick(20, 400))
    ctx.shard(jobs, timeout=ctx.pick(120, 1500))
    for sock in ("plain", "tls"):
        ctx.floor("active_beyond_timeout_%s" % sock, ctx.pick(60, 900))
        ctx.floor("persisted_idle_beyond_timeout_%s" % sock, ctx.pick(100, 1500))
        ctx.floor("timer_closures_%s" % sock, ctx.pick(20, 300))
        for front in ("Valet", "Porter"):
            ctx.floor("cases_%s_%s" % (front, sock), ctx.pick(40, 600))
    ctx.floor("distinct_nontrivial", ctx.pick(150, 2000))
    for sock in ("plain", "tls"):
        ctx.floor("valet_builds_its_own_servant_%s" % sock, ctx.pick(8, 150))
        ctx.floor("valet_with_default_timeout_%s" % sock, ctx.pick(3, 40))
    ctx.floor("big_body_transfer_longer_than_timeout", ctx.pick(8, 100))
