"""C42 timers on a scripted clock (engine B, history + model).

``ioflo.aid.timing.time`` (the module object the timer classes call
``time.time()`` on) is replaced in the worker by a scripted clock that hands
out one prepared reading per call; ``StoreTimer`` runs on a ``Stamper`` or a
real ``Store`` whose stamp the harness sets.  All readings, durations and
extensions are multiples of 1/16 below 2**31, so every float operation of the
implementation is exact and the comparison with the rational model is ``==``.

Model (written from the statement):

  elapsed = max(0, clock - start)     remaining = max(0, stop - clock)     expired <=> clock >= stop
  restart([start][, duration])  start := given or clock, stop := start + duration
  repeat()                      start := previous stop,   stop := start + duration
  extend([e])                   duration += e (or doubles), start kept, stop := start + duration
  monotonic timer: every operation first looks at the clock; on a backward jump d < 0 it either shifts start
  and stop by d (compensating) or raises TimerRetroError and changes nothing (not compensating)

After every operation: return value / exception class, and .start .stop .duration, are compared; in addition the
statement's invariants are evaluated on the observations alone (elapsed, remaining >= 0; compensating monotonic
timer: elapsed never decreases between operations that do not move start).
"""
from fractions import Fraction

from vf.core import exc_key

LEVEL = "exploration"
RULE = ("seeded random histories of 12..60 steps per timer; a step = one clock move (forward 1/16..64, standstill, "
        "backward jump, occasionally beyond the timer's start or below its stop) followed by one operation out of "
        "elapsed / remaining / expired / restart() / restart(start) / restart(duration) / restart(start, duration) / "
        "repeat() / extend() / extend(e >= -duration); timer kinds: Timer, MonoTimer(retro=True), MonoTimer("
        "retro=False), StoreTimer on a Stamper, StoreTimer on a Store; clock bases 0, 50 and 1.7e9; MonoTimer "
        "construction sees two readings (sometimes the second earlier than the first); plus all 3-step histories "
        "over a small alphabet of moves and operations for every kind (exhaustive); distinct = distinct (kind, "
        "initial duration, list of moves and operations); non-trivial = at least one read after a clock move and at "
        "least one of restart / repeat / extend")
META = {"engine": "B history",
        "technique": "sequential timer model on a scripted clock, compared after every step",
        "level_text": "exploration: bounded-exhaustive 3-step histories plus seeded random longer ones",
        "level_note": "clock readings and durations are dyadic rationals (exact in floats); negative explicit starts, "
                      "extensions below -duration and a store stamp of None are not generated"}

KF_ABS = "MonoTimer(retro)/repeat-or-extend-applies-abs-to-start-made-negative-by-backward-shift"
KF_STALE = "MonoTimer(retro)/repeat-or-extend-first-after-backward-jump-uses-unshifted-start-or-stop"
KF_INIT = "MonoTimer(retro).__init__/backward-reading-before-start-is-set"

Q = Fraction(1, 16)


class Clock(object):
    """stands in for the ``time`` module inside ioflo.aid.timing"""

    def __init__(self):
        self.values = [0.0]
        self.pos = 0
        self.calls = 0

    def feed(self, *vals):
        self.values = [float(v) for v in vals]
        self.pos = 0

    def time(self):
        self.calls += 1
        v = self.values[min(self.pos, len(self.values) - 1)]
        self.pos += 1
        return v


class Model(object):
    """timer per the statement; exact rationals"""

    def __init__(self, kind, now, duration, second=None):
        self.kind = kind
        self.mono = kind.startswith("mono")
        self.retro = kind == "mono_retro"
        self.latest = Fraction(now)
        self.duration = abs(Fraction(duration))
        self.start = Fraction(now)
        self.stop = self.start + self.duration

    def look(self, c):
        """monotonic timers look at the clock first; returns False if it must raise"""
        c = Fraction(c)
        if not self.mono:
            self.latest = c
            return True
        d = c - self.latest
        if d < 0:
            if not self.retro:
                return False
            self.start += d
            self.stop += d
        self.latest = c
        return True

    def elapsed(self):
        return max(Fraction(0), self.latest - self.start)

    def remaining(self):
        return max(Fraction(0), self.stop - self.latest)

    def expired(self):
        return self.latest >= self.stop

    def restart(self, start=None, duration=None):
        self.start = abs(Fraction(start)) if start is not None else self.latest
        if duration is not None:
            self.duration = abs(Fraction(duration))
        self.stop = self.start + self.duration
        return (self.start, self.stop)

    def repeat(self):
        self.start = self.stop
        self.stop = self.start + self.duration
        return (self.start, self.stop)

    def extend(self, ext=None):
        self.duration = self.duration + (self.duration if ext is None else Fraction(ext))
        self.stop = self.start + self.duration
        return (self.start, self.stop)


class Rig(object):
    def __init__(self, ctx):
        from ioflo.aid import timing
        from ioflo.base import storing, excepting
        self.ctx = ctx
        self.timing = timing
        self.storing = storing
        self.Retro = excepting.TimerRetroError
        self.clock = Clock()
        self.real_time = timing.time
        timing.time = self.clock          # the scripted clock; restored in close()
        ctx.hit("clock_attached")

    def close(self):
        self.timing.time = self.real_time

    # -------------------------------------------------------------- one history
    def history(self, kind, base, duration, steps, tag, init_second=None):
        """steps: list of (clock_value, op, args).  Returns number of steps run."""
        ctx, timing = self.ctx, self.timing
        calls0 = self.clock.calls
        store = None
        desc = {"kind": kind, "base": str(base), "duration": str(duration), "init_second": str(init_second),
                "steps": [(str(c), op, [str(a) for a in args]) for c, op, args in steps]}
        nontrivial = (any(op in ("elapsed", "remaining", "expired") for _, op, _ in steps) and
                      any(op in ("restart", "repeat", "extend") for _, op, _ in steps))
        ctx.case(desc, nontrivial=nontrivial)

        def wit(i=None, **more):
            d = dict(desc)
            if i is not None:
                d["failed_at_step"] = i
                d["steps"] = d["steps"][:i + 1]
            d.update(more)
            return d

        # ---- construct
        try:
            if kind == "timer":
                self.clock.feed(base)
                t = timing.Timer(duration=float(duration))
            elif kind in ("mono", "mono_retro"):
                if init_second is not None:
                    self.clock.feed(base, init_second)
                else:
                    self.clock.feed(base)
                t = timing.MonoTimer(duration=float(duration), retro=(kind == "mono_retro"))
            elif kind == "store_stamper":
                store = timing.Stamper(stamp=float(base))
                t = timing.StoreTimer(store, duration=float(duration))
            else:
                store = self.storing.Store(stamp=float(base))
                t = timing.StoreTimer(store, duration=float(duration))
        except Exception as e:
            back = init_second is not None and init_second < base
            if back and kind == "mono" and isinstance(e, self.Retro):
                ctx.check(True, "mono/raises-on-backward-jump")
                ctx.hit("mono_noretro_raised")
                return 0
            if back and kind == "mono_retro":
                ctx.fail(KF_INIT, "MonoTimer(retro=True) cannot be constructed when the clock steps back between the "
                         "two readings its constructor takes: %r" % (e,), wit(exception=repr(e), key=exc_key(e)))
                return 0
            ctx.fail("%s/constructor-raises/%s" % (kind, exc_key(e)), "constructing the timer raises %r" % (e,), wit())
            return 0
        now = init_second if init_second is not None else base
        m = Model(kind, base, duration)
        if init_second is not None:
            ok = m.look(init_second)
            if not ok:
                ctx.fail("mono/no-raise-on-backward-jump", "MonoTimer(retro=False) did not raise on a backward jump "
                         "during construction", wit())
                return 0
            m.restart(start=base, duration=duration)
        self.compare_state(t, m, kind, "construct", wit, -1)

        last_elapsed = None
        for i, (c, op, args) in enumerate(steps):
            if store is not None:
                if kind == "store_store":
                    store.changeStamp(float(c))
                else:
                    store.change(float(c))
            else:
                self.clock.feed(c)
            moved_back = Fraction(c) < m.latest
            snap = (t.start, t.stop, t.duration)
            unshifted = m.stop if op == "repeat" else m.start          # before this step's look at the clock
            ok_model = m.look(c)
            shifted = m.stop if op == "repeat" else m.start
            fargs = [None if a is None else float(a) for a in args]
            try:
                if op in ("elapsed", "remaining", "expired"):
                    got = getattr(t, op)
                elif op == "restart":
                    kw = {}
                    if args[0] is not None:
                        kw["start"] = fargs[0]
                    if args[1] is not None:
                        kw["duration"] = fargs[1]
                    got = t.restart(**kw)
                elif op == "repeat":
                    got = t.repeat()
                else:
                    got = t.extend(*([fargs[0]] if args[0] is not None else []))
                exc = None
            except Exception as e:
                got, exc = None, e
            ctx.event()

            if not ok_model:
                # non compensating monotonic timer on a backward jump: must raise and change nothing
                ctx.hit("mono_noretro_backward_jump")
                if not ctx.check(isinstance(exc, self.Retro), "mono/no-TimerRetroError-on-backward-jump/" + op,
                                 "MonoTimer(retro=False).%s did not raise TimerRetroError after the clock moved back" % op,
                                 lambda: wit(i, got=repr(got), exception=repr(exc))):
                    return i
                ctx.hit("mono_noretro_raised")
                ctx.check((t.start, t.stop, t.duration) == snap, "mono/state-changed-by-rejected-operation/" + op,
                          "a MonoTimer operation that raised TimerRetroError changed the timer",
                          lambda: wit(i, before=repr(snap), after=repr((t.start, t.stop, t.duration))))
                continue
            if exc is not None:
                ctx.fail("%s/%s-raises/%s" % (kind, op, exc_key(exc)), "%s.%s raises %r" % (kind, op, exc), wit(i))
                return i
            if moved_back and kind == "mono_retro":
                ctx.hit("mono_retro_shifted")

            # model comparison
            if op == "elapsed":
                want = m.elapsed()
            elif op == "remaining":
                want = m.remaining()
            elif op == "expired":
                want = m.expired()
            elif op == "restart":
                want = m.restart(*args)
            elif op == "repeat":
                want = m.repeat()
            else:
                want = m.extend(args[0])
            same = (got == want) if op != "expired" else (got is want)
            if not same:
                if kind == "mono_retro" and op in ("repeat", "extend") and isinstance(got, tuple):
                    # two known mechanisms, told apart by which start the implementation ended up with
                    if moved_back and got[0] == abs(unshifted) and abs(unshifted) not in (want[0], abs(shifted)):
                        ctx.fail(KF_STALE, "MonoTimer(retro=True).%s as the first operation after a backward clock jump "
                                 "uses the %s from before the compensation shift" % (
                                     op, "stop" if op == "repeat" else "start"),
                                 wit(i, got=repr(got), want=[str(x) for x in want], clock=str(c)))
                        return i
                    if shifted < 0 and got[0] == abs(shifted):
                        ctx.fail(KF_ABS, "MonoTimer(retro=True).%s after a backward shift made its %s negative: restart() "
                                 "takes abs() of the start it is given, so the timer does not %s" % (
                                     op, "stop" if op == "repeat" else "start",
                                     "restart at the previous stop" if op == "repeat" else "keep its start"),
                                 wit(i, got=repr(got), want=[str(x) for x in want]))
                        return i
                ctx.fail("%s/%s-differs-from-model" % (kind, op),
                         "%s.%s differs from the statement's model" % (kind, op),
                         wit(i, got=repr(got), want=(repr(want) if op == "expired" else
                                                     [str(x) for x in want] if isinstance(want, tuple) else str(want)),
                             model_start=str(m.start), model_stop=str(m.stop), clock=str(c)))
                return i
            ctx.check(True, "model-agrees")
            if not self.compare_state(t, m, kind, op, wit, i):
                return i

            # statement invariants on the observations alone
            if op == "elapsed":
                ctx.check(got >= 0, "%s/elapsed-negative" % kind, "elapsed is negative", lambda: wit(i, got=got))
                if kind == "mono_retro":
                    if last_elapsed is not None:
                        ctx.check(got >= last_elapsed, "mono_retro/elapsed-decreased",
                                  "elapsed of a compensating monotonic timer decreased", lambda: wit(i, got=got, previous=last_elapsed))
                    last_elapsed = got
                ctx.hit("read_elapsed")
            elif op == "remaining":
                ctx.check(got >= 0, "%s/remaining-negative" % kind, "remaining is negative", lambda: wit(i, got=got))
            elif op == "expired":
                ctx.hit("expired_true" if got else "expired_false")
                if Fraction(c) == m.stop:
                    ctx.hit("expired_exactly_at_stop")
            else:
                last_elapsed = None
                ctx.hit("op_" + op)
        ctx.event(self.clock.calls - calls0)
        return len(steps)

    def compare_state(self, t, m, kind, op, wit, i):
        return self.ctx.check(t.start == m.start and t.stop == m.stop and t.duration == m.duration,
                              "%s/state-after-%s-differs-from-model" % (kind, op),
                              "start/stop/duration after %s differ from the model" % op,
                              lambda: wit(i if i >= 0 else None, got=[t.start, t.stop, t.duration],
                                          want=[str(m.start), str(m.stop), str(m.duration)]))


KINDS = ("timer", "mono_retro", "mono", "store_stamper", "store_store")


def gen_history(rng, kind, n):
    base = Fraction(rng.choice((0, 0, 50, 50, 1700000000)))
    duration = rng.choice((0, 1, 2, 5)) * rng.choice((Q, Q * 4, 1, 3)) if rng.random() < 0.8 else Fraction(rng.randint(0, 400), 16)
    init_second = None
    if kind.startswith("mono") and rng.random() < 0.3:
        init_second = base + Q * rng.randint(0, 32) if rng.random() < 0.6 or base == 0 else base - Q * rng.randint(1, 32)
    m = Model(kind, base, duration)
    c = Fraction(init_second if init_second is not None else base)
    if init_second is not None and init_second < base:
        if kind == "mono":
            return base, duration, [], init_second
    elif init_second is not None:
        m.look(init_second)
    steps = []
    for _ in range(n):
        r = rng.random()
        if r < 0.5:
            c = c + Q * rng.choice((1, 2, 4, 8, 16, 16, 40, 160, 1024))
        elif r < 0.6:
            pass                                                    # standstill
        elif r < 0.7:
            c = m.stop if m.stop >= 0 else c                        # land exactly on the stop
        elif r < 0.78 and not kind.startswith("store"):
            c = max(Fraction(0), m.start - Q * rng.randint(0, 64))  # jump back to / before the start
        else:
            c = max(Fraction(0), c - Q * rng.choice((1, 3, 16, 64, 400, 1600)))
        if kind.startswith("store") and c < 0:
            c = Fraction(0)
        r = rng.random()
        if r < 0.2:
            op, args = "elapsed", ()
        elif r < 0.35:
            op, args = "remaining", ()
        elif r < 0.6:
            op, args = "expired", ()
        elif r < 0.72:
            s = None if rng.random() < 0.6 else max(Fraction(0), c + Q * rng.randint(-64, 64))
            d = None if rng.random() < 0.6 else Q * rng.randint(0, 160)
            op, args = "restart", (s, d)
        elif r < 0.88:
            op, args = "repeat", ()
        else:
            e = None if rng.random() < 0.4 else Q * rng.randint(-int(m.duration / Q), 64)
            op, args = "extend", (e,)
        steps.append((c, op, args))
        # advance the generator's own copy of the model so that "exactly at stop" / "before start" moves are meaningful
        if not m.look(c):
            continue
        if op == "restart":
            m.restart(*args)
        elif op == "repeat":
            m.repeat()
        elif op == "extend":
            m.extend(args[0])
    return base, duration, steps, init_second


MOVES = (Fraction(0), Fraction(1), Fraction(2), Fraction(-1), Fraction(-5))
MOVES_QUICK = (Fraction(0), Fraction(1), Fraction(-1), Fraction(-5))
OPS = (("elapsed", ()), ("remaining", ()), ("expired", ()), ("restart", (None, None)), ("restart", (None, Fraction(1))),
       ("repeat", ()), ("extend", (None,)), ("extend", (Fraction(-1, 2),)))


def worker(ctx, job):
    rig = Rig(ctx)
    try:
        if job["kind"] == "exhaustive":
            import itertools
            alphabet = [(mv, op, args) for mv in (MOVES_QUICK if ctx.quick else MOVES) for op, args in OPS]
            for kind in job["kinds"]:
                for base in (Fraction(3),):
                    for seq in itertools.product(alphabet[job["part"]::job["parts"]], alphabet, alphabet):
                        c = base
                        steps = []
                        for mv, op, args in seq:
                            c = max(Fraction(0), c + mv)
                            steps.append((c, op, args))
                        rig.history(kind, base, Fraction(2), steps, "exhaustive")
                        ctx.hit("exhaustive_histories")
            if job["part"] == 0 and job["kinds"][0] in ("timer", "mono_retro"):
                ctx.sample({"kind": job["kinds"][0], "base": "3", "duration": "2", "exhaustive_history_example":
                            [(str(c), op, [str(a) for a in args]) for c, op, args in steps]})
        else:
            rng = ctx.subrng("c42", job["index"])
            for i in range(job["n"]):
                kind = KINDS[i % len(KINDS)]
                base, duration, steps, init_second = gen_history(rng, kind, rng.randint(12, 60))
                rig.history(kind, base, duration, steps, "random", init_second=init_second)
                ctx.hit("random_histories_" + kind)
                if i < 1:
                    ctx.sample({"kind": kind, "base": str(base), "duration": str(duration),
                                "first_steps": [(str(c), op, [str(a) for a in args]) for c, op, args in steps[:6]]})
    finally:
        rig.close()


def run(ctx):
    jobs = [{"kind": "exhaustive", "kinds": [k], "part": p, "parts": 4} for k in KINDS for p in range(4)]
    n = ctx.pick(6000, 1000000)
    per = ctx.pick(600, 5000)
    jobs += [{"kind": "random", "n": per} for _ in range(n // per)]
    ctx.shard(jobs, timeout=ctx.pick(90, 1500))
    ctx.exhaustive = True
    ctx.extra["exhaustive_scope"] = "all 3-step histories over %d clock moves x 8 operations for each of the 5 timer kinds" % ctx.pick(4, 5)
    ctx.floor("exhaustive_histories", 5 * ctx.pick(32, 40) ** 3)
    ctx.floor("clock_attached", len(jobs))
    ctx.floor("events", n * 10)
    for k in KINDS:
        ctx.floor("random_histories_" + k, n // 15)
    ctx.floor("mono_retro_shifted", n // 20)
    ctx.floor("mono_noretro_raised", n // 20)
    ctx.floor("expired_exactly_at_stop", n // 20)
    ctx.floor("expired_true", n // 10)
    ctx.floor("expired_false", n // 10)
    ctx.floor("op_repeat", n // 10)
    ctx.floor("op_extend", n // 10)
    ctx.floor("op_restart", n // 10)
    ctx.floor("read_elapsed", n // 10)
