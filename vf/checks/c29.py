"""C29 HTTP messages parse the same however their bytes arrive (engine E).

Workload: well-formed HTTP/1.x requests and responses from vf.httpgen
(fixed length, chunked with extensions and trailers, read-until-close,
no-body statuses, an interim 100 response, header lines with zero / one /
several white-space characters after the colon), each followed by the first
bytes of a next pipelined message.  Every message is parsed whole, then under
every split into <= 3 pieces (messages <= 120 bytes, exhaustive) or under
random splits (longer messages) by the real Requestant / Respondent.

Oracle (three separate comparisons, each its own mechanism key):
  whole parse  == the generator's own content        (content/...)
  split parse  == whole parse                         (split/...)
  unconsumed bytes == the bytes generated after the message   (tail/...)
"""
import time

from vf import httpgen as hg
from vf.core import exc_key, digest

LEVEL = "exploration"
RULE = ("messages generated from the RFC 7230 grammar (request|response x length|chunked(+extensions,+trailers)|"
        "read-until-close|no-body status|interim 100; header separators ':' ': ' ':  ' ':\\t'; pipelined tail bytes); "
        "each message x every split into <=3 pieces when <=120 bytes (exhaustive per message) else random splits "
        "(1..17 cuts, byte-at-a-time included); distinct = distinct message bytes (distinct_nontrivial) and distinct "
        "(message, cut tuple) pairs (hit counter split_cases); non-trivial = the message has at least one header "
        "line and was parsed under at least one multi-piece split")
RULE = __import__("vf.core", fromlist=["rule_add"]).rule_add(RULE, 'also a second request split over service passes through a live Valet on an in-memory net (Date blanked); also the close of the connection noticed together with the last bytes of a complete response')
META = {"engine": "E http", "technique": "differential: whole parse vs split parse vs generator content",
        "level_text": "exploration: splits are exhaustive (<=3 pieces) for each generated short message, random for "
                      "long ones; messages themselves are sampled from the grammar",
        "level_note": "duplicate header names, obs-fold, trailing OWS after a field value and reason phrases with "
                      "repeated blanks are not generated (the parser's dict-of-headers representation cannot hold "
                      "them / the statement does not list them); chunk extensions are compared whole-vs-split only"}

SHORT = 120


class _Incomer(object):
    timeout = 5.0
    ca = ("127.0.0.1", 1)


def _mk(kind, reqmethod):
    from ioflo.aio.http import clienting, serving
    if kind == "request":
        return serving.Requestant(msg=bytearray(), incomer=_Incomer())
    return clienting.Respondent(msg=bytearray(), method=reqmethod)


def feed(m, pieces, retarget=False, parser=None, close_with_last=False):
    """Drive the real parser over the pieces.  Returns outcome dict.
    retarget: the parser is pointed at its buffer with the public makeParser(msg=buffer) (the first piece is already in
    the buffer then; an empty first piece means an empty buffer) instead of getting it from the constructor;
    parser: a parser object that has just completed another message is used again after makeParser(), as a server does
    for the next request on a connection"""
    out = {"exc": None, "calls": 0}
    if parser is not None:
        p = parser
        p.makeParser()
    else:
        p = _mk(m["kind"], m["reqmethod"])
    buf = None
    if retarget:
        buf = bytearray(pieces[0])      # the caller's receive buffer: later bytes arrive in *it*
        pieces = pieces[1:]
        p.makeParser(msg=buf)
        if buf:
            p.parse()
    out["p"] = p
    try:
        for k, piece in enumerate(pieces):
            (buf if buf is not None else p.msg).extend(piece)
            if close_with_last and k == len(pieces) - 1:
                # the end of the connection is noticed together with the last bytes (the whole message is in the buffer)
                p.close()
                extra = 0
                while p.parser and extra < 8:
                    p.parse()
                    extra += 1
                break
            if p.parser:
                p.parse()
                out["calls"] += 1
        extra = 0
        while p.parser and extra < 4 and m["framing"] != "close":
            p.parse()
            extra += 1
        if m["framing"] == "close":
            p.close()
            while p.parser and extra < 4:
                p.parse()
                extra += 1
        out["extra"] = extra
    except Exception as ex:   # the parser raised out of parse()
        out["exc"] = exc_key(ex)
        out["msg"] = "%s: %s" % (type(ex).__name__, str(ex)[:120])
        return out
    out["done"] = p.parser is None and bool(p.ended)
    out["errored"] = (p.error or True) if p.errored else None
    f = {"version": tuple(p.version) if p.version else None,
         "headers": {str(k).lower(): v for k, v in (p.headers or {}).items()},
         "body": bytes(p.body),
         "trails": {str(k).lower(): v for k, v in (p.trails or {}).items()},
         "parms": sorted((bytes(k).decode("latin-1"), None if v is None else bytes(v).decode("latin-1"))
                         for k, v in (p.parms or {}).items()),
         "length": p.length, "chunked": bool(p.chunked)}
    if m["kind"] == "request":
        f.update(method=p.method, url=p.url, path=p.path, query=p.query, hostname=p.hostname, port=p.port,
                 scheme=p.scheme)
    else:
        f.update(status=p.status, reason=p.reason)
    out["fields"] = f
    out["rest"] = bytes(p.msg)
    return out


CONTENT_FIELDS = {"request": ("method", "url", "version", "path", "query", "hostname", "port", "scheme",
                              "headers", "body", "trails"),
                  "response": ("version", "status", "reason", "headers", "body", "trails")}


def flavour(m):
    return "%s/%s%s%s" % (m["kind"], m["framing"], "/interim" if m.get("interim") else "",
                          "/lf-eol" if m.get("lf") else "")


def sepclass(m):
    """Which header separators the message uses: the statement names 'with or
    without whitespace after the colon' explicitly."""
    s = set(m["seps"])
    if s <= {": "}:
        return "sp"
    return "nosp" if ":" in s else "ows"


def jsonable(o):
    if isinstance(o, bytes):
        return o.decode("latin-1")
    if isinstance(o, dict):
        return {str(k): jsonable(v) for k, v in o.items()}
    if isinstance(o, (list, tuple)):
        return [jsonable(v) for v in o]
    return o


def check_message(ctx, m, rng, nrandom, deadline):
    stream = m["raw"] + m["tail"]
    n = len(stream)
    wit = lambda extra=None: jsonable(dict({"message": stream, "kind": m["kind"], "framing": m["framing"],
                                            "expected": m["exp"]}, **(extra or {})))
    whole = feed(m, [stream])
    fl = flavour(m)
    ctx.hit("whole_parses")
    ctx.hit("flavour:" + fl)
    ctx.hit("sep:" + sepclass(m))
    ok = True
    # ---- whole parse vs the generator's own content
    if whole["exc"]:
        ctx.fail("content/exception/%s" % whole["exc"],
                 "parsing a well-formed %s (%s, separators %s) whole raises %s" % (m["kind"], m["framing"], m["seps"], whole["msg"]),
                 wit({"outcome": whole}))
        ok = False
    elif not whole["done"] or whole["errored"]:
        ctx.fail("content/not-completed/%s/sep-%s%s" % (fl, sepclass(m), "/errored" if whole["errored"] else ""),
                 "a complete well-formed %s (%s) is not parsed to completion (errored=%s)" % (m["kind"], m["framing"], whole["errored"]),
                 wit({"outcome": whole}))
        ok = False
    else:
        for fld in CONTENT_FIELDS[m["kind"]]:
            good = whole["fields"][fld] == m["exp"][fld]
            ctx.check(good, "content/%s/%s/sep-%s%s" % (fld, m["kind"], sepclass(m), "/lf-eol" if m.get("lf") else ""),
                      "parsed %s differs from the message's content" % fld,
                      lambda fld=fld: wit({"field": fld, "parsed": whole["fields"][fld], "generated": m["exp"][fld]}))
            ok = ok and good
        if m["framing"] != "close":
            good = whole["rest"] == m["tail"]
            ctx.check(good, "tail/whole/%s/sep-%s" % (fl, sepclass(m)),
                      "bytes after the complete message are not left untouched",
                      lambda: wit({"left": whole["rest"], "generated_tail": m["tail"]}))
            ok = ok and good
    # ---- every split vs the whole parse
    if n <= SHORT:
        splits = hg.all_splits(n, 3)
        ctx.hit("short_messages_exhaustive")
    else:
        seen = set()
        for _ in range(nrandom * 3):
            if len(seen) >= nrandom:
                break
            seen.add(hg.random_split(rng, n))
        seen.discard(())
        splits = sorted(seen)
        ctx.hit("long_messages_random")
    count = multi = 0
    for cuts in splits:
        count += 1
        if not cuts:
            continue
        if count % 512 == 0 and time.time() > deadline:
            ctx.inconclusive_case("wall-clock watchdog inside split enumeration")
            break
        multi += 1
        got = feed(m, hg.cut(stream, cuts))
        if whole["exc"] or got["exc"]:
            same = whole["exc"] == got["exc"]
            key = "split/exception-differs/" + str(got["exc"] or whole["exc"])
            bad = "exception"
        else:
            bad = None
            if got["done"] != whole["done"] or bool(got["errored"]) != bool(whole["errored"]):
                bad = "completion"
            else:
                for fld in sorted(whole.get("fields", {})):
                    if got["fields"][fld] != whole["fields"][fld]:
                        bad = fld
                        break
                if bad is None and got["rest"] != whole["rest"]:
                    bad = "tail"
            same = bad is None
            key = "split/%s-differs/%s" % (bad, fl)
        ctx.check(same, key, "parse under a split differs from the whole parse in %s" % bad,
                  lambda: wit({"cuts": list(cuts), "pieces": hg.cut(stream, cuts), "whole": whole, "split": got}))
        ctx.event(got["calls"])
        if got.get("extra") and m["framing"] != "close":
            ctx.hit("needed_extra_parse_calls")
        if count % 5 == 1 and m["kind"] == "response" and not m["tail"] and not whole["exc"]:
            # the same delivery, the server closing right behind the last bytes and the client noticing both together
            alt = feed(m, hg.cut(stream, cuts), close_with_last=True)
            ctx.hit("close_noticed_with_the_last_bytes")
            altsame = (alt["exc"] is None and alt.get("done") == whole.get("done") and bool(alt.get("errored")) == bool(whole.get("errored"))
                       and alt.get("fields") == whole.get("fields"))
            ctx.check(altsame, "split/close-noticed-with-the-last-bytes-differs/%s" % fl,
                      "a complete response whose last bytes are noticed together with the close of the connection parses differently "
                      "from the same response parsed whole", lambda alt=alt: wit({"cuts": list(cuts), "whole": {k: v for k, v in whole.items() if k != "p"},
                                                                    "closed_with_last": {k: v for k, v in alt.items() if k != "p"}}))
        if count % 7 == 0:
            # the same delivery to a parser that is pointed at its buffer with makeParser(msg=...): with nothing received yet
            # (fresh connection), or with the first piece already there
            for first_empty in (True, False):
                pcs = hg.cut(stream, cuts)
                alt = feed(m, ([b""] + pcs) if first_empty else pcs, retarget=True)
                ctx.hit("retargeted_parsers" + ("_empty_buffer" if first_empty else ""))
                altsame = (alt["exc"] == got["exc"] and alt.get("done") == got.get("done") and alt.get("fields") == got.get("fields")
                           and alt.get("rest") == got.get("rest"))
                ctx.check(altsame, "split/makeparser-msg-differs/%s" % ("empty-buffer" if first_empty else "filled-buffer"),
                          "a parser given its buffer through makeParser(msg=buffer) parses the same delivery differently",
                          lambda alt=alt: wit({"cuts": list(cuts), "constructor_buffer": {k: v for k, v in got.items() if k != "p"},
                                               "makeparser_buffer": {k: v for k, v in alt.items() if k != "p"}}))
    ctx.evaluations += count
    ctx.hit("split_cases", count)
    nontrivial = multi > 0 and bool(m["hdrs"])
    ctx.case(digest(jsonable(stream)), nontrivial=nontrivial)
    ctx.evaluations -= 1
    if m["chunks"] and any(c["exts"] for c in m["chunks"]):
        ctx.hit("chunk_extensions")
    if m["trailers"]:
        ctx.hit("trailers")
    if m["tail"]:
        ctx.hit("pipelined_tail")
    if m.get("lf"):
        ctx.hit("bare_lf_heads")
    return ok


def check_pair(ctx, m1, m2, rng):
    """two messages one after the other through the same parser object (makeParser() in between, as on a kept-alive
    connection): the second must parse exactly as it does through a fresh parser, under a split too"""
    if m1["kind"] != m2["kind"]:
        return
    # (a first response that is read until the connection closes ends with the parser's close(); the parser object is
    # then made again for the first response of the next connection)
    s1, s2 = m1["raw"], m2["raw"] + m2["tail"]
    alone = feed(m2, [s2])
    if alone["exc"] or not alone.get("done"):
        return
    cuts = hg.random_split(rng, len(s2))
    first = feed(m1, [s1])
    if first["exc"] or not first.get("done") or first.get("rest"):
        return
    p = first["p"]
    if m2["kind"] == "response":
        p.method = m2["reqmethod"]
    again = feed(m2, hg.cut(s2, cuts) if cuts else [s2], parser=p)
    ctx.hit("parser_reused_for_next_message")
    ctx.hit("reuse:%s->%s" % (m1["framing"], m2["framing"]))
    same = (again["exc"] is None and again.get("done") == alone.get("done") and again.get("fields") == alone.get("fields")
            and again.get("rest") == alone.get("rest") and bool(again.get("errored")) == bool(alone.get("errored")))
    ctx.check(same, "reuse/next-message-differs/%s-after-%s" % (m2["framing"], m1["framing"]),
              "a message parsed by a parser object that has just completed another message differs from its parse by a fresh parser",
              lambda: jsonable({"first": s1, "second": s2, "cuts": list(cuts),
                                "fresh": {k: v for k, v in alone.items() if k != "p"},
                                "reused": {k: v for k, v in again.items() if k != "p"}}))
    ctx.evaluations += 1


def valet_exchange(m1, m2, cuts):
    """Two requests on one kept-alive connection of a real Valet (on an in-memory listener): the first delivered whole
    and answered, the second delivered in the pieces cut by `cuts`, one service pass of the server after every piece.
    Returns what the application was called with, per request, and the bytes the server sent."""
    from ioflo.aio.http import serving as hserving
    store = hg_clock()
    net = hg.MemNet()
    srv = hg.mem_server(net, store, timeout=0.0)
    seen = []

    def app(environ, start_response):
        body = environ["wsgi.input"].read() if environ.get("wsgi.input") is not None else b""
        seen.append({"method": environ.get("REQUEST_METHOD"), "path": environ.get("PATH_INFO"),
                     "query": environ.get("QUERY_STRING"), "proto": environ.get("SERVER_PROTOCOL"),
                     "length": environ.get("CONTENT_LENGTH"), "type": environ.get("CONTENT_TYPE"),
                     "headers": sorted((k, v) for k, v in environ.items() if k.startswith("HTTP_")),
                     "body": bytes(body)})
        start_response("200 OK", [("Content-Length", "2")])
        return [b"ok"]
    valet = hserving.Valet(servant=srv, store=store, app=app, timeout=0.0)
    cs = net.connect()
    c2s = net.conns[0][2]
    s2c = net.conns[0][3]

    def passes(n):
        for _ in range(n):
            net.deliver()
            valet.serviceAll()
            net.deliver()
    passes(1)
    cs.send(m1["raw"])
    passes(4)
    first_out = len(s2c.total)
    for piece in hg.cut(m2["raw"], cuts):
        cs.send(piece)
        passes(1)
    passes(4)
    import re
    out = re.sub(rb"\r\nDate: [^\r]*", b"\r\nDate: -", bytes(s2c.total))      # (the wall clock may tick between two runs)
    try:
        valet.close()
    except Exception:        # noqa
        pass
    return seen, out, first_out


def hg_clock():
    from vf.iodoubles import clock
    return clock()


def check_valet(ctx, m1, m2, rng, nsplits):
    """C29 through a live server: the second request of a kept-alive connection arrives in pieces"""
    n = len(m2["raw"])
    try:
        whole = valet_exchange(m1, m2, ())
    except Exception as ex:     # noqa
        ctx.fail("valet/raises/%s" % exc_key(ex), "the server raised %r on two well-formed requests" % (ex,),
                 lambda: jsonable({"first": m1["raw"], "second": m2["raw"]}))
        return
    ctx.hit("valet_exchanges_whole")
    if len(whole[0]) < 2:
        ctx.hit("valet_second_request_not_served_even_whole")       # (a first request that ends the connection, ...)
        return
    ctx.case(("valet", m1["raw"], m2["raw"]), nontrivial=True)
    for _ in range(nsplits):
        cuts = hg.random_split(rng, n, maxpieces=4)
        if not cuts:
            continue
        ctx.event()
        ctx.hit("valet_split_second_requests")
        try:
            got = valet_exchange(m1, m2, cuts)
        except Exception as ex:     # noqa
            ctx.fail("valet/raises/%s" % exc_key(ex), "the server raised %r when the second request arrived in pieces" % (ex,),
                     lambda: jsonable({"first": m1["raw"], "second": m2["raw"], "cuts": list(cuts)}))
            return
        if not ctx.check(got[0] == whole[0] and got[1] == whole[1], "valet/split-second-request-differs-from-whole",
                         "second request of a kept-alive connection split at %s: the application saw %d request(s) (whole: %d), "
                         "%d response bytes (whole: %d)" % (list(cuts), len(got[0]), len(whole[0]), len(got[1]), len(whole[1])),
                         lambda: jsonable({"first": m1["raw"], "second": m2["raw"], "cuts": list(cuts),
                                           "seen_split": got[0], "seen_whole": whole[0], "sent_split": got[1][-200:], "sent_whole": whole[1][-200:]})):
            return


def gen_for(seed, idx, short, seps=None):
    import random
    rng = random.Random("c29/%d/%d/%s" % (seed, idx, short))
    kw = {"seps": seps} if seps else {}
    for _ in range(200):
        m = hg.gen_message(rng, maxbody=10 if short else 400, **kw)
        if not short and len(m["raw"]) + len(m["tail"]) > SHORT:
            return m, rng
        if short and len(m["raw"]) + len(m["tail"]) <= SHORT:
            return m, rng
    return m, rng


def worker(ctx, job):
    deadline = time.time() + job["budget"]
    for idx in job["short"]:
        m, rng = gen_for(ctx.seed, idx, True)
        check_message(ctx, m, rng, 0, deadline)
        if len(ctx.samples) < 1:
            ctx.sample(jsonable({"message": m["raw"] + m["tail"], "splits": "all <=3 pieces"}))
    # the same through a live server: pairs of requests on one kept-alive connection
    import random as _random
    vr = _random.Random("c29valet/%d/%d" % (ctx.seed, job["long"][0] if job["long"] else 0))
    for _ in range(job.get("nvalet", 0)):
        m1 = hg.gen_message(vr, kind="request", maxbody=30, tail=b"", lf=False)
        m2 = hg.gen_message(vr, kind="request", maxbody=60, tail=b"", lf=False)
        check_valet(ctx, m1, m2, vr, 6)
    prev = None
    for idx in job["long"]:
        m, rng = gen_for(ctx.seed, idx, False)
        check_message(ctx, m, rng, job["nrandom"], deadline)
        for _ in range(4):
            m2, rng2 = gen_for(ctx.seed, idx * 7 + _ + 1000003, rng.random() < 0.5)
            check_pair(ctx, m, m2, rng)
            check_pair(ctx, m2, m, rng)
        if len(ctx.samples) < 2:
            ctx.sample(jsonable({"message": (m["raw"] + m["tail"])[:300], "splits": "%d random" % job["nrandom"]}))


def run(ctx):
    njobs = 16
    nshort = ctx.pick(3, 80)       # per job
    nlong = ctx.pick(20, 2500)
    jobs = []
    for j in range(njobs):
        jobs.append({"short": list(range(j * nshort, (j + 1) * nshort)),
                     "long": list(range(j * nlong, (j + 1) * nlong)),
                     "nrandom": ctx.pick(40, 120), "budget": ctx.pick(25, 900), "nvalet": ctx.pick(12, 600)})
    ctx.shard(jobs, timeout=ctx.pick(60, 1500))
    ctx.floor("distinct_nontrivial", ctx.pick(100, 3000))
    ctx.floor("whole_parses", ctx.pick(120, 3500))
    ctx.floor("split_cases", ctx.pick(60000, 2000000))
    ctx.floor("short_messages_exhaustive", ctx.pick(16, 400))
    ctx.floor("chunk_extensions", ctx.pick(40, 1200))
    ctx.floor("trailers", ctx.pick(10, 400))
    ctx.floor("retargeted_parsers_empty_buffer", ctx.pick(2000, 60000))
    ctx.floor("parser_reused_for_next_message", ctx.pick(300, 30000))
    for a, b in (("chunked", "length"), ("chunked", "none"), ("length", "chunked")):
        ctx.floor("reuse:%s->%s" % (a, b), ctx.pick(8, 500))
    ctx.floor("pipelined_tail", ctx.pick(60, 1800))
    ctx.floor("sep:nosp", ctx.pick(20, 300))
    ctx.floor("bare_lf_heads", ctx.pick(3, 150))
    ctx.floor("valet_split_second_requests", ctx.pick(300, 15000))
    for fl in ("request/length", "request/chunked", "request/none", "response/length", "response/chunked",
               "response/close", "response/nobody"):
        ctx.floor("flavour:" + fl, ctx.pick(3, 120))
