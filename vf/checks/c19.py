"""C19 Share stamps, fields and deck (engine B).

One store, one share created in it ('s'), one share without a store ('n').
Model: ordered dict of fields + stamp + FIFO per share, store time.
"""
import re

from vf import hist
from vf.hist import RET, OK, REJECT, RAISES, UNJUDGED

LEVEL = "exploration"
RULE = ("operation sequences on a share inside a store and on a share without a store, interleaved with store time "
        "changes: value set, update / change / create in dict, item-list, keyword and odict form, item set / get / "
        "del, pop, popitem, setdefault, clear, insert, stampNow, constructor, deck push / pull / gulp / spew / extend; "
        "field names from {value,north,x1,_x,9x,'a b','',class,_sift,_show,__doc__,'x\\n'}: (1) every sequence up to "
        "length 3 (quick) / 4 (thorough) over a core alphabet and up to length 2 over the full alphabet; (2) seeded "
        "random sequences of 4..40 operations.  distinct = distinct operation list; non-trivial = at least two "
        "operations of which at least one changed a share, its stamp, its deck or the store time")
RULE = __import__("vf.core", fromlist=["rule_add"]).rule_add(RULE, 'also pops whose default is the stored value itself')
META = {"engine": "B history",
        "technique": "runtime monitoring: real Share/Data/Deck and an executable model stepped together, return "
                     "value / rejection / full state (fields in order, stamp, deck, all views) compared per step",
        "level_text": "bounded-exhaustive short histories plus seeded random long histories; decides the property "
                      "only for the histories produced",
        "level_note": "trusts the model in vf/checks/c19.py; a multi-field update that raises half-way is not judged "
                      "for atomicity (only: every stored field name is still public); Share.reorder, units, truth "
                      "and marks are outside the statement and not exercised"}

NAMES = ["value", "north", "x1", "_x", "9x", "a b", "", "class", "_sift", "_show", "__doc__", "x\n"]
GOOD = ["value", "north", "x1", "class"]
CLASSATTR = ("_sift", "_show", "__doc__", "_change")     # attributes of the Data class itself
PUBLIC = re.compile(r"[A-Za-z][A-Za-z0-9_]*\Z")
STAMPS = [0.0, 0.125, 0.5, 1.0, 2.5, 7.0]
SET_OPS = ("update", "change", "create", "setitem", "ctor", "value")
LOOKUPS = ("in", "get", "getitem", "fetch", "has_key")


def valid(name):
    return isinstance(name, str) and PUBLIC.match(name) is not None


def first_bad(names):
    for n in names:
        if not valid(n):
            return n
    return None


def share_state(sh, store):
    dd = sh._data.__dict__
    keys = list(sh.keys())
    raw = sorted(dict.keys(dd))
    return {"stamp": sh.stamp, "keys": keys, "items": [[k, v] for k, v in sh.items()], "values": sh.values(),
            "iter": list(sh), "len": len(sh), "in": [n in sh for n in GOOD + ["9x", "a b", "_x"]],
            "value": sh.value, "raw": raw, "all_public": all(valid(k) for k in raw + keys),
            "deck": list(sh.deck), "store": (sh.store is store) if store is not None else None,
            "iteritems": [[k, v] for k, v in sh.iteritems()], "itervalues": list(sh.itervalues()),
            "iterkeys": list(sh.iterkeys())}


class MShare(object):
    def __init__(self, has_store):
        self.f = {}
        self.stamp = None
        self.deck = []
        self.has_store = has_store

    def state(self):
        keys = list(self.f)
        items = [[k, v] for k, v in self.f.items()]
        vals = list(self.f.values())
        return {"stamp": self.stamp, "keys": keys, "items": items, "values": vals, "iter": keys, "len": len(keys),
                "in": [n in self.f for n in GOOD + ["9x", "a b", "_x"]], "value": self.f.get("value"),
                "raw": sorted(keys), "all_public": True, "deck": list(self.deck),
                "store": True if self.has_store else None, "iteritems": items, "itervalues": vals, "iterkeys": keys}


def build(form, pairs, odict):
    pairs = [tuple(p) for p in pairs]
    if form == "dict":
        return ([dict(pairs)], {})
    if form == "odict":
        return ([odict(pairs)], {})
    if form == "pairs":
        return ([pairs], {})
    if form == "kw":
        return ([], dict(pairs))
    if form == "mixed":
        h = len(pairs) // 2
        return ([pairs[:h]], dict(pairs[h:]))
    raise ValueError(form)


def eff(form, pairs):
    def collapse(ps):
        d = {}
        for k, v in ps:
            d[k] = v
        return list(d.items())
    if form in ("dict", "odict", "kw"):
        return collapse(pairs)
    if form == "mixed":
        h = len(pairs) // 2
        return list(pairs[:h]) + collapse(pairs[h:])
    return [tuple(p) for p in pairs]


class Run(object):
    def __init__(self, spec):
        st = spec.storing
        st.Store.Clear()
        self.storing = st
        self.odict = spec.odict
        self.store = st.Store(stamp=0.0)
        self.sh = {"s": self.store.create("test.share"), "n": st.Share(name="lonely")}
        self.now = 0.0
        self.m = {"s": MShare(True), "n": MShare(False)}

    def t(self, tgt):
        return self.now if tgt == "s" else None

    # ---------------------------------------------------------------- model
    def model(self, op):
        n = op[0]
        if n == "stamp":
            self.now = float(op[1])
            return OK
        if n == "advance":
            self.now += op[1]
            return OK
        tgt = op[1]
        m = self.m[tgt]
        f = m.f
        if n == "value":
            f["value"] = op[2]
            m.stamp = self.t(tgt)
            return OK
        if n in ("update", "change", "create"):
            ps = eff(op[2], op[3])
            bad = first_bad(k for k, _ in ps)
            if bad is not None:
                idx = [k for k, _ in ps].index(bad)
                touched = any(k not in f for k, _ in ps[:idx]) if n == "create" else idx > 0
                if not touched:
                    return REJECT           # raises before anything was changed
                return UNJUDGED             # fields before the bad name were applied: no atomicity promised
            added = False
            for k, v in ps:
                if n == "create":
                    if k not in f:
                        f[k] = v
                        added = True
                else:
                    f[k] = v
            if n == "update" or (n == "create" and added):
                m.stamp = self.t(tgt)
            return RET("self")
        if n == "setitem":
            if not valid(op[2]):
                return REJECT
            f[op[2]] = op[3]
            return OK
        if n == "getitem":
            if op[2] not in f:
                return REJECT
            return RET(f[op[2]])
        if n == "delitem":
            if op[2] not in f:
                return REJECT
            del f[op[2]]
            return OK
        if n in ("in", "has_key"):
            return RET(op[2] in f)
        if n in ("get", "fetch"):
            return RET(f.get(op[2], "D"))
        if n == "pop":
            if op[2] not in f:
                return REJECT
            return RET(f.pop(op[2]))
        if n == "popd":
            # the default may be the very object stored in the field (pop('error', None) on a field holding None)
            return RET(f.pop(op[2], f.get(op[2], "D") if op[3:] == ["@same"] else (op[3] if op[3:] else "D")))
        if n == "popitem":
            if not f:
                return REJECT
            return RET(list(f.popitem()))
        if n == "setdefault":
            if op[2] in f:
                return RET(f[op[2]])
            if not valid(op[2]):
                return REJECT
            f[op[2]] = op[3]
            return RET(op[3])
        if n == "insert":
            i, k, v = op[2], op[3], op[4]
            if k in f or not valid(k):
                return REJECT
            items = list(f.items())
            items.insert(i, (k, v))
            f.clear()
            f.update(items)
            return OK
        if n == "clear":
            f.clear()
            return OK
        if n == "stampNow":
            m.stamp = self.t(tgt)
            return RET(m.stamp)
        if n == "sift":
            if op[2] is None:
                return RET([[k, v] for k, v in f.items()])
            if any(k not in f for k in op[2]):
                return REJECT
            d = {}
            for k in op[2]:
                d[k] = f[k]
            return RET([[k, v] for k, v in d.items()])
        if n == "copy":
            return RET([[k, v] for k, v in f.items()])
        if n == "ctor":
            value, data, stamp, deck = op[2], op[3], op[4], op[5]
            if first_bad(k for k, _ in data) is not None:
                return REJECT
            nm = MShare(tgt == "s")
            if value is not None:
                nm.f["value"] = value
                nm.stamp = self.t(tgt)
            for k, v in eff("dict", data):
                nm.f[k] = v
            if stamp is not None:
                nm.stamp = float(stamp)
            nm.deck = list(deck or [])
            self.m[tgt] = nm
            return OK
        # deck
        d = m.deck
        if n in ("push", "dpush"):
            d.append(op[2])
            return OK
        if n in ("pull", "dpull"):
            if not d:
                return REJECT
            return RET(d.pop(0))
        if n == "gulp":
            if op[2] is not None:
                d.append(op[2])
            return OK
        if n == "spew":
            return RET(d.pop(0) if d else None)
        if n == "extend":
            d.extend(op[2])
            return OK
        if n == "dclear":
            del d[:]
            return OK
        raise ValueError(op)

    # ----------------------------------------------------------------- real
    def real(self, op):
        n = op[0]
        if n == "stamp":
            return self.store.changeStamp(op[1])
        if n == "advance":
            return self.store.advanceStamp(op[1])
        tgt = op[1]
        sh = self.sh[tgt]
        if n == "value":
            sh.value = op[2]
            return None
        if n in ("update", "change", "create"):
            pa, kwa = build(op[2], op[3], self.odict)
            r = getattr(sh, n)(*pa, **kwa)
            return "self" if r is sh else ("other", repr(r))
        if n == "setitem":
            sh[op[2]] = op[3]
            return None
        if n == "getitem":
            return sh[op[2]]
        if n == "delitem":
            del sh[op[2]]
            return None
        if n == "in":
            return op[2] in sh
        if n == "has_key":
            return sh.has_key(op[2])
        if n == "get":
            return sh.get(op[2], "D")
        if n == "fetch":
            return sh.fetch(op[2], "D")
        if n == "pop":
            return sh.pop(op[2])
        if n == "popd":
            return sh.pop(op[2], sh.get(op[2], "D") if op[3:] == ["@same"] else (op[3] if op[3:] else "D"))
        if n == "popitem":
            return sh.popitem()
        if n == "setdefault":
            return sh.setdefault(op[2], op[3])
        if n == "insert":
            return sh.insert(op[2], op[3], op[4])
        if n == "clear":
            return sh.clear()
        if n == "stampNow":
            return sh.stampNow()
        if n == "sift":
            return [[k, v] for k, v in sh.sift(op[2]).items()]
        if n == "copy":
            c = sh.copy()
            r = [[k, v] for k, v in c.items()]
            c["zz"] = 1          # a copy: must not write through
            return r
        if n == "ctor":
            value, data, stamp, deck = op[2], op[3], op[4], op[5]
            new = self.storing.Share(name="again", store=self.store if tgt == "s" else None, value=value,
                                     data=dict([tuple(p) for p in data]) if data is not None else None,
                                     stamp=stamp, deck=deck)
            self.sh[tgt] = new
            return None
        d = sh.deck
        if n == "push":
            return d.push(op[2])
        if n == "dpush":
            return sh.push(op[2])
        if n == "pull":
            return d.pull()
        if n == "dpull":
            return sh.pull()
        if n == "gulp":
            return d.gulp(op[2])
        if n == "spew":
            return d.spew()
        if n == "extend":
            return d.extend(op[2])
        if n == "dclear":
            return d.clear()
        raise ValueError(op)

    def real_state(self):
        return {"now": self.store.stamp, "time_share": self.store.timeShr.value,
                "s": share_state(self.sh["s"], self.store), "n": share_state(self.sh["n"], None)}

    def model_state(self):
        return {"now": self.now, "time_share": self.now, "s": self.m["s"].state(), "n": self.m["n"].state()}

    def resync(self):
        problem = None
        for tgt in ("s", "n"):
            sh, m = self.sh[tgt], self.m[tgt]
            m.f = dict((k, v) for k, v in sh.items())
            m.stamp = sh.stamp
            m.deck = list(sh.deck)
            names = list(sh.keys()) + list(dict.keys(sh._data.__dict__))
            bad = first_bad(names)
            if bad is not None:
                problem = "share holds the non-public field name %r after the rejected operation" % (bad,)
        self.now = self.store.stamp
        return problem


def _names_of(op):
    n = op[0]
    if n in ("update", "change", "create"):
        return [k for k, _ in op[3]]
    if n == "ctor":
        return [k for k, _ in (op[3] or [])]
    if n == "insert":
        return [op[3]]
    if n in ("setitem", "setdefault") + LOOKUPS:
        return [op[2]]
    return []


class Spec(object):
    name = "share"
    tag = "sh"

    def __init__(self):
        from ioflo.base import storing
        from ioflo.aid.odicting import odict
        self.storing = storing
        self.odict = odict

    def new(self):
        return Run(self)

    def key(self, div):
        op, kind = div["op"], div["kind"]
        n = op[0]
        names = _names_of(op)
        bad = first_bad(names)
        if n == "delitem" and kind in ("observe", "state"):
            return "Share.__delitem__/ordered-keys-not-updated"
        if bad is None:
            return None
        if n in ("update", "change", "create") and kind == "reject-state" and div.get("ops"):
            # causal test: the same history with only the first non-public field of the failing call
            one = [n, op[1], "pairs", [[k, v] for k, v in eff(op[2], op[3]) if k == bad][:1]]
            d2, _, _ = hist.run_sequence(self, div["ops"][:-1] + [one])
            if d2 is not None and d2["step"] == len(div["ops"]) - 1 and d2["kind"] == "accepted":
                return self.key(d2)
            return None
        if n in ("setdefault", "insert") and kind == "accepted":
            return "Share.%s/name-not-validated" % n
        if n in SET_OPS and kind in ("accepted", "invariant"):
            if bad in CLASSATTR:
                return "Data.__setattr__/class-attribute-name"
            if bad.endswith("\n") and valid(bad[:-1]):
                return "REO_IdentPub/trailing-newline-accepted"
        if n in LOOKUPS and bad in CLASSATTR and kind in ("return", "accepted"):
            return "Share.__contains__/class-attribute-name"
        return None

    def quarantined(self, op):
        names = _names_of(op)
        n = op[0]
        if n in ("setdefault", "insert"):
            return first_bad(names) is not None
        return any(x in CLASSATTR or x.endswith("\n") for x in names)

    # ---- generators
    @staticmethod
    def val(rng):
        """field / deck values: mostly distinct integers, sometimes None or another falsy value (an existing field whose
        value is None is still an existing field; a falsy deck element is still an element)"""
        if rng.random() < 0.8:
            return rng.randrange(100)
        return rng.choice([None, None, 0, "", False, 0.0])

    def pairs(self, rng, nmax=3):
        out = []
        for _ in range(rng.randint(0, nmax)):
            name = rng.choice(GOOD) if rng.random() < 0.75 else rng.choice(NAMES)
            out.append([name, self.val(rng)])
        return out

    def random_op(self, rng):
        tgt = "s" if rng.random() < 0.6 else "n"
        name = rng.choice(GOOD) if rng.random() < 0.75 else rng.choice(NAMES)
        v = self.val(rng)
        n = rng.choice(["stamp", "advance", "stamp", "value", "value", "update", "update", "change", "create", "create",
                        "setitem", "getitem", "delitem", "in", "has_key", "get", "fetch", "pop", "popd", "popitem",
                        "setdefault", "insert", "clear", "stampNow", "sift", "copy", "ctor", "push", "dpush", "pull",
                        "dpull", "gulp", "gulp", "spew", "spew", "extend", "dclear"])
        if n == "stamp":
            return [n, rng.choice(STAMPS)]
        if n == "advance":
            return [n, rng.choice([0.125, 0.5, 1.0])]
        if n == "value":
            return [n, tgt, v]
        if n in ("update", "change", "create"):
            return [n, tgt, rng.choice(["dict", "odict", "pairs", "kw", "mixed"]), self.pairs(rng)]
        if n in ("setitem", "setdefault"):
            return [n, tgt, name, v]
        if n == "popd" and name in GOOD and not (isinstance(v, int) and not isinstance(v, bool) and v % 3 == 0 and v):
            # the default: usually a foreign object, else None / 0 / the very object the field holds (decided from the
            # value drawn above, so that the other operations of the history stay what they were)
            return [n, tgt, name, "@same" if isinstance(v, int) and not isinstance(v, bool) and v % 3 == 1 else (None if v is None or v % 3 == 2 else 0)] \
                if not isinstance(v, (str, float, bool)) else [n, tgt, name, "@same"]
        if n in ("getitem", "delitem", "in", "has_key", "get", "fetch", "pop", "popd"):
            return [n, tgt, name]
        if n in ("popitem", "clear", "stampNow", "copy", "pull", "dpull", "spew", "dclear"):
            return [n, tgt]
        if n == "insert":
            return [n, tgt, rng.randint(-1, 3), name, v]
        if n == "sift":
            return [n, tgt, None if rng.random() < 0.3 else [rng.choice(GOOD) for _ in range(rng.randint(0, 2))]]
        if n == "ctor":
            return [n, tgt, rng.choice([None, v]), self.pairs(rng, 2), rng.choice([None, None, 3.0]),
                    rng.choice([None, [v, rng.randrange(100)]])]
        if n in ("push", "dpush"):
            return [n, tgt, v]
        if n == "gulp":
            return [n, tgt, rng.choice([None, v])]
        if n == "extend":
            return [n, tgt, [v, rng.randrange(100)]]
        raise ValueError(n)

    def core_alphabet(self):
        return [["stamp", 1.0], ["advance", 0.5], ["value", "s", 1], ["value", "n", 2],
                ["update", "s", "kw", [["north", 3], ["x1", 4]]], ["update", "s", "pairs", []],
                ["change", "s", "dict", [["value", 5], ["north", 6]]], ["create", "s", "kw", [["value", 7], ["x1", 8]]],
                ["create", "s", "pairs", [["value", 9]]], ["setitem", "s", "north", 10], ["delitem", "s", "value"],
                ["popitem", "s"], ["setdefault", "s", "x1", 11], ["insert", "s", 0, "north", 12], ["stampNow", "s"],
                ["update", "s", "kw", [["_x", 13]]], ["update", "s", "pairs", [["north", 14], ["9x", 15]]],
                ["gulp", "s", 16], ["gulp", "s", None], ["spew", "s"], ["pull", "s"],
                ["update", "s", "kw", [["north", None]]], ["create", "s", "dict", [["north", 17]]], ["gulp", "s", 0]]

    def full_alphabet(self):
        al = [["stamp", 1.0], ["stamp", 2.5], ["advance", 0.5]]
        v = [100]

        def nv():
            v[0] += 1
            return v[0]
        for tgt in ("s", "n"):
            al += [["value", tgt, nv()], ["popitem", tgt], ["clear", tgt], ["stampNow", tgt], ["copy", tgt],
                   ["sift", tgt, None], ["sift", tgt, ["value"]], ["sift", tgt, ["north", "value"]],
                   ["push", tgt, nv()], ["dpush", tgt, nv()], ["pull", tgt], ["dpull", tgt], ["gulp", tgt, nv()],
                   ["gulp", tgt, None], ["spew", tgt], ["extend", tgt, [nv(), nv()]], ["dclear", tgt],
                   ["push", tgt, None],
                   ["ctor", tgt, nv(), [["north", nv()]], None, [nv()]], ["ctor", tgt, None, [], 3.0, None],
                   ["ctor", tgt, None, [["_x", 1]], None, None]]
            for form in ("dict", "odict", "pairs", "kw", "mixed"):
                two = [["north", nv()], ["value", nv()]]
                al += [["update", tgt, form, two], ["change", tgt, form, two], ["create", tgt, form, two]]
            al += [["update", tgt, "pairs", []], ["create", tgt, "kw", []], ["change", tgt, "dict", []]]
        for name in NAMES:
            al += [["setitem", "s", name, nv()], ["getitem", "s", name], ["delitem", "s", name], ["in", "s", name],
                   ["get", "s", name], ["pop", "s", name], ["popd", "s", name], ["setdefault", "s", name, nv()],
                   ["insert", "s", 0, name, nv()], ["update", "s", "kw", [[name, nv()]]],
                   ["change", "s", "dict", [[name, nv()]]], ["create", "s", "pairs", [[name, nv()]]],
                   ["update", "s", "pairs", [["north", nv()], [name, nv()]]], ["has_key", "n", name],
                   ["fetch", "n", name]]
        return al


def worker(ctx, job):
    spec = Spec()
    rep = hist.Reporter(ctx)
    if job["mode"] == "exh":
        al = spec.core_alphabet() if job["alphabet"] == "core" else spec.full_alphabet()
        n = hist.exhaustive(ctx, rep, spec, al, job["maxlen"], firsts=job["firsts"])
        ctx.hit("exhaustive_sequences", n)
        if job["index"] < 3:
            ctx.sample({"exhaustive_alphabet": job["alphabet"], "size": len(al), "maxlen": job["maxlen"],
                        "first_ops": [al[i] for i in job["firsts"][:3]]})
    else:
        rng = ctx.subrng("c19", job["chunk"])
        hist.random_runs(ctx, rep, spec, job["nseq"], 40, rng)
        ctx.hit("random_sequences", job["nseq"])
    rep.flush()
    oc = ctx.extra.get("op_outcomes", {})
    for name, hitname in (("share.update:changed", "update_stamped"), ("share.create:changed", "create_added"),
                          ("share.create:same", "create_no_overwrite"), ("share.change:changed", "change_applied"),
                          ("share.spew:same", "spew_on_empty"), ("share.gulp:same", "gulp_none_ignored"),
                          ("share.setitem:rejected", "bad_name_rejected")):
        if oc.get(name):
            ctx.hit(hitname, oc[name])


def run(ctx):
    spec = Spec()
    nc, nf = len(spec.core_alphabet()), len(spec.full_alphabet())
    core_len = ctx.pick(3, 4)
    jobs = []
    for firsts in hist.split(nc, ctx.pick(5, 11)):
        jobs.append({"mode": "exh", "alphabet": "core", "maxlen": core_len, "firsts": firsts})
    for firsts in hist.split(nf, ctx.pick(4, 8)):
        jobs.append({"mode": "exh", "alphabet": "full", "maxlen": 2, "firsts": firsts})
    for chunk in range(ctx.pick(6, 16)):
        jobs.append({"mode": "rnd", "chunk": chunk, "nseq": ctx.pick(500, 20000)})
    ctx.extra["alphabet_sizes"] = {"core": nc, "full": nf}
    ctx.exhaustive = False
    ctx.extra["exhaustive_part"] = "all sequences of length <= %d over the core alphabet and <= 2 over the full " \
                                   "alphabet (not extended past a divergence)" % core_len
    ctx.shard(jobs, timeout=ctx.pick(120, 1500))
    ctx.floor("exhaustive_sequences", ctx.pick(10000, 100000))
    ctx.floor("random_sequences", ctx.pick(1500, 30000))
    for h in ("update_stamped", "create_added", "create_no_overwrite", "change_applied", "spew_on_empty",
              "gulp_none_ignored", "bad_name_rejected"):
        ctx.floor(h, ctx.pick(500, 1800))
    ctx.floor("steps_rejected", ctx.pick(9000, 70000))
    ctx.floor("distinct_nontrivial", ctx.pick(14000, 90000))
